(* C18/Proofs.v — the property for EVERY history (induction over the operation list), the codec and
   targeted-id theorems, the refutation witnesses of the three open findings, non-vacuity examples.
   Supporting developments: Codec.v (decode (code n) = Some (norm n), injectivity), Maps.v (dict
   algebra), Plan.v (every operation = decide + one dict action), Reflect.v (boolean spec = spec),
   Inv.v (state invariant, per action), Steps.v (one step under the hypotheses). *)
From Coq Require Import String Ascii List Bool Arith Lia.
From Verif Require Import Base.Str Base.Percent C18.Model C18.Spec C18.Codec C18.Maps C18.ModelV0 C18.Plan C18.Reflect C18.Inv C18.Steps C18.Key.
Import ListNotations.
Open Scope string_scope.

Section Runs.
  Variable cfg : config.
  Variable is_user : string -> bool.

  Notation Inv := (Inv is_user).
  Notation Owner := (Owner is_user).
  Notation ev := (ev cfg).
  Notation mtrace := (mtrace cfg).
  Notation final_state := (final_state cfg).
  Notation step := (step cfg).

  (* everything mentioned up to the end of a history *)
  Fixpoint seen_after (seen : list string) (ops : list op) : list string :=
    match ops with
    | [] => seen
    | o :: r => seen_after (seen ++ mentions cfg o) r
    end.

  Lemma seen_after_incl ops : forall seen, incl seen (seen_after seen ops).
  Proof.
    induction ops as [|o r IH]; intros seen; cbn [seen_after]; [apply incl_refl|].
    intros x Hx. apply IH. apply in_app_iff. left. exact Hx.
  Qed.

  Lemma final_cons d o r : final_state d (o :: r) = final_state (fst (step d o)) r.
  Proof. reflexivity. Qed.

  Lemma mtrace_app a : forall d b, mtrace d (a ++ b) = (mtrace d a ++ mtrace (final_state d a) b)%list.
  Proof.
    induction a as [|o a IH]; intros d b; [reflexivity|].
    cbn [app]. rewrite (mtrace_cons cfg d o (a ++ b)), (mtrace_cons cfg d o a), final_cons, IH. reflexivity.
  Qed.

  Lemma mtrace_split t1 : forall d ops t2,
    mtrace d ops = (t1 ++ t2)%list ->
    exists a b, ops = (a ++ b)%list /\ t1 = mtrace d a /\ t2 = mtrace (final_state d a) b.
  Proof.
    induction t1 as [|e t1 IH]; intros d ops t2 H.
    - exists [], ops. auto.
    - destruct ops as [|o r]; [discriminate|]. rewrite mtrace_cons in H. cbn [app] in H.
      inversion H as [[He Hr]]. destruct (IH _ _ _ Hr) as (a & b & -> & -> & ->).
      exists (o :: a), b. rewrite mtrace_cons, final_cons. auto.
  Qed.

  (* a history that satisfies the hypotheses of the property, from a given state *)
  Definition good (seen : list string) (d : db) (ops : list op) : Prop := wf_from cfg is_user seen (mtrace d ops).

  Definition good_event (seen : list string) (d : db) (o : op) : Prop := wf_event cfg is_user seen (ev d o).

  Lemma good_cons seen d o r :
    good seen d (o :: r) <-> good_event seen d o /\ good (seen ++ mentions cfg o) (fst (step d o)) r.
  Proof.
    unfold good, good_event. rewrite mtrace_cons. cbn [wf_from].
    unfold Steps.ev at 2. cbn [e_op]. tauto.
  Qed.

  Lemma good_nil seen d : good seen d [].
  Proof. exact I. Qed.

  Lemma good_app a : forall seen d b,
    good seen d (a ++ b) <-> good seen d a /\ good (seen_after seen a) (final_state d a) b.
  Proof.
    induction a as [|o a IH]; intros seen d b.
    - cbn [app seen_after]. pose proof (good_nil seen d). change (final_state d []) with d. tauto.
    - cbn [app seen_after]. rewrite !good_cons, final_cons, IH. tauto.
  Qed.

  Lemma good_step seen d o :
    Inv seen d -> good_event seen d o ->
    outcome cfg is_user seen d o (fst (step d o)) (snd (step d o)) /\ Inv (seen ++ mentions cfg o) (fst (step d o)).
  Proof.
    intros HI Hwf. pose proof (step_outcome cfg is_user seen d o HI Hwf) as Ho.
    split; [exact Ho|apply (outcome_inv cfg is_user seen d o _ _ HI Ho)].
  Qed.

  (* the invariant holds in every reachable state *)
  Theorem run_inv ops : forall seen d, Inv seen d -> good seen d ops -> Inv (seen_after seen ops) (final_state d ops).
  Proof.
    induction ops as [|o r IH]; intros seen d HI Hg; [exact HI|].
    apply good_cons in Hg as [Hge Hgr]. rewrite final_cons. cbn [seen_after].
    apply IH; [|exact Hgr]. apply (good_step seen d o HI Hge).
  Qed.

  (* tracked facts along a history *)
  Theorem run_track ops t u k b : forall seen d,
    Inv seen d -> good seen d ops -> is_user u = true -> In t seen ->
    (Owner d t u k b -> Owner (final_state d ops) t u k b)
    /\ (Has d u t -> ~ removed_in (mtrace d ops) (Some t) -> Has (final_state d ops) u t).
  Proof.
    induction ops as [|o r IH]; intros seen d HI Hg Hu Hs; [split; auto|].
    apply good_cons in Hg as [Hge Hgr]. rewrite final_cons.
    destruct (good_step seen d o HI Hge) as [Ho HI1].
    destruct (outcome_track cfg is_user seen d o _ _ t u k b HI Ho Hu Hs) as [T1 T2].
    assert (Hs1 : In t (seen ++ mentions cfg o)) by (apply in_app_iff; left; exact Hs).
    destruct (IH _ _ HI1 Hgr Hu Hs1) as [R1 R2]. split.
    - intros H. apply R1, T1, H.
    - intros H Hnr. rewrite mtrace_cons in Hnr. destruct (T2 H) as [(n & -> & Ht & Hx)|H1].
      + exfalso. apply Hnr. exists (ev d (RemoveRemote n)). split; [left; reflexivity|].
        exists n. repeat split; [exact Ht|exact Hx].
      + apply R2; [exact H1|]. intros (e & He & Hre). apply Hnr. exists e. split; [right; exact He|exact Hre].
  Qed.

  Lemma outcome_texts seen d o d' x :
    outcome cfg is_user seen d o d' x -> forall t, In (Some t) (out_texts x) -> In t (seen ++ mentions cfg o).
  Proof.
    intros Ho t Ht.
    destruct Ho as [x Hx|u n t0 x Hu Ht0 Hne Htu Hns Hc Hs Hx|n t0 d1 -> Hr Ht0 Htu|n n' id t0 d1 newid enc term -> Hr Ht0 Ht' Hl Htu E1 E2 E3].
    - apply Hx, Ht.
    - destruct Hx as [->| ->]; [destruct Ht|]. destruct Ht as [E|[]].
      assert (t0 = t) by congruence. subst t0. apply in_app_iff. right. apply cand_mentions. exact Hc.
    - destruct Ht.
    - destruct Ht as [E|[]]. assert (t0 = t) by congruence. subst t0.
      apply in_app_iff. right. apply (nid_mentions cfg _ n t); [reflexivity|exact Ht0].
  Qed.

  (* every identifier value that an operation of the history answered has been mentioned *)
  Theorem run_texts ops : forall seen d,
    Inv seen d -> good seen d ops ->
    forall e0, In e0 (mtrace d ops) -> forall t, In (Some t) (out_texts (e_out e0)) -> In t (seen_after seen ops).
  Proof.
    induction ops as [|o r IH]; intros seen d HI Hg e0 He0 t Ht; [destruct He0|].
    apply good_cons in Hg as [Hge Hgr]. rewrite mtrace_cons in He0. cbn [seen_after].
    destruct (good_step seen d o HI Hge) as [Ho HI1]. destruct He0 as [<-|He0].
    - apply seen_after_incl. apply (outcome_texts seen d o _ _ Ho t Ht).
    - apply (IH _ _ HI1 Hgr e0 He0 t Ht).
  Qed.

  (* the situation at one event of a history *)
  Lemma at_event seen0 d0 ops pre e post :
    Inv seen0 d0 -> good seen0 d0 ops -> mtrace d0 ops = (pre ++ e :: post)%list ->
    exists a o b,
      ops = (a ++ o :: b)%list /\ pre = mtrace d0 a /\ e = ev (final_state d0 a) o
      /\ post = mtrace (fst (step (final_state d0 a) o)) b
      /\ good seen0 d0 a
      /\ Inv (seen_after seen0 a) (final_state d0 a)
      /\ good_event (seen_after seen0 a) (final_state d0 a) o
      /\ Inv (seen_after seen0 a ++ mentions cfg o) (fst (step (final_state d0 a) o))
      /\ good (seen_after seen0 a ++ mentions cfg o) (fst (step (final_state d0 a) o)) b.
  Proof.
    intros HI Hg Hm. destruct (mtrace_split pre d0 ops (e :: post) Hm) as (a & b0 & -> & -> & Hb).
    destruct b0 as [|o b]; [discriminate|]. rewrite mtrace_cons in Hb. inversion Hb as [[He Hp]].
    apply good_app in Hg as [Hga Hgb]. apply good_cons in Hgb as [Hge Hgr].
    pose proof (run_inv a seen0 d0 HI Hga) as HIa.
    exists a, o, b. split; [reflexivity|]. split; [reflexivity|]. split; [first [exact He|reflexivity]|]. split; [first [exact Hp|reflexivity]|].
    split; [exact Hga|]. split; [exact HIa|]. split; [exact Hge|]. split; [apply (good_step _ _ o HIa Hge)|exact Hgr].
  Qed.

  (* ---------------------------------------------------------------- the seven parts *)
  Section Parts.
    Variable ops : list op.
    Hypothesis Hgood : good [] [] ops.
    Let tr := mtrace [] ops.

    Lemma part_consistent : all_events (consistent_event is_user) tr.
    Proof.
      intros pre e post E.
      destruct (at_event [] [] ops pre e post (inv_init is_user) Hgood E) as (a & o & b & _ & _ & -> & _ & _ & _ & _ & HI1 & _).
      unfold consistent_event, Steps.ev. cbn [e_post]. split; [apply (inv_fwd _ _ _ HI1)|apply (inv_rev _ _ _ HI1)].
    Qed.

    Lemma part_valued : all_events (valued_event cfg) tr.
    Proof.
      intros pre e post E.
      destruct (at_event [] [] ops pre e post (inv_init is_user) Hgood E) as (a & o & b & _ & _ & -> & _ & _ & HIa & Hwf & _).
      intros u f s q n Hr Hout. unfold Steps.ev in Hr, Hout. cbn [e_op e_out] in Hr, Hout.
      destruct (request_result cfg is_user _ _ o u f s q n HIa Hwf Hr Hout) as (t & c & Ht & Hne & _).
      rewrite Ht. apply truthy_some. exact Hne.
    Qed.

    Lemma part_transient : all_events (transient_event cfg) tr.
    Proof.
      intros pre e post E.
      destruct (at_event [] [] ops pre e post (inv_init is_user) Hgood E) as (a & o & b & _ & -> & -> & _ & Hga & HIa & Hwf & _).
      intros u s q n Hr Hout. unfold Steps.ev in Hr, Hout |- *. cbn [e_op e_out e_pre] in Hr, Hout |- *.
      destruct (request_result cfg is_user _ _ o u _ s q n HIa Hwf Hr Hout) as (t & c & Ht & Hne & _ & _ & _ & _ & _ & Hcase).
      destruct Hcase as [(_ & Hf & _)|(Hns & Hl & _)]; [discriminate|].
      exists t. split; [exact Ht|]. split; [exact Hl|]. intros e0 He0 Hin. apply Hns.
      apply (run_texts a [] [] (inv_init is_user) Hga e0 He0 t Hin).
    Qed.

    Lemma part_manage : all_events manage_event tr.
    Proof.
      intros pre e post E.
      destruct (at_event [] [] ops pre e post (inv_init is_user) Hgood E) as (a & o & b & _ & _ & -> & _ & _ & HIa & Hwf & _).
      apply (manage_ok cfg is_user _ _ o pre HIa Hwf).
    Qed.

    Lemma part_issued : all_events (issued_event cfg) tr.
    Proof.
      intros pre e post E.
      destruct (at_event [] [] ops pre e post (inv_init is_user) Hgood E) as (a & o & b & _ & _ & -> & _ & _ & HIa & Hwf & HI1 & _).
      intros u f s q n Hr Hout. unfold Steps.ev in Hr, Hout |- *. cbn [e_op e_out e_post] in Hr, Hout |- *.
      destruct (request_result cfg is_user _ _ o u f s q n HIa Hwf Hr Hout) as (t & c & Ht & Hne & Htu & Hu & _).
      destruct (request_issued cfg is_user _ _ o u f s q n HIa Hwf Hr Hout) as (Hf & Hs & Hq & Hin).
      split; [exact Hf|]. split; [apply same_q_normo; exact Hs|]. split; [apply same_q_normo; exact Hq|].
      exists t. split; [exact Ht|]. split; [|exact Hin].
      apply (has_lookup is_user _ _ u t HI1 Hu). exists (code n). split; [exact Hin|].
      apply (ctext_code_some n t Ht Hne).
    Qed.

    Lemma part_findlocal : all_events findlocal_event tr.
    Proof.
      intros pre e post E.
      destruct (at_event [] [] ops pre e post (inv_init is_user) Hgood E) as (a & o & b & _ & _ & -> & _).
      intros m Eo. unfold Steps.ev in Eo |- *. cbn [e_op e_out e_pre] in Eo |- *. subst o.
      cbn [Model.step snd]. unfold find_local_id. reflexivity.
    Qed.

    Lemma part_find : all_events find_event tr.
    Proof.
      intros pre e post E.
      destruct (at_event [] [] ops pre e post (inv_init is_user) Hgood E) as (a & o & b & _ & _ & -> & _ & _ & HIa & Hwf & _).
      intros u flt Eo. unfold Steps.ev in Eo |- *. cbn [e_op e_out e_pre] in Eo |- *. subst o.
      assert (Hu : is_user u = true) by (destruct Hwf as (W1 & _); apply W1; reflexivity).
      cbn [Model.step snd]. unfold find_nameid.
      destruct (lookup u (final_state [] a)) as [v|] eqn:Ev.
      - rewrite (inv_fw_elements is_user _ _ u v HIa Hu Ev).
        destruct (decoded_decode_all (elements v)) as (all & H1 & H2).
        { intros c Hc. rewrite <- (inv_fw_elements is_user _ _ u v HIa Hu Ev) in Hc.
          destruct (inv_codes _ _ _ HIa u c Hu Hc) as (n & t & -> & _). exists (norm n). apply decode_code. }
        rewrite H2. exists all. split; [exact H1|reflexivity].
      - exists []. unfold fw. rewrite Ev. split; reflexivity.
    Qed.

    Lemma part_lookup : all_events lookup_event tr.
    Proof.
      intros pre e post E.
      destruct (at_event [] [] ops pre e post (inv_init is_user) Hgood E) as (a & o & b & _ & _ & -> & _ & _ & HIa & Hwf & _).
      intros u s q n Eo Hout. unfold Steps.ev in Eo, Hout |- *. cbn [e_op e_out e_pre] in Eo, Hout |- *. subst o.
      assert (Hu : is_user u = true) by (destruct Hwf as (W1 & _); apply W1; reflexivity).
      cbn [Model.step snd] in Hout.
      destruct (match_local_id (final_state [] a) u s q) as [[m|]|ex] eqn:Em; try discriminate.
      inversion Hout; subst m.
      destruct (match_some_stored _ u s q n Em) as (v & c & Hv & Hc & Hd & Hf & Hm).
      destruct (in_elements_fw _ u v c Hv Hc) as [->|Hin].
      - rewrite decode_empty in Hd. inversion Hd; subst n. discriminate.
      - destruct (inv_codes _ _ _ HIa u c Hu Hin) as (n0 & t & -> & _).
        rewrite decode_code in Hd. inversion Hd; subst n. rewrite code_norm.
        split; [exact Hin|]. split; [apply ostr_eqb_eq; exact Hf|].
        apply nid_matches_iff in Hm as [H1 H2]. split; apply same_q_normo; assumption.
    Qed.

    Lemma part_effect : all_events effect_event tr.
    Proof.
      intros pre e post E.
      destruct (at_event [] [] ops pre e post (inv_init is_user) Hgood E) as (a & o & b & _ & _ & -> & _ & _ & HIa & Hwf & _).
      apply (effect_ok cfg is_user _ _ o pre HIa Hwf).
    Qed.

    (* the situation at an ordered pair of events: ei asks for an identifier and gets ni *)
    Lemma at_pair pre ei mid ej post u f s q ni :
      tr = (pre ++ ei :: mid ++ ej :: post)%list ->
      request_of cfg (e_op ei) = Some (u, f, s, q) -> e_out ei = ONid ni ->
      exists t seen d oj,
        txt ni = Some t /\ t <> "" /\ is_user t = false /\ is_user u = true
        /\ Inv seen d /\ good_event seen d oj /\ ej = ev d oj /\ In t seen
        /\ (exists k b, Owner d t u k b /\ (f = NF_PERSISTENT -> b = true /\ k = (normo s, normo q)))
        /\ (Has d u t \/ removed_in mid (Some t)).
    Proof.
      intros E Hr Hout.
      destruct (at_event [] [] ops pre ei (mid ++ ej :: post) (inv_init is_user) Hgood E)
        as (a & oi & b & _ & _ & -> & Hpost & _ & HIa & Hwf & HI1 & Hg1).
      unfold Steps.ev in Hr, Hout. cbn [e_op e_out] in Hr, Hout.
      destruct (request_result cfg is_user _ _ oi u f s q ni HIa Hwf Hr Hout)
        as (t & c & Ht & Hne & Htu & Hu & Hc & Hct & Hfp & Hcase).
      set (seen1 := (seen_after [] a ++ mentions cfg oi)%list) in *.
      set (d1 := fst (step (final_state [] a) oi)) in *.
      assert (Hs1 : In t seen1).
      { destruct (inv_entry is_user seen1 d1 u c HI1 Hu Hc) as (_ & t' & _ & _ & _ & _ & Hct' & _ & Hs').
        congruence. }
      pose proof (owner_of is_user seen1 d1 u c t HI1 Hu Hc Hct) as Hown1.
      symmetry in Hpost.
      destruct (at_event seen1 d1 b mid ej post HI1 Hg1 Hpost) as (am & oj & bm & _ & -> & -> & _ & Hgm & HIm & Hgej & _).
      destruct (run_track am t u (ckey c) (pers c) seen1 d1 HI1 Hgm Hu Hs1) as [R1 R2].
      exists t, (seen_after seen1 am), (final_state d1 am), oj.
      repeat (split; [assumption|]). split; [reflexivity|]. split; [apply seen_after_incl; exact Hs1|].
      split.
      - exists (ckey c), (pers c). split; [apply R1; exact Hown1|]. intros Hf. destruct (Hfp Hf). auto.
      - destruct (removed_in_b (mtrace d1 am) (Some t)) eqn:Er.
        + right. apply removed_in_b_iff. exact Er.
        + left. apply removed_in_b_false in Er. apply R2; [|exact Er]. exists c. auto.
    Qed.

    Lemma part_stable : all_pairs (stable_pair cfg) tr.
    Proof.
      intros pre ei mid ej post E u s q s' q' ni nj Hri Hrj Hs Hq Hoi Hoj Hnr.
      destruct (at_pair pre ei mid ej post u _ s q ni E Hri Hoi)
        as (t & seen & d & oj & Ht & Hne & Htu & Hu & HI & Hwf & -> & Hseen & (k & b & Hown & Hfp) & Hhas).
      rewrite Ht in Hnr |- *. destruct Hhas as [(c & Hc & Hct)|Hrem]; [|contradiction].
      destruct (Hfp eq_refl) as [-> ->]. destruct (Hown u c Hu Hc Hct) as (_ & Hk & Hnt).
      apply same_q_normo in Hs, Hq.
      unfold Steps.ev in Hrj, Hoj. cbn [e_op e_out] in Hrj, Hoj.
      destruct (request_result cfg is_user seen d oj u _ s' q' nj HI Hwf Hrj Hoj)
        as (tj & cj & Htj & _ & _ & _ & Hcj & Hctj & Hfpj & Hcase).
      destruct (Hfpj eq_refl) as [Hntj Hkj].
      destruct Hcase as [(Hd & _ & Hcj0 & _)|(_ & _ & Hm)].
      - (* answered from the store: the single stored identifier of that key *)
        assert (cj = c) by (apply (inv_single _ _ _ HI u cj c Hu Hcj0 Hc Hntj Hnt); congruence).
        subst cj. congruence.
      - (* issued although one is stored: impossible *)
        exfalso. apply (match_none_single d u s' q' (Hm eq_refl) c Hc Hnt). congruence.
    Qed.

    Lemma part_distinct : all_pairs (distinct_pair cfg) tr.
    Proof.
      intros pre ei mid ej post E u s q u' s' q' ni nj Hri Hrj Hdiff Hoi Hoj Heq.
      destruct (at_pair pre ei mid ej post u _ s q ni E Hri Hoi)
        as (t & seen & d & oj & Ht & Hne & Htu & Hu & HI & Hwf & -> & Hseen & (k & b & Hown & Hfp) & _).
      destruct (Hfp eq_refl) as [-> ->].
      unfold Steps.ev in Hrj, Hoj. cbn [e_op e_out] in Hrj, Hoj.
      destruct (request_result cfg is_user seen d oj u' _ s' q' nj HI Hwf Hrj Hoj)
        as (tj & cj & Htj & _ & _ & Hu' & Hcj & Hctj & Hfpj & Hcase).
      assert (tj = t) by congruence. subst tj.
      destruct (Hfpj eq_refl) as [Hntj Hkj].
      destruct Hcase as [(Hd & _ & Hcj0 & _)|(Hns & _)]; [|contradiction].
      destruct (Hown u' cj Hu' Hcj0 Hctj) as (Eu & Ek & _).
      destruct Hdiff as [Hd1|Hd2]; [congruence|]. apply Hd2. apply same_q_normo. congruence.
    Qed.

    Lemma part_reverse : all_pairs (reverse_pair cfg) tr.
    Proof.
      intros pre ei mid ej post E u f s q ni m Hri Hoi Hop Etxt.
      destruct (at_pair pre ei mid ej post u f s q ni E Hri Hoi)
        as (t & seen & d & oj & Ht & Hne & Htu & Hu & HI & _ & -> & Hseen & (k & b & Hown & _) & Hhas).
      unfold Steps.ev in Hop |- *. cbn [e_op e_out] in Hop |- *. subst oj. cbn [Model.step snd].
      unfold find_local_id. rewrite Etxt, Ht. cbn [lookup_opt]. split.
      - intros u' Hout. destruct (lookup t d) as [u0|] eqn:El; [|discriminate]. inversion Hout; subst u0.
        destruct (inv_rev _ _ _ HI t u' Htu El) as (Hu' & c & Hc & Hct).
        apply (Hown u' c Hu' Hc Hct).
      - intros Hnr. destruct Hhas as [Hh|Hrem]; [|contradiction].
        rewrite (has_lookup is_user seen d u t HI Hu Hh). reflexivity.
    Qed.

    Theorem parts_hold :
      all_pairs (stable_pair cfg) tr /\ all_pairs (distinct_pair cfg) tr /\ all_pairs (reverse_pair cfg) tr
      /\ all_events (valued_event cfg) tr /\ all_events (transient_event cfg) tr /\ all_events manage_event tr
      /\ all_events (consistent_event is_user) tr /\ all_events (issued_event cfg) tr /\ all_events findlocal_event tr
      /\ all_events find_event tr /\ all_events lookup_event tr /\ all_events effect_event tr.
    Proof.
      exact (conj part_stable (conj part_distinct (conj part_reverse (conj part_valued
               (conj part_transient (conj part_manage (conj part_consistent (conj part_issued
               (conj part_findlocal (conj part_find (conj part_lookup part_effect))))))))))).
    Qed.
  End Parts.

  (* C18, identifier part: for EVERY history from the empty store that satisfies the hypotheses of the
     property (wf), every part of the property holds *)
  Theorem ident_holds ops : ident_spec cfg is_user (mtrace [] ops).
  Proof. intros Hwf. apply parts_hold. exact Hwf. Qed.
End Runs.

(* ------------------------------------------------------------------ named parts of the property *)
Section Named.
  Variable cfg : config.
  Variable is_user : string -> bool.
  Variable ops : list op.
  Let tr := mtrace cfg [] ops.
  Hypothesis Hwf : wf cfg is_user tr.

  Let Hall := ident_holds cfg is_user ops Hwf.

  Lemma persistent_stable : all_pairs (stable_pair cfg) tr.
  Proof. apply Hall. Qed.
  Lemma pairwise_distinct : all_pairs (distinct_pair cfg) tr.
  Proof. apply Hall. Qed.
  Lemma reverse_exact : all_pairs (reverse_pair cfg) tr.
  Proof. apply Hall. Qed.
  Lemma issued_valued : all_events (valued_event cfg) tr.
  Proof. apply Hall. Qed.
  Lemma transient_fresh : all_events (transient_event cfg) tr.
  Proof. apply Hall. Qed.
  Lemma manage_local : all_events manage_event tr.
  Proof. apply Hall. Qed.
  Lemma reachable_consistent : all_events (consistent_event is_user) tr.
  Proof. apply Hall. Qed.
  Lemma issued_is_stored : all_events (issued_event cfg) tr.
  Proof. apply Hall. Qed.
  Lemma findlocal_is_store : all_events findlocal_event tr.
  Proof. apply Hall. Qed.
  Lemma find_is_filter : all_events find_event tr.
  Proof. apply Hall. Qed.
  Lemma lookup_is_stored : all_events lookup_event tr.
  Proof. apply Hall. Qed.
  Lemma manage_takes_effect : all_events effect_event tr.
  Proof. apply Hall. Qed.
End Named.

(* the state invariant for every reachable state, as a statement about final states *)
Theorem reachable_inv cfg is_user ops :
  wf cfg is_user (mtrace cfg [] ops) ->
  forward_ok is_user (final_state cfg [] ops) /\ reverse_ok is_user (final_state cfg [] ops).
Proof.
  intros Hwf.
  assert (HI : Inv is_user (seen_after cfg [] ops) (final_state cfg [] ops)).
  { apply run_inv; [apply inv_init|exact Hwf]. }
  split; [apply (inv_fwd _ _ _ HI)|apply (inv_rev _ _ _ HI)].
Qed.

(* ------------------------------------------------------------------ non-vacuity and v0 refutations *)
Definition ex_cfg : config := {| domain := "ex.org"; default_nq := "https://idp.example.org/idp.xml" |}.
Definition ex_user (s : string) : bool := mem s ["alice"; "bob smith"].
Definition ex_sp := Some "https://sp1.example.org/sp.xml".
Definition ex_nq := Some "https://idp.example.org/idp.xml".
Definition ex_p1 : nameid := mkN ex_nq ex_sp (Some NF_PERSISTENT) None (Some "id-1").
Definition ex_a1 : nameid := mkN None None (Some NF_PERSISTENT) None (Some "id-5").

(* a history inside the hypotheses that exercises every kind of step, including the situations of the
   former finding classes 2 (e-mail format id for the same triple, then NewID) and 3 (persistent id
   without requester and qualifier, then NewID) *)
Definition ex_good : list op :=
  [ Persistent "alice" ex_sp ex_nq "id-1";
    Persistent "alice" ex_sp ex_nq "";
    Transient "alice" ex_sp None "tr-1";
    Persistent "bob smith" ex_sp ex_nq "id-2";
    Persistent "alice" (Some "sp,2=x") ex_nq "id-3";
    FindLocal ex_p1;
    GetNameid "alice" NF_EMAIL ex_sp ex_nq "m-1";
    Manage ex_p1 (Some (Some "new id")) false false;
    Persistent "alice" ex_sp ex_nq "";
    Persistent "bob smith" None None "id-5";
    Manage ex_a1 None false true;
    Persistent "bob smith" None None "";
    Mapping ex_p1 {| pfmt := Some NF_TRANSIENT; pspq := Some "sp4"; pallow := None |} "tr-2";
    RemoveRemote (mkN ex_nq ex_sp (Some NF_PERSISTENT) (Some "new id") (Some "id-1"));
    FindLocal ex_p1;
    Persistent "alice" ex_sp ex_nq "id-4";
    Store "alice" (mkN None ex_sp (Some NF_TRANSIENT) None (Some "raw-1"));
    FindNameid "alice" [] ].

Example good_example :
  let tr := mtrace ex_cfg [] ex_good in
  wf ex_cfg ex_user tr
  /\ map e_out (firstn 3 tr) = [ONid ex_p1; ONid ex_p1;
                                ONid (mkN None ex_sp (Some NF_TRANSIENT) None (Some "tr-1"))]
  /\ map e_out (firstn 1 (skipn 8 tr)) = [ONid (mkN ex_nq ex_sp (Some NF_PERSISTENT) (Some "new id") (Some "id-1"))]
  /\ map e_out (firstn 1 (skipn 11 tr)) = [ONid ex_a1]
  /\ qualified_b ex_cfg tr = false /\ single_valued_b ex_cfg tr = false.
Proof.
  cbv zeta. split; [apply wf_b_iff; vm_compute; reflexivity|].
  repeat split; vm_compute; reflexivity.
Qed.

(* finding class 2 (C18-F2, repaired by 9057a062): before the repair a second non-transient identifier for
   the same (user, requester, qualifier) — an e-mail format id — and a ManageNameID made persistent_nameid
   answer another value *)
Definition ex_class2 : list op :=
  [ Persistent "alice" ex_sp ex_nq "id-1";
    GetNameid "alice" NF_EMAIL ex_sp ex_nq "m-1";
    Manage ex_p1 (Some (Some "x")) false false;
    Persistent "alice" ex_sp ex_nq "" ].

Lemma class2_v0_refuted :
  exists cfg is_user ops, qualified cfg (V0.mtrace cfg [] ops) /\ wf cfg is_user (V0.mtrace cfg [] ops)
                          /\ ~ ident_spec cfg is_user (V0.mtrace cfg [] ops).
Proof.
  exists ex_cfg, ex_user, ex_class2.
  split; [apply qualified_b_iff; vm_compute; reflexivity|].
  split; [apply wf_b_iff; vm_compute; reflexivity|].
  intros H. apply ident_spec_b_iff in H. vm_compute in H. discriminate.
Qed.

(* finding class 3 (C18-F3, repaired by afb60e41): persistent identifier asked for without requester and
   qualifier; after a ManageNameID the forward entry had a leading empty element, which decodes to an
   empty NameID *)
Definition ex_a0 : nameid := mkN None None (Some NF_PERSISTENT) None (Some "id-1").
Definition ex_cfg0 : config := {| domain := ""; default_nq := "" |}.
Definition ex_class3 : list op :=
  [ Persistent "alice" None None "id-1";
    Manage ex_a0 (Some (Some "x")) false false;
    Persistent "alice" None None "" ].

Lemma class3_v0_refuted :
  exists cfg is_user ops, single_valued cfg (V0.mtrace cfg [] ops) /\ wf cfg is_user (V0.mtrace cfg [] ops)
                          /\ ~ ident_spec cfg is_user (V0.mtrace cfg [] ops).
Proof.
  exists ex_cfg0, ex_user, ex_class3.
  split; [apply single_valued_b_iff; vm_compute; reflexivity|].
  split; [apply wf_b_iff; vm_compute; reflexivity|].
  intros H. apply ident_spec_b_iff in H. vm_compute in H. discriminate.
Qed.

(* the same two histories on the repaired code: the last request answers the persistent identifier *)
Example class23_repaired :
  map e_out (skipn 3 (mtrace ex_cfg [] ex_class2)) = [ONid (mkN ex_nq ex_sp (Some NF_PERSISTENT) (Some "x") (Some "id-1"))]
  /\ map e_out (skipn 2 (mtrace ex_cfg0 [] ex_class3)) = [ONid (mkN None None (Some NF_PERSISTENT) (Some "x") (Some "id-1"))].
Proof. split; vm_compute; reflexivity. Qed.

(* (strengthening round 2) the two new parts say something the former seven do not: an observed trace in
   which an instance-level memo of persistent_nameid hands out an identifier again after it was removed
   (issued with the empty qualifier "", removed in the form the store returns it: qualifier absent)
   satisfies wf and the seven former parts and fails exactly "issued = stored"; a stale reverse lookup after
   the removal fails exactly "reverse lookup = store" *)
Definition ex_n1 : nameid := mkN (Some "") ex_sp (Some NF_PERSISTENT) None (Some "id-1").
Definition ex_n1_stored : nameid := mkN None ex_sp (Some NF_PERSISTENT) None (Some "id-1").
Definition ex_stale : trace :=
  (mtrace ex_cfg [] [Persistent "alice" ex_sp (Some "") "id-1"; RemoveRemote ex_n1_stored]
   ++ [ {| e_op := Persistent "alice" ex_sp (Some "") "id-1"; e_out := ONid ex_n1; e_pre := []; e_post := [] |} ])%list.
Definition ex_stale_rev : trace :=
  (mtrace ex_cfg [] [Persistent "alice" ex_sp (Some "") "id-1"; RemoveRemote ex_n1_stored]
   ++ [ {| e_op := FindLocal ex_n1; e_out := OStr "alice"; e_pre := []; e_post := [] |} ])%list.

Lemma new_parts_independent :
  (wf ex_cfg ex_user ex_stale
   /\ ident_spec_parts_b ex_cfg ex_user ex_stale = [true; true; true; true; true; true; true; false; true; true; true; true]
   /\ ~ ident_spec ex_cfg ex_user ex_stale)
  /\ (wf ex_cfg ex_user ex_stale_rev
      /\ ident_spec_parts_b ex_cfg ex_user ex_stale_rev = [true; true; true; true; true; true; true; true; false; true; true; true]
      /\ ~ ident_spec ex_cfg ex_user ex_stale_rev).
Proof.
  split; (split; [apply wf_b_iff; vm_compute; reflexivity|]); (split; [vm_compute; reflexivity|]);
    intros H; apply ident_spec_b_iff in H; vm_compute in H; discriminate.
Qed.

(* (strengthening round 4) the three parts added in round 4 say something the former nine do not.
   ex_lastfield: the observed trace of a find_nameid whose filter loop lets the LAST field decide -- alice holds a
   persistent identifier for requester 1 and a transient one for requester 2; asked for {sp_name_qualifier = requester 2,
   format = persistent} it answers requester 1's persistent identifier -- satisfies wf and the nine former parts and
   fails exactly "find = the matching stored identifiers".  ex_shared: the observed trace of a lookup that answers a
   NameID object shared between calls (it still carries the SPProvidedID a terminated NewID gave it, the store does
   not) fails exactly "a lookup answers what the store holds". *)
Definition ex_sp2 := Some "sp,2=x".
Definition ex_two : list op := [Persistent "alice" ex_sp ex_nq "id-1"; Transient "alice" ex_sp2 ex_nq "tr-1"].
Definition ex_lastfield : trace :=
  (mtrace ex_cfg [] ex_two
   ++ [ {| e_op := FindNameid "alice" [(1, ex_sp2); (2, Some NF_PERSISTENT)]; e_out := ONids [ex_p1];
           e_pre := final_state ex_cfg [] ex_two; e_post := final_state ex_cfg [] ex_two |} ])%list.
Definition ex_shared : trace :=
  (mtrace ex_cfg [] ex_two
   ++ [ {| e_op := MatchLocal "alice" ex_sp ex_nq;
           e_out := ONid (mkN ex_nq ex_sp (Some NF_PERSISTENT) (Some "new id") (Some "id-1"));
           e_pre := final_state ex_cfg [] ex_two; e_post := final_state ex_cfg [] ex_two |} ])%list.

(* ex_refused: the observed trace of a manage-name-id handler that refuses (ValueError, store untouched) a NewID for an
   identifier the store holds -- what dropping the copy of the presented NameID does -- fails exactly "takes effect" *)
Definition ex_refused : trace :=
  (mtrace ex_cfg [] ex_two
   ++ [ {| e_op := Manage ex_p1 (Some (Some "new id")) false false; e_out := OExc ValueErr;
           e_pre := final_state ex_cfg [] ex_two; e_post := final_state ex_cfg [] ex_two |} ])%list.

Lemma round4_parts_independent :
  (wf ex_cfg ex_user ex_lastfield
   /\ ident_spec_parts_b ex_cfg ex_user ex_lastfield = [true; true; true; true; true; true; true; true; true; false; true; true]
   /\ ~ ident_spec ex_cfg ex_user ex_lastfield)
  /\ (wf ex_cfg ex_user ex_shared
      /\ ident_spec_parts_b ex_cfg ex_user ex_shared = [true; true; true; true; true; true; true; true; true; true; false; true]
      /\ ~ ident_spec ex_cfg ex_user ex_shared)
  /\ (wf ex_cfg ex_user ex_refused
      /\ ident_spec_parts_b ex_cfg ex_user ex_refused = [true; true; true; true; true; true; true; true; true; true; true; false]
      /\ ~ ident_spec ex_cfg ex_user ex_refused).
Proof.
  split; [|split]; (split; [apply wf_b_iff; vm_compute; reflexivity|]); (split; [vm_compute; reflexivity|]);
    intros H; apply ident_spec_b_iff in H; vm_compute in H; discriminate.
Qed.

(* and on the model the same two lookups answer: nothing for {requester 2, persistent}; the stored identifier *)
Example round4_model_answers :
  snd (step ex_cfg (final_state ex_cfg [] ex_two) (FindNameid "alice" [(1, ex_sp2); (2, Some NF_PERSISTENT)])) = ONids []
  /\ snd (step ex_cfg (final_state ex_cfg [] ex_two) (FindNameid "alice" [(2, Some NF_PERSISTENT); (1, ex_sp2)])) = ONids []
  /\ snd (step ex_cfg (final_state ex_cfg [] ex_two) (FindNameid "alice" [(2, Some NF_PERSISTENT)])) = ONids [ex_p1]
  /\ snd (step ex_cfg (final_state ex_cfg [] ex_two) (MatchLocal "alice" ex_sp ex_nq)) = ONid ex_p1.
Proof. repeat split; vm_compute; reflexivity. Qed.

(* ------------------------------------------------------------------ encoding *)
Theorem codec_holds l : codec_spec (map (fun n => (n, code n, decode (code n))) l).
Proof.
  split.
  - intros n c dn Hin. apply in_map_iff in Hin as (n0 & E & _). inversion E; subst. apply decode_code.
  - intros n c dn n' c' dn' Hin Hin' Ec.
    apply in_map_iff in Hin as (n0 & E & _). apply in_map_iff in Hin' as (n1 & E' & _).
    inversion E; inversion E'; subst. apply code_injective. congruence.
Qed.

Example codec_example :
  code (mkN (Some "a,1=b") (Some "") None (Some "x y") (Some "%2C=é")) = "0=a%2C1%3Db,3=x%20y,4=%252C%3D%C3%A9".
Proof. vm_compute. reflexivity. Qed.

(* ------------------------------------------------------------------ targeted id *)
Section EptidProofs.
  Variable md5hex : string -> string.

  Definition emake (secret : string) (x : ecall) : string :=
    eptid_make md5hex secret (c_idp x) (c_sp x) (c_args x).

  (* call, value answered in the history, value answered for the same call on a fresh instance *)
  Definition obs_of (secret : string) (h : list ecall) (vals : list string) : list (ecall * string * string) :=
    map (fun p => (fst p, snd p, emake secret (fst p))) (combine h vals).
  Definition eptid_obs (secret : string) (h : list ecall) := obs_of secret h (eptid_run md5hex secret [] h).
  Definition eptid_obs_v0 (secret : string) (h : list ecall) := obs_of secret h (eptid_run_v0 md5hex secret [] h).

  Section Gen.
    Variable keyf : ecall -> string.

    (* every cache entry was made for an earlier call with that key *)
    Definition cache_ok (secret : string) (past : list ecall) (c : db) : Prop :=
      forall k v, lookup k c = Some v -> exists x, In x past /\ keyf x = k /\ v = emake secret x.

    Lemma eptid_run_spec secret h : forall past c,
      cache_ok secret past c ->
      (forall a b, In a (past ++ h) -> In b (past ++ h) -> keyf a = keyf b -> a = b) ->
      eptid_run_gen md5hex keyf secret c h = map (emake secret) h.
    Proof.
      induction h as [|a h IH]; intros past c Hc Hn; [reflexivity|].
      cbn [eptid_run_gen map]. unfold eptid_get_gen. fold (emake secret a).
      assert (Hn' : forall x y, In x ((past ++ [a]) ++ h) -> In y ((past ++ [a]) ++ h) -> keyf x = keyf y -> x = y)
        by (rewrite <- app_assoc; exact Hn).
      destruct (lookup (keyf a) c) as [v|] eqn:El.
      - destruct (Hc _ _ El) as (x & Hx & Hk & ->).
        assert (x = a).
        { apply Hn; [apply in_app_iff; left; exact Hx|apply in_app_iff; right; left; reflexivity|exact Hk]. }
        subst x. f_equal. apply (IH (past ++ [a])%list); [|exact Hn'].
        intros k v Hl. destruct (Hc k v Hl) as (y & Hy & Hr). exists y. split; [apply in_app_iff; left; exact Hy|exact Hr].
      - f_equal. apply (IH (past ++ [a])%list); [|exact Hn'].
        intros k v Hl. rewrite lookup_set in Hl. destruct (String.eqb k (keyf a)) eqn:E.
        + apply String.eqb_eq in E. inversion Hl; subst. exists a. split; [apply in_app_iff; right; left; reflexivity|auto].
        + destruct (Hc k v Hl) as (y & Hy & Hr). exists y. split; [apply in_app_iff; left; exact Hy|exact Hr].
    Qed.
  End Gen.

  (* the answer in ANY history is the answer of a fresh instance: the cache key determines the call *)
  Theorem eptid_deterministic secret h : eptid_run md5hex secret [] h = map (emake secret) h.
  Proof.
    apply (eptid_run_spec eptid_key secret h [] []); [intros k v H; discriminate|].
    intros a b _ _. apply eptid_key_injective.
  Qed.

  (* the pinned snapshot: only without a collision of the old key *)
  Theorem eptid_deterministic_v0 secret h :
    no_key_collision h -> eptid_run_v0 md5hex secret [] h = map (emake secret) h.
  Proof.
    intros Hn. apply (eptid_run_spec eptid_key_v0 secret h [] []); [intros k v H; discriminate|exact Hn].
  Qed.

  Hypothesis md5_injective : forall a b, md5hex a = md5hex b -> a = b.
  Hypothesis md5_length : forall a b, String.length (md5hex a) = String.length (md5hex b).

  Lemma concat_all_hd args : concat_all args = hd "" args ++ concat_all (tl args).
  Proof. destruct args; reflexivity. Qed.

  Theorem eptid_distinct secret x x' :
    c_idp x = c_idp x' -> tl (c_args x) = tl (c_args x') ->
    c_sp x <> c_sp x' \/ euser x <> euser x' -> emake secret x <> emake secret x'.
  Proof.
    intros Hi Ht Hd E. unfold emake, eptid_make in E. cbn [join] in E. rewrite Hi in E.
    apply sapp_inv_head in E. apply sapp_inv_head in E.
    apply sapp_inv_len in E; [|cbn [append String.length]; f_equal; apply md5_length].
    destruct E as [Es E]. apply sapp_inv_head in E. apply md5_injective in E.
    destruct Hd as [Hd|Hd]; [contradiction|]. apply Hd. rewrite Es in E.
    apply sapp_inv_tail in E. rewrite (concat_all_hd (c_args x)), (concat_all_hd (c_args x')), Ht in E.
    apply sapp_inv_tail in E. exact E.
  Qed.

  Lemma combine_map_self {A B} (f : A -> B) l : combine l (map f l) = map (fun x => (x, f x)) l.
  Proof. induction l as [|a l IH]; cbn; [reflexivity|]. rewrite IH. reflexivity. Qed.

  (* C18, targeted-id part: every history, under the guard that excludes finding class 4 (same extra arguments) *)
  Theorem eptid_holds secret h : same_extras h -> eptid_spec (eptid_obs secret h).
  Proof.
    intros Hext. unfold eptid_obs, obs_of. rewrite (eptid_deterministic secret h), combine_map_self, map_map.
    cbn [fst snd]. split.
    - intros x v f Hin. apply in_map_iff in Hin as (y & E & _). inversion E; subst. reflexivity.
    - intros x v f x' v' f' Hin Hin' Hi Hd.
      apply in_map_iff in Hin as (y & E & Hy). apply in_map_iff in Hin' as (y' & E' & Hy').
      inversion E; inversion E'; subst. apply eptid_distinct; auto.
  Qed.
End EptidProofs.

(* finding class 1 (C18-F1, repaired by 331c8f06): the old cache key sp ++ "__" ++ user did not determine the
   call — whatever the hash function *)
Definition ex_collision : list ecall :=
  [ {| c_idp := "idp"; c_sp := "a__b"; c_args := ["c"] |}; {| c_idp := "idp"; c_sp := "a"; c_args := ["b__c"] |} ].

Lemma eptid_v0_refuted : forall md5hex, exists secret h, same_extras h /\ ~ eptid_spec (eptid_obs_v0 md5hex secret h).
Proof.
  intros md5hex. exists "s", ex_collision. split.
  - apply same_extras_b_iff. vm_compute. reflexivity.
  - intros [H _].
    specialize (H {| c_idp := "idp"; c_sp := "a"; c_args := ["b__c"] |} _ _ (or_intror (or_introl eq_refl))).
    cbn in H. discriminate H.
Qed.

(* finding class 4 (C18-F4, open): Eptid.make hashes "".join(args) + sp + secret, so the user "a" with extra
   argument "b" and the user "ab" without extra argument receive the same targeted id — whatever the hash *)
Definition ex_extras : list ecall :=
  [ {| c_idp := "idp"; c_sp := "sp"; c_args := ["a"; "b"] |}; {| c_idp := "idp"; c_sp := "sp"; c_args := ["ab"] |} ].

Lemma eptid_make_refuted : forall md5hex, exists secret h, ~ eptid_spec (eptid_obs md5hex secret h).
Proof.
  intros md5hex. exists "s", ex_extras. intros [_ H].
  refine (H {| c_idp := "idp"; c_sp := "sp"; c_args := ["a"; "b"] |} _ _
            {| c_idp := "idp"; c_sp := "sp"; c_args := ["ab"] |} _ _
            (or_introl eq_refl) (or_intror (or_introl eq_refl)) eq_refl _ _).
  - right. cbn. discriminate.
  - reflexivity.
Qed.

Lemma ecall_eqb_eq a b : ecall_eqb a b = true <-> a = b.
Proof.
  unfold ecall_eqb. rewrite !andb_true_iff, !String.eqb_eq, (list_eqb_eq String.eqb String.eqb_eq).
  destruct a as [i s l], b as [i' s' l']; cbn [c_idp c_sp c_args]. split.
  - intros [[-> ->] ->]. reflexivity.
  - intros E. inversion E. auto.
Qed.

(* the class-1 guard evaluated by the correspondence is the guard of the v0 theorem *)
Lemma key_collision_b_false h : key_collision_b h = false <-> no_key_collision h.
Proof.
  unfold key_collision_b, no_key_collision. split.
  - intros H a b Ha Hb Hk. destruct (ecall_eqb a b) eqn:E; [apply ecall_eqb_eq; exact E|]. exfalso.
    assert (Ht : existsb (fun a0 => existsb (fun b0 =>
       String.eqb (eptid_key_v0 a0) (eptid_key_v0 b0) && negb (ecall_eqb a0 b0)) h) h = true).
    { apply existsb_exists. exists a. split; [exact Ha|]. apply existsb_exists. exists b. split; [exact Hb|].
      rewrite Hk, String.eqb_refl, E. reflexivity. }
    congruence.
  - intros H. destruct (existsb _ h) eqn:E; [|reflexivity]. exfalso.
    apply existsb_exists in E as (a & Ha & E). apply existsb_exists in E as (b & Hb & E).
    apply andb_true_iff in E as [E1 E2]. apply String.eqb_eq in E1. apply negb_true_iff in E2.
    rewrite (proj2 (ecall_eqb_eq a b) (H a b Ha Hb E1)) in E2. discriminate.
Qed.

Lemma guards_reflect cfg tr :
  (qualified_b cfg tr = true <-> qualified cfg tr) /\ (single_valued_b cfg tr = true <-> single_valued cfg tr).
Proof. split; [apply qualified_b_iff|apply single_valued_b_iff]. Qed.

Lemma eptid_reflect obs h :
  (eptid_spec_b obs = true <-> eptid_spec obs) /\ (key_collision_b h = false <-> no_key_collision h)
  /\ (same_extras_b h = true <-> same_extras h).
Proof. split; [apply eptid_spec_b_iff|split; [apply key_collision_b_false|apply same_extras_b_iff]]. Qed.
