(* C18/Spec.v — the property over OBSERVABLE traces (operations, return values, store states),
   written from the property text.  A trace is a list of events; "ei before ej" is expressed by
   decomposing the trace as  pre ++ ei :: mid ++ ej :: post  (mid = what happened in between).
   Every Prop has a boolean twin that Coq evaluates on the trace observed on the real code. *)
From Coq Require Import String Ascii List Bool Arith.
From Verif Require Import Base.Str C18.Model.
Import ListNotations.
Open Scope string_scope.

(* ------------------------------------------------------------------ boolean equalities *)

Definition ostr_eqb := opt_eqb String.eqb.

Definition nameid_eqb (a b : nameid) : bool :=
  ostr_eqb (nq a) (nq b) && ostr_eqb (spq a) (spq b) && ostr_eqb (fmt a) (fmt b)
  && ostr_eqb (spid a) (spid b) && ostr_eqb (txt a) (txt b).

Definition exc_eqb (a b : exc) : bool :=
  match a, b with
  | KeyErr, KeyErr | ValueErr, ValueErr | SAMLErr, SAMLErr | UnknownErr, UnknownErr
  | PolicyErr, PolicyErr | Unmodelled, Unmodelled => true
  | _, _ => false
  end.

Definition out_eqb (a b : out) : bool :=
  match a, b with
  | ONone, ONone => true
  | ONid x, ONid y => nameid_eqb x y
  | ONids x, ONids y => list_eqb nameid_eqb x y
  | OStr x, OStr y => String.eqb x y
  | OExc x, OExc y => exc_eqb x y
  | _, _ => false
  end.

(* stores are compared as finite maps (no order) *)
Definition same_map (a b : db) : Prop := forall k, lookup k a = lookup k b.
Definition db_eqb (a b : db) : bool :=
  forallb (fun kv => ostr_eqb (lookup (fst kv) a) (lookup (fst kv) b)) (a ++ b)%list.

(* ------------------------------------------------------------------ generic quantifiers over a trace *)

Section Quantifiers.
  Context {A : Type}.

  (* every ordered pair of events, with the events in between *)
  Definition all_pairs (P : A -> list A -> A -> Prop) (tr : list A) : Prop :=
    forall pre ei mid ej post, tr = (pre ++ ei :: mid ++ ej :: post)%list -> P ei mid ej.

  (* every event, with the events before it *)
  Definition all_events (Q : list A -> A -> Prop) (tr : list A) : Prop :=
    forall pre e post, tr = (pre ++ e :: post)%list -> Q pre e.

  Fixpoint heads_b (P : A -> list A -> A -> bool) (ei : A) (mid rest : list A) : bool :=
    match rest with
    | [] => true
    | ej :: r => P ei mid ej && heads_b P ei (mid ++ [ej])%list r
    end.

  Fixpoint all_pairs_b (P : A -> list A -> A -> bool) (tr : list A) : bool :=
    match tr with
    | [] => true
    | e :: r => heads_b P e [] r && all_pairs_b P r
    end.

  Fixpoint events_b (Q : list A -> A -> bool) (pre rest : list A) : bool :=
    match rest with
    | [] => true
    | e :: r => Q pre e && events_b Q (pre ++ [e])%list r
    end.

  Definition all_events_b (Q : list A -> A -> bool) (tr : list A) : bool := events_b Q [] tr.
End Quantifiers.

(* ------------------------------------------------------------------ vocabulary *)

(* two qualifier arguments denote the same requester / qualifier: absent and empty are the same *)
Definition same_q (a b : option string) : Prop := (truthy a = false /\ truthy b = false) \/ a = b.
Definition same_qb (a b : option string) : bool := (negb (truthy a) && negb (truthy b)) || ostr_eqb a b.

(* what survives encoding: a field that is None or empty is not stored *)
Definition normo (o : option string) : option string := if truthy o then o else None.
Definition norm (n : nameid) : nameid :=
  mkN (normo (nq n)) (normo (spq n)) (normo (fmt n)) (normo (spid n)) (normo (txt n)).

(* the identifiers stored for a user: non-empty elements of the forward entry *)
Definition fw (d : db) (u : string) : list string :=
  match lookup u d with Some v => filter nonempty (elements v) | None => [] end.

(* the text of a stored identifier *)
Definition ctext (c : string) : option string :=
  match decode c with Some n => txt n | None => None end.

Definition out_texts (x : out) : list (option string) :=
  match x with
  | ONid n => [txt n]
  | ONids l => map txt l
  | _ => []
  end.

Section Ident.
  Variable cfg : config.
  Variable is_user : string -> bool.      (* the local user names (disjoint from identifier values) *)

  (* which identifier an operation asks for: (user, format, requester, qualifier) *)
  Definition request_of (o : op) : option (string * string * option string * option string) :=
    match o with
    | GetNameid u f s q _ => Some (u, f, s, q)
    | Persistent u s q _ => Some (u, NF_PERSISTENT, s, q)
    | Transient u s q _ => Some (u, NF_TRANSIENT, s, q)
    | Construct u lp s pol q _ =>
        match resolve cfg lp s pol q with
        | Ok (f, s', q') => Some (u, f, s', q')
        | Err _ => None
        end
    | _ => None
    end.

  Definition arg_user (o : op) : option string :=
    match o with
    | Store u _ | RemoveLocal u | GetNameid u _ _ _ _ | FindNameid u _ | MatchLocal u _ _
    | Persistent u _ _ _ | Transient u _ _ _ | Construct u _ _ _ _ _ => Some u
    | _ => None
    end.

  Definition arg_nid (o : op) : option nameid :=
    match o with
    | Store _ n | RemoveRemote n | Mapping n _ _ | Manage n _ _ _ | FindLocal n => Some n
    | _ => None
    end.

  (* the identifier value the operation brings along (oracle value of the random generator, or the
     text of the NameID handed to store) *)
  Definition cand (o : op) : list string :=
    match o with
    | Store _ n => match txt n with Some t => [t] | None => [] end
    | GetNameid _ f _ _ fr => [final_text cfg f fr]
    | Persistent _ _ _ fr | Transient _ _ _ fr => [fr]
    | Construct _ lp s pol q fr =>
        match resolve cfg lp s pol q with Ok (f, _, _) => [final_text cfg f fr] | Err _ => [] end
    | Mapping _ p fr =>
        match resolve cfg None None (Some p) None with Ok (f, _, _) => [final_text cfg f fr] | Err _ => [] end
    | _ => []
    end.

  (* every identifier value an operation mentions: what it brings along and what is presented to it *)
  Definition mentions (o : op) : list string :=
    (cand o ++ match arg_nid o with
               | Some n => match txt n with Some t => [t] | None => [] end
               | None => []
               end)%list.

  (* ---- well-formed histories: the hypotheses of the property's quantifier.
     user arguments are user names; NameID texts and generated identifier values are not user names;
     a NameID handed to the low-level store() has a text and, when it is of persistent format, is not a
     second persistent identifier for its (user, requester, qualifier); an operation either changes nothing or its identifier
     value is a proper value that no earlier operation mentioned (what create_id's
     "while _id in self.db" loop is there for). *)
  Definition wf_event (seen : list string) (e : event) : Prop :=
    (forall u, arg_user (e_op e) = Some u -> is_user u = true)
    /\ (forall n t, arg_nid (e_op e) = Some n -> txt n = Some t -> is_user t = false)
    /\ (forall u n, e_op e = Store u n ->
        truthy (txt n) = true
        /\ (eq_arg (fmt n) (Some NF_PERSISTENT) = true -> match_local_id (e_pre e) u (spq n) (nq n) = Ok None))
    /\ (forall t, In t (cand (e_op e)) -> is_user t = false)
    /\ (same_map (e_post e) (e_pre e)
        \/ forall t, In t (cand (e_op e)) -> t <> "" /\ ~ In t seen).

  Fixpoint wf_from (seen : list string) (tr : trace) : Prop :=
    match tr with
    | [] => True
    | e :: r => wf_event seen e /\ wf_from (seen ++ mentions (e_op e))%list r
    end.

  Definition wf (tr : trace) : Prop := wf_from [] tr.

  Definition is_store (o : op) : bool := match o with Store _ _ => true | _ => false end.

  Definition wf_event_b (seen : list string) (e : event) : bool :=
    match arg_user (e_op e) with Some u => is_user u | None => true end
    && match arg_nid (e_op e) with
       | Some n => match txt n with Some t => negb (is_user t) | None => true end
       | None => true
       end
    && match e_op e with
       | Store u n =>
           truthy (txt n)
           && (negb (eq_arg (fmt n) (Some NF_PERSISTENT))
               || match match_local_id (e_pre e) u (spq n) (nq n) with Ok None => true | _ => false end)
       | _ => true
       end
    && forallb (fun t => negb (is_user t)) (cand (e_op e))
    && (forallb (fun t => nonempty t && negb (mem t seen)) (cand (e_op e))
        || db_eqb (e_post e) (e_pre e)).

  Fixpoint wf_from_b (seen : list string) (tr : trace) : bool :=
    match tr with
    | [] => true
    | e :: r => wf_event_b seen e && wf_from_b (seen ++ mentions (e_op e))%list r
    end.

  Definition wf_b (tr : trace) : bool := wf_from_b [] tr.

  (* ---- the identifier with text t was removed by one of these events *)
  Definition removes (t : option string) (e : event) : Prop :=
    exists n, e_op e = RemoveRemote n /\ txt n = t /\ e_out e = ONone.
  Definition removes_b (t : option string) (e : event) : bool :=
    match e_op e, e_out e with
    | RemoveRemote n, ONone => ostr_eqb (txt n) t
    | _, _ => false
    end.
  Definition removed_in (mid : trace) (t : option string) : Prop := exists e, In e mid /\ removes t e.
  Definition removed_in_b (mid : trace) (t : option string) : bool := existsb (removes_b t) mid.

  (* ---- 1. a persistent identifier for (user, requester, qualifier) is always the same value,
          as long as it has not been removed in between *)
  Definition stable_pair (ei : event) (mid : trace) (ej : event) : Prop :=
    forall u s q s' q' ni nj,
      request_of (e_op ei) = Some (u, NF_PERSISTENT, s, q) ->
      request_of (e_op ej) = Some (u, NF_PERSISTENT, s', q') ->
      same_q s s' -> same_q q q' ->
      e_out ei = ONid ni -> e_out ej = ONid nj ->
      ~ removed_in mid (txt ni) ->
      txt ni = txt nj.

  (* ---- 2. it differs between requesters and between users *)
  Definition distinct_pair (ei : event) (mid : trace) (ej : event) : Prop :=
    forall u s q u' s' q' ni nj,
      request_of (e_op ei) = Some (u, NF_PERSISTENT, s, q) ->
      request_of (e_op ej) = Some (u', NF_PERSISTENT, s', q') ->
      u <> u' \/ ~ same_q s s' ->
      e_out ei = ONid ni -> e_out ej = ONid nj ->
      txt ni <> txt nj.

  (* ---- 3. it maps back to exactly the user it was issued for (and does so until removed) *)
  Definition reverse_pair (ei : event) (mid : trace) (ej : event) : Prop :=
    forall u f s q ni m,
      request_of (e_op ei) = Some (u, f, s, q) ->
      e_out ei = ONid ni ->
      e_op ej = FindLocal m -> txt m = txt ni ->
      (forall u', e_out ej = OStr u' -> u' = u)
      /\ (~ removed_in mid (txt ni) -> e_out ej = OStr u).

  (* an issued identifier has a value *)
  Definition valued_event (pre : trace) (e : event) : Prop :=
    forall u f s q n, request_of (e_op e) = Some (u, f, s, q) -> e_out e = ONid n -> truthy (txt n) = true.

  (* ---- 4. transient identifiers are fresh on every issuance: not a key of the store before,
          and never handed out by an earlier operation *)
  Definition transient_event (pre : trace) (e : event) : Prop :=
    forall u s q n, request_of (e_op e) = Some (u, NF_TRANSIENT, s, q) -> e_out e = ONid n ->
      exists t, txt n = Some t /\ lookup t (e_pre e) = None
                /\ forall e0, In e0 pre -> ~ In (Some t) (out_texts (e_out e0)).

  (* ---- 5. NewID / Terminate affect only that identifier *)
  Definition others (t : option string) (l : list string) : list string :=
    filter (fun c => negb (ostr_eqb (ctext c) t)) l.

  Definition manage_event (pre : trace) (e : event) : Prop :=
    forall n newid enc term, e_op e = Manage n newid enc term ->
      match e_out e with
      | ONid n' =>
          let owner := lookup_opt (txt n) (e_pre e) in
          nq n' = nq n /\ spq n' = spq n /\ fmt n' = fmt n /\ txt n' = txt n
          /\ (forall k, Some k <> txt n -> Some k <> owner -> lookup k (e_post e) = lookup k (e_pre e))
          /\ lookup_opt (txt n) (e_post e) = owner
          /\ (forall u, owner = Some u -> others (txt n) (fw (e_post e) u) = others (txt n) (fw (e_pre e) u))
      | OExc _ => same_map (e_post e) (e_pre e)
      | _ => False
      end.

  (* ---- 6. the store is consistent after every step: every stored identifier of a user has its
          reverse entry to that user, every reverse entry has its stored identifier *)
  Definition forward_ok (d : db) : Prop :=
    forall u c, is_user u = true -> In c (fw d u) ->
      exists t, ctext c = Some t /\ lookup t d = Some u.
  Definition reverse_ok (d : db) : Prop :=
    forall t u, is_user t = false -> lookup t d = Some u ->
      is_user u = true /\ exists c, In c (fw d u) /\ ctext c = Some t.
  Definition consistent_event (pre : trace) (e : event) : Prop :=
    forward_ok (e_post e) /\ reverse_ok (e_post e).

  (* ---- 7. (strengthening round 2) what is handed out IS what the store holds: the NameID an issuing
          operation answers is of the format and for the requester / qualifier that were asked for, and
          in the state the operation leaves behind it maps back to that user and is one of the identifiers
          stored for that user (as a whole NameID: qualifiers, format, SPProvidedID, value) *)
  Definition issued_event (pre : trace) (e : event) : Prop :=
    forall u f s q n, request_of (e_op e) = Some (u, f, s, q) -> e_out e = ONid n ->
      fmt n = Some f /\ same_q (spq n) s /\ same_q (nq n) q
      /\ exists t, txt n = Some t /\ lookup t (e_post e) = Some u /\ In (code n) (fw (e_post e) u).

  (* ---- 8. (strengthening round 2) the reverse lookup answers what the store holds at that moment, and
          nothing else: find_local_id is a function of the current store *)
  Definition findlocal_event (pre : trace) (e : event) : Prop :=
    forall m, e_op e = FindLocal m ->
      e_out e = match lookup_opt (txt m) (e_pre e) with Some u => OStr u | None => ONone end.

  (* ---- 9. (strengthening round 4) find answers exactly the identifiers stored for that user at that
          moment which match the filter -- EVERY field of it --, in the order of the store, each as the store
          holds it (whole NameID), and nothing else: find_nameid is a function of the current store and of
          the whole filter *)
  Fixpoint decoded (cs : list string) : option (list nameid) :=
    match cs with
    | [] => Some []
    | c :: r => match decode c, decoded r with Some n, Some l => Some (n :: l) | _, _ => None end
    end.

  Definition matches (flt : list (field * option string)) (n : nameid) : Prop :=
    forall i v, In (i, v) flt -> get_field i n = v.
  Definition matches_b (flt : list (field * option string)) (n : nameid) : bool :=
    forallb (fun kv => ostr_eqb (get_field (fst kv) n) (snd kv)) flt.

  Definition find_event (pre : trace) (e : event) : Prop :=
    forall u flt, e_op e = FindNameid u flt ->
      exists all, decoded (fw (e_pre e) u) = Some all /\ e_out e = ONids (filter (matches_b flt) all).

  (* ---- 10. (strengthening round 4) a lookup that answers an identifier answers one the store holds for
          that user (whole NameID: its code is an element of the user's entry), of the kind asked for *)
  Definition lookup_event (pre : trace) (e : event) : Prop :=
    forall u s q n, e_op e = MatchLocal u s q -> e_out e = ONid n ->
      In (code n) (fw (e_pre e) u) /\ fmt n = Some NF_PERSISTENT /\ same_q (spq n) s /\ same_q (nq n) q.

  (* ---- 11. (strengthening round 4) NewID / Terminate DO take effect on that identifier: a request that presents
          an identifier the store holds (its code is one of the elements stored for the user its value maps to) and
          asks for a change -- a NewID, a NewEncryptedID (keeps the SPProvidedID), a Terminate -- is answered with
          that identifier carrying the SPProvidedID asked for, and afterwards the identifiers stored for that user
          under that value are exactly that one *)
  Definition wanted (n : nameid) (newid : option (option string)) (enc term : bool) : option (option string) :=
    match newid with
    | Some x => Some x
    | None => if enc then Some (spid n) else if term then Some None else None
    end.

  Definition with_text (t : option string) (l : list string) : list string :=
    filter (fun c => ostr_eqb (ctext c) t) l.

  Definition effect_event (pre : trace) (e : event) : Prop :=
    forall n newid enc term u x, e_op e = Manage n newid enc term ->
      lookup_opt (txt n) (e_pre e) = Some u -> In (code n) (fw (e_pre e) u) -> wanted n newid enc term = Some x ->
      exists n', e_out e = ONid n' /\ spid n' = x /\ with_text (txt n) (fw (e_post e) u) = [code n'].

  Definition ident_spec (tr : trace) : Prop :=
    wf tr ->
    all_pairs stable_pair tr /\ all_pairs distinct_pair tr /\ all_pairs reverse_pair tr
    /\ all_events valued_event tr /\ all_events transient_event tr /\ all_events manage_event tr
    /\ all_events consistent_event tr /\ all_events issued_event tr /\ all_events findlocal_event tr
    /\ all_events find_event tr /\ all_events lookup_event tr /\ all_events effect_event tr.

  (* ---------------- boolean twins *)
  Definition req_eqb_user (a b : string) := String.eqb a b.

  Definition stable_pair_b (ei : event) (mid : trace) (ej : event) : bool :=
    match request_of (e_op ei), request_of (e_op ej), e_out ei, e_out ej with
    | Some (u, f, s, q), Some (u', f', s', q'), ONid ni, ONid nj =>
        negb (String.eqb f NF_PERSISTENT && String.eqb f' NF_PERSISTENT && String.eqb u u'
              && same_qb s s' && same_qb q q' && negb (removed_in_b mid (txt ni)))
        || ostr_eqb (txt ni) (txt nj)
    | _, _, _, _ => true
    end.

  Definition distinct_pair_b (ei : event) (mid : trace) (ej : event) : bool :=
    match request_of (e_op ei), request_of (e_op ej), e_out ei, e_out ej with
    | Some (u, f, s, q), Some (u', f', s', q'), ONid ni, ONid nj =>
        negb (String.eqb f NF_PERSISTENT && String.eqb f' NF_PERSISTENT
              && (negb (String.eqb u u') || negb (same_qb s s')))
        || negb (ostr_eqb (txt ni) (txt nj))
    | _, _, _, _ => true
    end.

  Definition reverse_pair_b (ei : event) (mid : trace) (ej : event) : bool :=
    match request_of (e_op ei), e_out ei, e_op ej with
    | Some (u, f, s, q), ONid ni, FindLocal m =>
        negb (ostr_eqb (txt m) (txt ni))
        || (match e_out ej with OStr u' => String.eqb u' u | _ => true end
            && (removed_in_b mid (txt ni) || out_eqb (e_out ej) (OStr u)))
    | _, _, _ => true
    end.

  Definition valued_event_b (pre : trace) (e : event) : bool :=
    match request_of (e_op e), e_out e with
    | Some _, ONid n => truthy (txt n)
    | _, _ => true
    end.

  Definition transient_event_b (pre : trace) (e : event) : bool :=
    match request_of (e_op e), e_out e with
    | Some (u, f, s, q), ONid n =>
        negb (String.eqb f NF_TRANSIENT)
        || match txt n with
           | Some t =>
               ostr_eqb (lookup t (e_pre e)) None
               && forallb (fun e0 => negb (existsb (ostr_eqb (Some t)) (out_texts (e_out e0)))) pre
           | None => false
           end
    | _, _ => true
    end.

  Definition key_ne (k : string) (o : option string) : bool := negb (ostr_eqb (Some k) o).

  Definition manage_event_b (pre : trace) (e : event) : bool :=
    match e_op e with
    | Manage n newid enc term =>
        match e_out e with
        | ONid n' =>
            let owner := lookup_opt (txt n) (e_pre e) in
            ostr_eqb (nq n') (nq n) && ostr_eqb (spq n') (spq n) && ostr_eqb (fmt n') (fmt n)
            && ostr_eqb (txt n') (txt n)
            && forallb (fun kv => let k := fst kv in
                          negb (key_ne k (txt n) && key_ne k owner)
                          || ostr_eqb (lookup k (e_post e)) (lookup k (e_pre e)))
                       (e_post e ++ e_pre e)%list
            && ostr_eqb (lookup_opt (txt n) (e_post e)) owner
            && match owner with
               | Some u => list_eqb String.eqb (others (txt n) (fw (e_post e) u)) (others (txt n) (fw (e_pre e) u))
               | None => true
               end
        | OExc _ => db_eqb (e_post e) (e_pre e)
        | _ => false
        end
    | _ => true
    end.

  (* every forward entry is decoded once per state: (user, texts of the stored identifiers) *)
  Definition texts_of (d : db) (u : string) : list (option string) := map ctext (fw d u).
  Definition fwd_table (d : db) : list (string * list (option string)) :=
    flat_map (fun kv => if is_user (fst kv) then [(fst kv, texts_of d (fst kv))] else []) d.
  Fixpoint assoc {B} (k : string) (l : list (string * B)) : option B :=
    match l with
    | [] => None
    | (k', v) :: r => if String.eqb k k' then Some v else assoc k r
    end.

  Definition forward_ok_b (d : db) : bool :=
    forallb (fun ut => forallb (fun t => match t with
                                         | Some t' => ostr_eqb (lookup t' d) (Some (fst ut))
                                         | None => false
                                         end) (snd ut)) (fwd_table d).

  Definition reverse_ok_b (d : db) : bool :=
    let tab := fwd_table d in
    forallb (fun kv => let t := fst kv in
               is_user t
               || match lookup t d with
                  | Some u => is_user u && match assoc u tab with
                                           | Some ts => existsb (ostr_eqb (Some t)) ts
                                           | None => false
                                           end
                  | None => true
                  end) d.

  Definition consistent_event_b (pre : trace) (e : event) : bool :=
    forward_ok_b (e_post e) && reverse_ok_b (e_post e).

  Definition issued_event_b (pre : trace) (e : event) : bool :=
    match request_of (e_op e), e_out e with
    | Some (u, f, s, q), ONid n =>
        ostr_eqb (fmt n) (Some f) && same_qb (spq n) s && same_qb (nq n) q
        && match txt n with
           | Some t => ostr_eqb (lookup t (e_post e)) (Some u) && mem (code n) (fw (e_post e) u)
           | None => false
           end
    | _, _ => true
    end.

  Definition findlocal_event_b (pre : trace) (e : event) : bool :=
    match e_op e with
    | FindLocal m =>
        out_eqb (e_out e) (match lookup_opt (txt m) (e_pre e) with Some u => OStr u | None => ONone end)
    | _ => true
    end.

  Definition find_event_b (pre : trace) (e : event) : bool :=
    match e_op e with
    | FindNameid u flt =>
        match decoded (fw (e_pre e) u) with
        | Some all => out_eqb (e_out e) (ONids (filter (matches_b flt) all))
        | None => false
        end
    | _ => true
    end.

  Definition lookup_event_b (pre : trace) (e : event) : bool :=
    match e_op e, e_out e with
    | MatchLocal u s q, ONid n =>
        mem (code n) (fw (e_pre e) u) && ostr_eqb (fmt n) (Some NF_PERSISTENT)
        && same_qb (spq n) s && same_qb (nq n) q
    | _, _ => true
    end.

  Definition effect_event_b (pre : trace) (e : event) : bool :=
    match e_op e with
    | Manage n newid enc term =>
        match lookup_opt (txt n) (e_pre e), wanted n newid enc term with
        | Some u, Some x =>
            negb (mem (code n) (fw (e_pre e) u))
            || match e_out e with
               | ONid n' => ostr_eqb (spid n') x
                            && list_eqb String.eqb (with_text (txt n) (fw (e_post e) u)) [code n']
               | _ => false
               end
        | _, _ => true
        end
    | _ => true
    end.

  Definition ident_spec_parts_b (tr : trace) : list bool :=
    [all_pairs_b stable_pair_b tr; all_pairs_b distinct_pair_b tr; all_pairs_b reverse_pair_b tr;
     all_events_b valued_event_b tr; all_events_b transient_event_b tr; all_events_b manage_event_b tr;
     all_events_b consistent_event_b tr; all_events_b issued_event_b tr; all_events_b findlocal_event_b tr;
     all_events_b find_event_b tr; all_events_b lookup_event_b tr; all_events_b effect_event_b tr].

  Definition ident_spec_b (tr : trace) : bool :=
    negb (wf_b tr) || forallb (fun b => b) (ident_spec_parts_b tr).

  (* ------------------------------------------------------------------ finding classes 2 and 3 of the pinned
     snapshot (both repaired): the guards under which the OLD code satisfied the property.  Not hypotheses
     of the theorems about the current code; Corr.cls uses them to recognise a regression. *)

  (* class 3 excluded: persistent identifiers are asked for with a requester or a qualifier *)
  Definition qualified_event (e : event) : Prop :=
    forall u s q, request_of (e_op e) = Some (u, NF_PERSISTENT, s, q) -> truthy s || truthy q = true.
  Definition qualified (tr : trace) : Prop := Forall qualified_event tr.
  Definition qualified_event_b (e : event) : bool :=
    match request_of (e_op e) with
    | Some (u, f, s, q) => negb (String.eqb f NF_PERSISTENT) || truthy s || truthy q
    | None => true
    end.
  Definition qualified_b (tr : trace) : bool := forallb qualified_event_b tr.

  (* class 2 excluded: no operation adds a second non-transient identifier for a (user, requester,
     qualifier) that already has one.  (Issuing in persistent format checks this itself.) *)
  Definition adds (e : event) : option (string * option string * option string) :=
    match e_op e with
    | Store u n => if eq_arg (fmt n) (Some NF_TRANSIENT) then None else Some (u, spq n, nq n)
    | Mapping n p fr =>
        match find_local_id (e_pre e) n, resolve cfg None None (Some p) None with
        | Some u, Ok (f, s, q) =>
            if String.eqb f NF_TRANSIENT || String.eqb f NF_PERSISTENT then None else Some (u, s, q)
        | _, _ => None
        end
    | o =>
        match request_of o with
        | Some (u, f, s, q) =>
            if String.eqb f NF_TRANSIENT || String.eqb f NF_PERSISTENT then None else Some (u, s, q)
        | None => None
        end
    end.
  Definition single_valued_event (e : event) : Prop :=
    forall u s q, adds e = Some (u, s, q) -> match_local_id_v0 (e_pre e) u s q = Ok None.
  Definition single_valued (tr : trace) : Prop := Forall single_valued_event tr.
  Definition single_valued_event_b (e : event) : bool :=
    match adds e with
    | Some (u, s, q) => match match_local_id_v0 (e_pre e) u s q with Ok None => true | _ => false end
    | None => true
    end.
  Definition single_valued_b (tr : trace) : bool := forallb single_valued_event_b tr.
End Ident.

(* ------------------------------------------------------------------ encoding *)

(* items: identifier, its code, the decoding of the code.  Lossless (up to empty = absent) and
   collision-free. *)
Definition codec_spec (items : list (nameid * string * option nameid)) : Prop :=
  (forall n c dn, In (n, c, dn) items -> dn = Some (norm n))
  /\ (forall n c dn n' c' dn', In (n, c, dn) items -> In (n', c', dn') items -> c = c' -> norm n = norm n').

Definition codec_spec_b (items : list (nameid * string * option nameid)) : bool :=
  forallb (fun it => let '(n, c, dn) := it in opt_eqb nameid_eqb dn (Some (norm n))) items
  && forallb (fun it => let '(n, c, dn) := it in
       forallb (fun it' => let '(n', c', dn') := it' in
                  negb (String.eqb c c') || nameid_eqb (norm n) (norm n')) items) items.

(* ------------------------------------------------------------------ targeted id *)

Definition euser (x : ecall) : string := hd "" (c_args x).

(* obs: call, value answered in the history, value answered for the same call without history *)
Definition eptid_spec (obs : list (ecall * string * string)) : Prop :=
  (forall x v f, In (x, v, f) obs -> v = f)
  /\ (forall x v f x' v' f', In (x, v, f) obs -> In (x', v', f') obs ->
        c_idp x = c_idp x' -> (c_sp x <> c_sp x' \/ euser x <> euser x') -> v <> v').

Definition eptid_spec_b (obs : list (ecall * string * string)) : bool :=
  forallb (fun o => let '(x, v, f) := o in String.eqb v f) obs
  && forallb (fun o => let '(x, v, f) := o in
       forallb (fun o' => let '(x', v', f') := o' in
          negb (String.eqb (c_idp x) (c_idp x')
                && (negb (String.eqb (c_sp x) (c_sp x')) || negb (String.eqb (euser x) (euser x'))))
          || negb (String.eqb v v')) obs) obs.

(* class 1 (repaired by 331c8f06): two calls of the history share the OLD cache key sp ++ "__" ++ user
   without having the same arguments *)
Definition ecall_eqb (a b : ecall) : bool :=
  String.eqb (c_idp a) (c_idp b) && String.eqb (c_sp a) (c_sp b) && list_eqb String.eqb (c_args a) (c_args b).

Definition key_collision_b (h : list ecall) : bool :=
  existsb (fun a => existsb (fun b => String.eqb (eptid_key_v0 a) (eptid_key_v0 b) && negb (ecall_eqb a b)) h) h.

Definition no_key_collision (h : list ecall) : Prop :=
  forall a b, In a h -> In b h -> eptid_key_v0 a = eptid_key_v0 b -> a = b.

(* class 4 (open): Eptid.make hashes the concatenation of its arguments without separator, so calls
   that differ in how the same characters are split over user id and extra arguments coincide.  Guard:
   the calls compared carry the same extra arguments after the user id. *)
Definition same_extras (h : list ecall) : Prop :=
  forall x x', In x h -> In x' h -> tl (c_args x) = tl (c_args x').

Definition same_extras_b (h : list ecall) : bool :=
  forallb (fun x => forallb (fun x' => list_eqb String.eqb (tl (c_args x)) (tl (c_args x'))) h) h.
