(* C18/Model.v — name identifier store and targeted ids, as coded.
   Mirrors /repo/src/saml2/ident.py : code, decode and the IdentDB methods, and /repo/src/saml2/eptid.py
   (Eptid.get / make).  Python str = Coq string of its UTF-8 bytes.  The IdentDB keeps forward
   entries (user -> space-joined codes) and reverse entries (NameID text -> user) in ONE dict;
   the model keeps one association list and implements dict get / set / del on it.
   Randomness (create_id: sha256 over 32 random bytes) enters as the [fresh] field of the
   issuing operations: the value the real code generated. *)
From Coq Require Import String Ascii List Bool ZArith NArith DecimalString.
From Verif Require Import Base.Str Base.Percent.
Import ListNotations.
Open Scope string_scope.

Definition NF_PERSISTENT := "urn:oasis:names:tc:SAML:2.0:nameid-format:persistent".
Definition NF_TRANSIENT := "urn:oasis:names:tc:SAML:2.0:nameid-format:transient".
Definition NF_EMAIL := "urn:oasis:names:tc:SAML:1.1:nameid-format:emailAddress".

(* ------------------------------------------------------------------ quote / unquote
   urllib.parse.quote(s) (safe='/') and unquote(s).  Base/Percent.v defines them with unary
   arithmetic on character codes, which is slow under vm_compute; these are the same functions
   computed on the bits / binary code of a character (Proofs.v: quote_f s = Percent.quote s and
   unquote_f s = Percent.unquote s for all s). *)
Definition ncode (c : ascii) : N := N_of_ascii c.

Definition between (a n b : N) : bool := (a <=? n)%N && (n <=? b)%N.

Definition safe_f (c : ascii) : bool :=
  let n := ncode c in
  between 65 n 90 || between 97 n 122 || between 48 n 57
  || (n =? 95)%N || (n =? 46)%N || (n =? 45)%N || (n =? 126)%N || (n =? 47)%N.

Definition hexnib (b0 b1 b2 b3 : bool) : ascii :=
  let n := ncode (Ascii b0 b1 b2 b3 false false false false) in
  ascii_of_N (if (n <? 10)%N then 48 + n else 55 + n).

Definition quote_char_f (c : ascii) : string :=
  if safe_f c then String c EmptyString
  else match c with
       | Ascii b0 b1 b2 b3 b4 b5 b6 b7 =>
           String "%"%char (String (hexnib b4 b5 b6 b7) (String (hexnib b0 b1 b2 b3) EmptyString))
       end.

Fixpoint quote_f (s : string) : string :=
  match s with
  | EmptyString => EmptyString
  | String c r => quote_char_f c ++ quote_f r
  end.

Definition hexval_f (c : ascii) : option N :=
  let n := ncode c in
  if between 48 n 57 then Some (n - 48)%N
  else if between 65 n 70 then Some (n - 55)%N
  else if between 97 n 102 then Some (n - 87)%N
  else None.

Fixpoint unquote_f (s : string) : string :=
  match s with
  | EmptyString => EmptyString
  | String c r =>
      if Ascii.eqb c "%"%char then
        match r with
        | String a (String b r2) =>
            match hexval_f a, hexval_f b with
            | Some x, Some y => String (ascii_of_N (16 * x + y)) (unquote_f r2)
            | _, _ => String c (unquote_f r)
            end
        | _ => String c (unquote_f r)
        end
      else String c (unquote_f r)
  end.

(* ------------------------------------------------------------------ NameID, code, decode *)

(* ATTR = [name_qualifier, sp_name_qualifier, format, sp_provided_id, text]; None = attribute is None *)
Record nameid := mkN { nq : option string; spq : option string; fmt : option string;
                       spid : option string; txt : option string }.

Definition empty_nid : nameid := mkN None None None None None.

(* Python truthiness of a str-or-None value *)
Definition truthy (o : option string) : bool :=
  match o with Some (String _ _) => true | _ => false end.

(* code(): "if val: _res.append(f'{i}={quote(val)}')"; quote = urllib.parse.quote, safe='/' *)
Definition field_code (i : string) (v : option string) : list string :=
  if truthy v then match v with Some s => [i ++ "=" ++ quote_f s] | None => [] end else [].

Definition code_parts (n : nameid) : list string :=
  field_code "0" (nq n) ++ field_code "1" (spq n) ++ field_code "2" (fmt n)
  ++ field_code "3" (spid n) ++ field_code "4" (txt n).

Definition code (n : nameid) : string := join "," (code_parts n).

(* int(str) for ASCII input: optional surrounding whitespace, optional sign, decimal digits with
   single underscores between digits.  The value saturates at 100 (only -5..4 matter). *)
Definition digit_val (c : ascii) : option Z :=
  let n := ncode c in
  if between 48 n 57 then Some (Z.of_N (n - 48)) else None.

Definition is_underscore (c : ascii) : bool := Ascii.eqb c "_"%char.

(* after a digit: more digits, or "_" followed by a digit *)
Fixpoint int_digits (acc : Z) (s : string) : option Z :=
  match s with
  | EmptyString => Some acc
  | String c r =>
      match digit_val c with
      | Some d => int_digits (Z.min 100 (acc * 10 + d)) r
      | None =>
          if is_underscore c then
            match r with
            | String c2 r2 =>
                match digit_val c2 with
                | Some d => int_digits (Z.min 100 (acc * 10 + d)) r2
                | None => None
                end
            | EmptyString => None
            end
          else None
      end
  end.

Definition int_unsigned (s : string) : option Z :=
  match s with
  | String c r => match digit_val c with Some d => int_digits d r | None => None end
  | EmptyString => None
  end.

(* C isspace(): what int() skips around an ASCII literal (not the wider str.strip() set) *)
Definition is_cspace (c : ascii) : bool :=
  let n := ncode c in between 9 n 13 || (n =? 32)%N.

Fixpoint lstrip_c (s : string) : string :=
  match s with
  | EmptyString => EmptyString
  | String c r => if is_cspace c then lstrip_c r else s
  end.

Fixpoint rstrip_c (s : string) : string :=
  match s with
  | EmptyString => EmptyString
  | String c r =>
      let r' := rstrip_c r in
      if is_cspace c && is_empty r' then EmptyString else String c r'
  end.

Definition py_int (s : string) : option Z :=
  match rstrip_c (lstrip_c s) with
  | String c r =>
      if Ascii.eqb c "-"%char then option_map Z.opp (int_unsigned r)
      else if Ascii.eqb c "+"%char then int_unsigned r
      else int_unsigned (String c r)
  | EmptyString => None
  end.

(* setattr(_nid, ATTR[int(i)], v): negative indexes count from the end, IndexError is swallowed *)
Definition set_field (i : Z) (v : string) (n : nameid) : nameid :=
  let k := if (i <? 0)%Z then (i + 5)%Z else i in
  match k with
  | 0%Z => mkN (Some v) (spq n) (fmt n) (spid n) (txt n)
  | 1%Z => mkN (nq n) (Some v) (fmt n) (spid n) (txt n)
  | 2%Z => mkN (nq n) (spq n) (Some v) (spid n) (txt n)
  | 3%Z => mkN (nq n) (spq n) (fmt n) (Some v) (txt n)
  | 4%Z => mkN (nq n) (spq n) (fmt n) (spid n) (Some v)
  | _ => n
  end.

Definition eq_char : ascii := "="%char.
Definition comma_char : ascii := ","%char.

(* decode(): None = ValueError of "i, val = part.split('=')" for a part with two or more '=' *)
Fixpoint decode_parts (ps : list string) (n : nameid) : option nameid :=
  match ps with
  | [] => Some n
  | p :: r =>
      match split_on eq_char p with
      | [_] => decode_parts r n
      | [i; v] =>
          decode_parts r (match py_int i with Some z => set_field z (unquote_f v) n | None => n end)
      | _ => None
      end
  end.

Definition decode (s : string) : option nameid := decode_parts (split_on comma_char s) empty_nid.

(* ------------------------------------------------------------------ the dict *)

Definition db := list (string * string).

Fixpoint lookup (k : string) (d : db) : option string :=
  match d with
  | [] => None
  | (k', v) :: r => if String.eqb k k' then Some v else lookup k r
  end.

(* d[k] = v : overwrite keeps the position, a new key goes last *)
Fixpoint set (k v : string) (d : db) : db :=
  match d with
  | [] => [(k, v)]
  | (k', v') :: r => if String.eqb k k' then (k', v) :: r else (k', v') :: set k v r
  end.

Fixpoint del (k : string) (d : db) : db :=
  match d with
  | [] => []
  | (k', v') :: r => if String.eqb k k' then del k r else (k', v') :: del k r
  end.

Definition lookup_opt (k : option string) (d : db) : option string :=
  match k with Some s => lookup s d | None => None end.

(* ------------------------------------------------------------------ results *)

Inductive exc := KeyErr | ValueErr | SAMLErr | UnknownErr | PolicyErr | Unmodelled.

Inductive res (A : Type) := Ok (a : A) | Err (e : exc).
Arguments Ok {A} a.
Arguments Err {A} e.

Inductive out :=
| ONone
| ONid (n : nameid)
| ONids (l : list nameid)
| OStr (s : string)
| OExc (e : exc).

Record config := { domain : string; default_nq : string }.

(* the requester's NameIDPolicy: Format, SPNameQualifier, AllowCreate *)
Record policy := { pfmt : option string; pspq : option string; pallow : option string }.

(* ------------------------------------------------------------------ IdentDB methods *)

Definition space_char : ascii := " "%char.
Definition elements (v : string) : list string := split_on space_char v.

Fixpoint remove_first (x : string) (l : list string) : list string :=
  match l with
  | [] => []
  | y :: r => if String.eqb x y then r else y :: remove_first x r
  end.

Definition is_empty_str (s : string) : bool := match s with EmptyString => true | _ => false end.
Definition nonempty (s : string) : bool := negb (is_empty_str s).

(* store(ident, name_id) with name_id.text = t; "[v for v in self.db[ident].split(' ') if v]" *)
Definition store_db (d : db) (u : string) (n : nameid) (t : string) : db :=
  let val := match lookup u d with Some v => filter nonempty (elements v) | None => [] end in
  set t u (set u (join " " (val ++ [code n])) d).

Definition store (d : db) (u : string) (n : nameid) : db * out :=
  match txt n with
  | Some t => (store_db d u n t, ONone)
  | None => (d, OExc Unmodelled)          (* a None dict key: outside the model *)
  end.

(* remove_remote(name_id) *)
Definition remove_remote (d : db) (n : nameid) : res db :=
  match txt n with
  | None => Err KeyErr
  | Some t =>
      match lookup t d with
      | None => Err KeyErr
      | Some id =>
          match lookup id d with
          | Some v =>
              let vals := elements v in
              if mem (code n) vals
              then
                let rest := remove_first (code n) vals in
                Ok (del t (match rest with
                           | [] => del id d                       (* "if vals: ... else: del self.db[_id]" *)
                           | _ => set id (join " " rest) d
                           end))
              else Err ValueErr
          | None => Ok (del t d)
          end
      end
  end.

(* str == comparison of an attribute that is known to be truthy with an argument *)
Definition eq_arg (a b : option string) : bool := opt_eqb String.eqb a b.

(* the body of the loop in match_local_id for one decoded element *)
Definition nid_matches (n : nameid) (spq_arg nq_arg : option string) : bool :=
  let nq_ok := (truthy (nq n) && eq_arg (nq n) nq_arg) || (negb (truthy (nq n)) && negb (truthy nq_arg)) in
  if truthy (spq n) && eq_arg (spq n) spq_arg then nq_ok
  else if negb (truthy (spq n)) && negb (truthy spq_arg) then nq_ok
  else false.

(* match_local_id: "if nid.format != NAMEID_FORMAT_PERSISTENT: continue" *)
Fixpoint first_match (cs : list string) (spq_arg nq_arg : option string) : res (option nameid) :=
  match cs with
  | [] => Ok None
  | c :: r =>
      match decode c with
      | None => Err ValueErr
      | Some n =>
          if negb (eq_arg (fmt n) (Some NF_PERSISTENT)) then first_match r spq_arg nq_arg
          else if nid_matches n spq_arg nq_arg then Ok (Some n)
          else first_match r spq_arg nq_arg
      end
  end.

Definition match_local_id (d : db) (u : string) (spq_arg nq_arg : option string) : res (option nameid) :=
  match lookup u d with
  | None => Ok None
  | Some v => first_match (elements v) spq_arg nq_arg
  end.

(* before 9057a062: only transient identifiers were skipped (kept for ModelV0 and the class-2 guard) *)
Fixpoint first_match_v0 (cs : list string) (spq_arg nq_arg : option string) : res (option nameid) :=
  match cs with
  | [] => Ok None
  | c :: r =>
      match decode c with
      | None => Err ValueErr
      | Some n =>
          if eq_arg (fmt n) (Some NF_TRANSIENT) then first_match_v0 r spq_arg nq_arg
          else if nid_matches n spq_arg nq_arg then Ok (Some n)
          else first_match_v0 r spq_arg nq_arg
      end
  end.

Definition match_local_id_v0 (d : db) (u : string) (spq_arg nq_arg : option string) : res (option nameid) :=
  match lookup u d with
  | None => Ok None
  | Some v => first_match_v0 (elements v) spq_arg nq_arg
  end.

(* the text get_nameid stores for the generated id *)
Definition final_text (cfg : config) (f fresh : string) : string :=
  if String.eqb f NF_EMAIL then fresh ++ "@" ++ domain cfg else fresh.

(* get_nameid(userid, nformat, sp_name_qualifier, name_qualifier) *)
Definition issue (cfg : config) (d : db) (u f : string) (spq_arg nq_arg : option string) (fresh : string) : db * out :=
  if String.eqb f NF_EMAIL && is_empty_str (domain cfg) then (d, OExc SAMLErr)
  else
    let t := final_text cfg f fresh in
    let n := mkN nq_arg spq_arg (Some f) None (Some t) in
    (store_db d u n t, ONid n).

Definition get_nameid (cfg : config) (d : db) (u f : string) (spq_arg nq_arg : option string) (fresh : string) : db * out :=
  if String.eqb f NF_PERSISTENT then
    match match_local_id d u spq_arg nq_arg with
    | Err e => (d, OExc e)
    | Ok (Some n) => (d, ONid n)
    | Ok None => issue cfg d u f spq_arg nq_arg fresh
    end
  else issue cfg d u f spq_arg nq_arg fresh.

Definition persistent_nameid (cfg : config) (d : db) (u : string) (spq_arg nq_arg : option string) (fresh : string) : db * out :=
  match match_local_id d u spq_arg nq_arg with
  | Err e => (d, OExc e)
  | Ok (Some n) => (d, ONid n)
  | Ok None => get_nameid cfg d u NF_PERSISTENT spq_arg nq_arg fresh
  end.

Definition transient_nameid (cfg : config) (d : db) (u : string) (spq_arg nq_arg : option string) (fresh : string) : db * out :=
  get_nameid cfg d u NF_TRANSIENT spq_arg nq_arg fresh.

(* nim_args + construct_nameid: which (format, sp_name_qualifier, name_qualifier) is asked for.
   lp = Some f: a local policy whose get_nameid_format answers f; None: no local policy. *)
Definition resolve (cfg : config) (lp : option string) (spq_arg : option string) (pol : option policy)
  (nq_arg : option string) : res (string * option string * option string) :=
  let spq' := match pol with
              | Some p => if truthy (pspq p) then pspq p else spq_arg
              | None => spq_arg
              end in
  let nq' := if truthy nq_arg then nq_arg else Some (default_nq cfg) in
  let f := match pol with
           | Some p => if truthy (pfmt p) then pfmt p else lp
           | None => lp
           end in
  match f with
  | Some f => Ok (f, spq', nq')
  | None => Err SAMLErr
  end.

Definition construct_nameid (cfg : config) (d : db) (u : string) (lp : option string) (spq_arg : option string)
  (pol : option policy) (nq_arg : option string) (fresh : string) : db * out :=
  match resolve cfg lp spq_arg pol nq_arg with
  | Err e => (d, OExc e)
  | Ok (f, spq', nq') => get_nameid cfg d u f spq' nq' fresh
  end.

Definition field := nat.   (* index into ATTR *)
Definition get_field (i : field) (n : nameid) : option string :=
  match i with
  | 0 => nq n | 1 => spq n | 2 => fmt n | 3 => spid n | _ => txt n
  end.

Fixpoint decode_all (cs : list string) : res (list nameid) :=
  match cs with
  | [] => Ok []
  | c :: r =>
      match decode c with
      | None => Err ValueErr
      | Some n => match decode_all r with Ok l => Ok (n :: l) | Err e => Err e end
      end
  end.

(* find_nameid(userid, **kwargs): decoding is interleaved with filtering, but an element that
   cannot be decoded raises whatever the filter, so decode-all-then-filter is the same function *)
Definition find_nameid (d : db) (u : string) (flt : list (field * option string)) : out :=
  match lookup u d with
  | None => ONids []
  | Some v =>
      match decode_all (elements v) with
      | Err e => OExc e
      | Ok l => ONids (filter (fun n => forallb (fun kv => eq_arg (get_field (fst kv) n) (snd kv)) flt) l)
      end
  end.

Definition find_local_id (d : db) (n : nameid) : option string := lookup_opt (txt n) d.

Fixpoint mapping_scan (cs : list string) (p : policy) : res (option nameid) :=
  match cs with
  | [] => Ok None
  | c :: r =>
      match decode c with
      | None => Err ValueErr
      | Some n =>
          if eq_arg (fmt n) (pfmt p) && eq_arg (spq n) (pspq p) then Ok (Some n)
          else mapping_scan r p
      end
  end.

(* handle_name_id_mapping_request(name_id, name_id_policy) *)
Definition name_id_mapping (cfg : config) (d : db) (n : nameid) (p : policy) (fresh : string) : db * out :=
  match find_local_id d n with
  | None => (d, OExc UnknownErr)
  | Some EmptyString => (d, OExc UnknownErr)
  | Some id =>
      match lookup id d with
      | None => (d, OExc KeyErr)
      | Some v =>
          match mapping_scan (elements v) p with
          | Err e => (d, OExc e)
          | Ok (Some m) => (d, ONid m)
          | Ok None =>
              if eq_arg (pallow p) (Some "false") then (d, OExc PolicyErr)
              else construct_nameid cfg d id None None (Some p) None fresh
          end
      end
  end.

(* handle_manage_name_id_request(name_id, new_id, new_encrypted_id, terminate):
   newid = Some x: a NewID element whose text is x; enc / term: truthiness of the other two *)
Definition manage_target (n : nameid) (newid : option (option string)) (enc term : bool) : option nameid :=
  match newid with
  | Some x => Some (mkN (nq n) (spq n) (fmt n) x (txt n))
  | None =>
      if enc then Some n
      else if term then Some (mkN (nq n) (spq n) (fmt n) None (txt n))
      else None
  end.

Definition manage_name_id (d : db) (n : nameid) (newid : option (option string)) (enc term : bool) : db * out :=
  match manage_target n newid enc term with
  | None => (d, ONid n)
  | Some n' =>
      match remove_remote d n with
      | Err e => (d, OExc e)
      | Ok d1 =>
          match find_local_id d n, txt n' with
          | Some id, Some t => (store_db d1 id n' t, ONid n')
          | _, _ => (d, OExc Unmodelled)      (* unreachable: remove_remote succeeded *)
          end
      end
  end.

(* ------------------------------------------------------------------ the state machine *)

Inductive op :=
| Store (u : string) (n : nameid)
| RemoveRemote (n : nameid)
| RemoveLocal (u : string)
| GetNameid (u f : string) (spq_arg nq_arg : option string) (fresh : string)
| FindNameid (u : string) (flt : list (field * option string))
| MatchLocal (u : string) (spq_arg nq_arg : option string)
| Persistent (u : string) (spq_arg nq_arg : option string) (fresh : string)
| Transient (u : string) (spq_arg nq_arg : option string) (fresh : string)
| Construct (u : string) (lp : option string) (spq_arg : option string) (pol : option policy)
            (nq_arg : option string) (fresh : string)
| Mapping (n : nameid) (p : policy) (fresh : string)
| Manage (n : nameid) (newid : option (option string)) (enc term : bool)
| FindLocal (n : nameid)
| Close.

Definition step (cfg : config) (d : db) (o : op) : db * out :=
  match o with
  | Store u n => store d u n
  | RemoveRemote n => match remove_remote d n with Ok d' => (d', ONone) | Err e => (d, OExc e) end
  | RemoveLocal _ => (d, ONone)          (* the key is encoded to bytes and never matches a str key *)
  | GetNameid u f s q fr => get_nameid cfg d u f s q fr
  | FindNameid u flt => (d, find_nameid d u flt)
  | MatchLocal u s q =>
      (d, match match_local_id d u s q with Ok (Some n) => ONid n | Ok None => ONone | Err e => OExc e end)
  | Persistent u s q fr => persistent_nameid cfg d u s q fr
  | Transient u s q fr => transient_nameid cfg d u s q fr
  | Construct u lp s pol q fr => construct_nameid cfg d u lp s pol q fr
  | Mapping n p fr => name_id_mapping cfg d n p fr
  | Manage n newid enc term => manage_name_id d n newid enc term
  | FindLocal n => (d, match find_local_id d n with Some u => OStr u | None => ONone end)
  | Close => (d, ONone)
  end.

(* trace of a history: every step with the state before and after *)
Record event := { e_op : op; e_out : out; e_pre : db; e_post : db }.
Definition trace := list event.

Fixpoint mtrace (cfg : config) (d : db) (ops : list op) : trace :=
  match ops with
  | [] => []
  | o :: r =>
      let '(d', x) := step cfg d o in
      {| e_op := o; e_out := x; e_pre := d; e_post := d' |} :: mtrace cfg d' r
  end.

Definition final_state (cfg : config) (d : db) (ops : list op) : db :=
  fold_left (fun s o => fst (step cfg s o)) ops d.

(* ------------------------------------------------------------------ Eptid *)

(* len(str) of a Python str given as its UTF-8 bytes: bytes that are not continuation bytes 10xxxxxx *)
Definition is_cont (c : ascii) : bool :=
  match c with Ascii _ _ _ _ _ _ b6 b7 => b7 && negb b6 end.

Fixpoint ulen (s : string) : nat :=
  match s with
  | EmptyString => 0
  | String c r => if is_cont c then ulen r else S (ulen r)
  end.

(* f"{n}" for a non-negative int *)
Definition dec (n : nat) : string := NilEmpty.string_of_uint (Nat.to_uint n).

Section Eptid.
  Variable md5hex : string -> string.     (* hashlib.md5(...).hexdigest() *)

  Definition concat_all (l : list string) : string := fold_right append "" l.

  (* Eptid.make(idp, sp, args) *)
  Definition eptid_make (secret idp sp : string) (args : list string) : string :=
    join "!" [idp; sp; md5hex (concat_all args ++ sp ++ secret)].

  Record ecall := { c_idp : string; c_sp : string; c_args : list string }.

  (* the cache key of Eptid.get: "__".join(f"{len(part)}:{part}" for part in (idp, sp) + args) *)
  Definition key_part (p : string) : string := dec (ulen p) ++ ":" ++ p.
  Definition eptid_key (x : ecall) : string := join "__" (map key_part (c_idp x :: c_sp x :: c_args x)).

  (* before 331c8f06: "__".join([sp, args[0]]) *)
  Definition eptid_key_v0 (x : ecall) : string := c_sp x ++ "__" ++ hd "" (c_args x).

  Section Get.
    Variable keyf : ecall -> string.

    Definition eptid_get_gen (secret : string) (c : db) (x : ecall) : db * string :=
      let k := keyf x in
      match lookup k c with
      | Some v => (c, v)
      | None => let v := eptid_make secret (c_idp x) (c_sp x) (c_args x) in (set k v c, v)
      end.

    Fixpoint eptid_run_gen (secret : string) (c : db) (h : list ecall) : list string :=
      match h with
      | [] => []
      | x :: r => let '(c', v) := eptid_get_gen secret c x in v :: eptid_run_gen secret c' r
      end.
  End Get.

  Definition eptid_get := eptid_get_gen eptid_key.
  Definition eptid_run := eptid_run_gen eptid_key.
  Definition eptid_run_v0 := eptid_run_gen eptid_key_v0.
End Eptid.
