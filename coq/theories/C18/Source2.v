(* C18/Source2.v — tie of the hand-written model (C18/Model.v) to the source TEXT, translator v2.

   coq/gen/C18Src2.v is regenerated on every run by harness/c18.py:regenerate_tables (harness/py2coq2.py) from the
   CURRENT text of /repo/src/saml2/ident.py (module constants ATTR / NAMEID_FORMAT_* are read from the current text
   of ident.py / saml.py).  Each theorem here says: the translated function, applied to the encoding of a model
   input, yields the encoding of what the model function it mirrors yields — for ALL inputs of the model's domain
   (induction for the loops), exceptions included.

     code                                ~  Model.code
     IdentDB.store                       ~  Model.store_db            (state: the IdentDB object, returns_state)
     IdentDB.find_local_id               ~  Model.find_local_id
     IdentDB.match_local_id              ~  Model.match_local_id / first_match / nid_matches
     IdentDB.handle_name_id_mapping_request ~ Model.name_id_mapping / mapping_scan
     IdentDB.nim_args                    ~  Model.resolve
     IdentDB.handle_manage_name_id_request ~ Model.manage_target + the calls of Model.manage_name_id
     IdentDB.get_nameid                  ~  Model.get_nameid / issue   (answer; the store update is a call)
     IdentDB.transient_nameid / persistent_nameid ~ Model.transient_nameid / persistent_nameid (answer)
     decode                              ~  Model.decode              (ASCII input, plain index fields)

   Calls of other functions: code (in store), find_local_id (in the two handlers), match_local_id (in get_nameid,
   persistent_nameid) and get_nameid (in transient_nameid, persistent_nameid) are linked to their own translations; decode, urllib's quote / unquote, create_id, the local policy
   and the methods whose effect is a store update are arguments of the translated definitions: Section variables,
   with what is assumed about them as Section hypotheses (each Section has an Example instantiating them). *)
From Coq Require Import String Ascii List Bool ZArith Arith Lia.
From Verif Require Import Base.Str Base.Py Base.Py2 C18.Model.
From VerifGen Require Import C18Src2.
Import ListNotations.
Open Scope string_scope.
Set Default Timeout 20.

(* ================================================================================================== *)
(* encodings *)

Definition enc_opt (o : option string) : pyval := match o with Some s => PStr s | None => PNone end.

(* a saml.NameID instance: the five ATTR attributes (every other attribute is outside the anchored code) *)
Definition enc_nid (n : nameid) : pyval :=
  PObj [("__class__", PStr "NameID"); ("name_qualifier", enc_opt (nq n)); ("sp_name_qualifier", enc_opt (spq n));
        ("format", enc_opt (fmt n)); ("sp_provided_id", enc_opt (spid n)); ("text", enc_opt (txt n))].

(* the dict behind IdentDB.db: str keys, str values *)
Definition enc_db (d : db) : list (string * pyval) := map (fun kv => (fst kv, PStr (snd kv))) d.

Definition enc_self (cfg : config) (d : db) : pyval :=
  PObj [("__class__", PStr "IdentDB"); ("db", PObj (enc_db d)); ("domain", PStr (domain cfg));
        ("name_qualifier", PStr (default_nq cfg))].

(* the embedding tells objects from dicts by a first key "__class__": a dict must not have that key *)
Definition db_ok (d : db) : bool := forallb (fun kv => negb (String.eqb (fst kv) "__class__")) d.

Definition exc_name (e : exc) : string :=
  match e with
  | KeyErr => "KeyError" | ValueErr => "ValueError" | SAMLErr => "SAMLError" | UnknownErr => "Unknown"
  | PolicyErr => "PolicyError" | Unmodelled => "Unmodelled"
  end.

Definition enc_res (r : res (option nameid)) : pyval :=
  match r with Ok (Some n) => enc_nid n | Ok None => PNone | Err e => PExc (exc_name e) end.

(* ---- small facts *)
Lemma enc_opt_good a : is_bad (enc_opt a) = false.
Proof. destruct a; reflexivity. Qed.

Lemma enc_nid_good n : is_bad (enc_nid n) = false.
Proof. reflexivity. Qed.

Lemma truthy_enc a : py_truthy (enc_opt a) = truthy a.
Proof. destruct a as [[|c s]|]; reflexivity. Qed.

Lemma p2_eq_opt a b : p2_eq (enc_opt a) (enc_opt b) = PBool (eq_arg a b).
Proof. destruct a, b; reflexivity. Qed.

Lemma p2_ne_opt a b : p2_ne (enc_opt a) (enc_opt b) = PBool (negb (eq_arg a b)).
Proof. destruct a, b; reflexivity. Qed.

Lemma branch_opt a : p2_branch (enc_opt a) = if truthy a then BTrue else BFalse.
Proof. destruct a as [[|c s]|]; reflexivity. Qed.

(* "x and x == y" / "not x and not y" on str-or-None values *)
Lemma branch_and_eq a b :
  p2_branch (p2_and (enc_opt a) (p2_eq (enc_opt a) (enc_opt b))) = if truthy a && eq_arg a b then BTrue else BFalse.
Proof.
  rewrite p2_and_good by apply enc_opt_good. rewrite truthy_enc, p2_eq_opt.
  destruct (truthy a) eqn:T; cbn [andb].
  - rewrite p2_branch_bool. reflexivity.
  - rewrite branch_opt, T. reflexivity.
Qed.

Lemma branch_not_not a b :
  p2_branch (p2_and (p2_not (enc_opt a)) (p2_not (enc_opt b)))
  = if negb (truthy a) && negb (truthy b) then BTrue else BFalse.
Proof.
  rewrite !p2_not_good by apply enc_opt_good. rewrite !truthy_enc.
  destruct (truthy a), (truthy b); reflexivity.
Qed.

Lemma strs_of_map l : strs_of (map PStr l) = Some l.
Proof. induction l as [|x r IH]; cbn [map strs_of]; [reflexivity|]. rewrite IH. reflexivity. Qed.

Lemma p2_join_strs sep l : p2_join (PStr sep) (PList (map PStr l)) = PStr (join sep l).
Proof. cbn. rewrite strs_of_map. reflexivity. Qed.

Lemma append_nil_r (s : string) : s ++ "" = s.
Proof. induction s as [|c r IH]; [reflexivity|]. cbn. rewrite IH. reflexivity. Qed.

Lemma split_space v : p2_split (PStr v) (PStr " ") = PList (map PStr (elements v)).
Proof. cbn. change (split_str " " v) with (split_str (String space_char EmptyString) v). rewrite split_str_char. reflexivity. Qed.

(* ---- the dict *)
Lemma enc_db_is_obj d : db_ok d = true -> is_obj (enc_db d) = false.
Proof.
  destruct d as [|[k v] r]; [reflexivity|]. cbn [db_ok forallb fst enc_db map is_obj]. intros H.
  apply andb_true_iff in H as [H _]. apply negb_true_iff in H. exact H.
Qed.

Lemma assoc_enc_db k d : assoc_py k (enc_db d) = option_map PStr (lookup k d).
Proof.
  induction d as [|[k' v] r IH]; [reflexivity|]. cbn [enc_db map fst snd assoc_py lookup].
  destruct (String.eqb k k'); [reflexivity|exact IH].
Qed.

Lemma set_enc_db k v d : set_assoc k (PStr v) (enc_db d) = enc_db (set k v d).
Proof.
  induction d as [|[k' v'] r IH]; [reflexivity|]. cbn [enc_db map fst snd set_assoc set].
  destruct (String.eqb k k'); cbn [map fst snd]; [reflexivity|]. f_equal. exact IH.
Qed.

Lemma db_ok_set k v d : k <> "__class__" -> db_ok d = true -> db_ok (set k v d) = true.
Proof.
  intros Hk. induction d as [|[k' v'] r IH]; cbn [set db_ok forallb fst].
  - intros _. apply String.eqb_neq in Hk. rewrite Hk. reflexivity.
  - intros H. apply andb_true_iff in H as [H1 H2]. destruct (String.eqb k k'); cbn [db_ok forallb fst]; rewrite H1; cbn [andb].
    + exact H2.
    + apply IH, H2.
Qed.

Lemma getitem_db cfg d k : db_ok d = true ->
  p2_getitem (p2_attr (enc_self cfg d) "db") (PStr k)
  = match lookup k d with Some v => PStr v | None => PExc "KeyError" end.
Proof.
  intros H. change (p2_attr (enc_self cfg d) "db") with (PObj (enc_db d)).
  rewrite p2_getitem_dict by (apply enc_db_is_obj, H). rewrite assoc_enc_db. destruct (lookup k d); reflexivity.
Qed.

Lemma getitem_db_none cfg d : db_ok d = true ->
  p2_getitem (p2_attr (enc_self cfg d) "db") PNone = PExc "KeyError".
Proof.
  intros H. change (p2_attr (enc_self cfg d) "db") with (PObj (enc_db d)).
  cbn. rewrite (enc_db_is_obj d H). reflexivity.
Qed.

(* ================================================================================================== *)
(* 1. code(item) *)

Theorem src2_code_is_model : forall n, src2_code quote_f (enc_nid n) = PStr (code n).
Proof.
  intros n. unfold src2_code. rewrite p2_iter_check_list. cbn [py_bind py_iter2].
  match goal with |- context [pyfor2 _ _ ?B] => set (body := B) end.
  assert (Hstep : forall val res i name v,
             p2_getattr_dyn false (enc_nid n) (PStr name) = enc_opt v ->
             body [val; PList (map PStr res); PInt i] (PStr name)
             = NextS [enc_opt v; PList (map PStr (res ++ field_code (dec_of_Z i) v)); PInt (i + 1)]).
  { intros val res i name v Hv. subst body. cbv beta iota zeta. rewrite Hv.
    rewrite py_bindS_good by apply enc_opt_good. rewrite branch_opt.
    destruct v as [[|c s]|]; cbn [truthy field_code]; rewrite ?app_nil_r; try reflexivity.
    cbn [enc_opt p2_int s1 py_bind p2_str p2_fconcat]. rewrite append_nil_r.
    cbn [p2_append s2 py_bind py_bindS p2_bind p2_add as_z]. rewrite map_app. reflexivity. }
  clearbody body. cbn [pyfor2]. change (PList []) with (PList (map PStr (@nil string))).
  rewrite (Hstep PErr [] 0%Z "name_qualifier" (nq n)) by reflexivity.
  rewrite (Hstep _ _ _ "sp_name_qualifier" (spq n)) by reflexivity.
  rewrite (Hstep _ _ _ "format" (fmt n)) by reflexivity.
  rewrite (Hstep _ _ _ "sp_provided_id" (spid n)) by reflexivity.
  rewrite (Hstep _ _ _ "text" (txt n)) by reflexivity.
  rewrite p2_join_strs. unfold code, code_parts. rewrite <- !app_assoc. reflexivity.
Qed.

(* ================================================================================================== *)
(* 2. IdentDB.store(ident, name_id): forward entry (space-joined codes) and reverse entry *)

Lemma setattr_db cfg d d' : p2_setattr (enc_self cfg d) "db" (PObj (enc_db d')) = enc_self cfg d'.
Proof. reflexivity. Qed.

Lemma setitem_db cfg d k v : db_ok d = true -> k <> "__class__" ->
  p2_setitem (p2_attr (enc_self cfg d) "db") (PStr k) (PStr v) = PObj (enc_db (set k v d)).
Proof.
  intros H Hk. change (p2_attr (enc_self cfg d) "db") with (PObj (enc_db d)).
  rewrite p2_setitem_dict by (try apply enc_db_is_obj; auto). rewrite set_enc_db. reflexivity.
Qed.

(* [v for v in <list of str> if v] *)
Lemma listcomp_nonempty l :
  listcomp_go (map PStr l) (fun v => v) (fun v => v) = PList (map PStr (filter nonempty l)).
Proof.
  induction l as [|s r IH]; [reflexivity|]. cbn [map listcomp_go filter]. rewrite IH.
  destruct s; reflexivity.
Qed.

(* the name_id must have a text (a None dict key is outside the model: Model.store answers Unmodelled);
   "__class__" is not a dict key of the embedding *)
Theorem src2_store_is_model : forall cfg d u n t,
  db_ok d = true -> u <> "__class__" -> t <> "__class__" -> txt n = Some t ->
  src2_store quote_f (enc_self cfg d) (PStr u) (enc_nid n) = PList [PNone; enc_self cfg (store_db d u n t)].
Proof.
  intros cfg d u n t Hd Hu Ht Htxt. unfold src2_store. cbv zeta.
  rewrite getitem_db by exact Hd.
  match goal with |- py_bindh ?H _ ?K = _ => set (h := H); set (k := K) end.
  set (val := match lookup u d with Some v => filter nonempty (elements v) | None => [] end).
  assert (Hk : k (PList (map PStr val))
               = PList [PNone; enc_self cfg (set t u (set u (join " " (val ++ [code n])) d))]).
  { subst k. cbv beta. cbn [py_bind enc_nid]. fold (enc_nid n). rewrite src2_code_is_model.
    rewrite py_bindh_good by reflexivity.
    change (p2_append (PList (map PStr val)) (PStr (code n))) with (PList (map PStr val ++ [PStr (code n)])%list).
    rewrite py_bindh_good by reflexivity.
    change (map PStr val ++ [PStr (code n)])%list with (map PStr val ++ map PStr [code n])%list.
    rewrite <- map_app, p2_join_strs. rewrite !py_bindh_good by reflexivity.
    rewrite setitem_db by assumption. rewrite setattr_db. rewrite !py_bindh_good by reflexivity.
    change (p2_attr (enc_nid n) "text") with (enc_opt (txt n)). rewrite Htxt. cbn [enc_opt].
    rewrite py_bindh_good by reflexivity.
    rewrite setitem_db by (try apply db_ok_set; assumption). rewrite setattr_db.
    rewrite py_bindh_good by reflexivity. reflexivity. }
  unfold store_db. fold val. rewrite <- Hk. subst val. destruct (lookup u d) as [v|].
  - rewrite split_space, p2_listcomp_list, listcomp_nonempty. rewrite py_bindh_good by reflexivity. reflexivity.
  - cbn [p2_split s2 py_bind p2_listcomp]. rewrite py_bindh_exc. subst h. cbv beta. reflexivity.
Qed.

(* ================================================================================================== *)
(* 3. IdentDB.find_local_id(name_id): the reverse entry, None when there is none *)

Definition enc_found (o : option string) : pyval := enc_opt o.

Theorem src2_find_local_id_is_model : forall cfg d n,
  db_ok d = true -> src2_find_local_id (enc_self cfg d) (enc_nid n) = enc_found (find_local_id d n).
Proof.
  intros cfg d n Hd. unfold src2_find_local_id, find_local_id, enc_found.
  change (p2_attr (enc_nid n) "text") with (enc_opt (txt n)).
  destruct (txt n) as [t|]; cbn [enc_opt lookup_opt].
  - rewrite getitem_db by exact Hd. destruct (lookup t d); reflexivity.
  - rewrite getitem_db_none by exact Hd. reflexivity.
Qed.

(* ================================================================================================== *)
(* 4. IdentDB.match_local_id(userid, sp_name_qualifier, name_qualifier) *)

Definition enc_decoded (o : option nameid) : pyval :=
  match o with Some n => enc_nid n | None => PExc "ValueError" end.

Lemma first_match_err cs s q e : first_match cs s q = Err e -> e = ValueErr.
Proof.
  induction cs as [|c r IH]; cbn [first_match]; [discriminate|].
  destruct (decode c) as [n|]; [|congruence].
  destruct (negb (eq_arg (fmt n) (Some NF_PERSISTENT))); [exact IH|].
  destruct (nid_matches n s q); [discriminate|exact IH].
Qed.

(* what a loop over the stored elements answers for a scan result of the model *)
Definition scan_ctl (r : res (option nameid)) (c : ctl2) (len : nat) : Prop :=
  match r with
  | Ok None => exists st, c = NextS st /\ length st = len
  | Ok (Some n) => c = RetS (enc_nid n)
  | Err e => exists st, c = ExcS (exc_name e) st /\ length st = len
  end.

Section MatchLocal.
  Variable decode_ : pyval -> pyval.          (* ident.decode *)
  Hypothesis decode_is_model : forall s, decode_ (PStr s) = enc_decoded (decode s).

  Theorem src2_match_local_id_is_model : forall cfg d u spq_arg nq_arg,
    db_ok d = true ->
    src2_match_local_id decode_ (enc_self cfg d) (PStr u) (enc_opt spq_arg) (enc_opt nq_arg)
    = enc_res (match_local_id d u spq_arg nq_arg).
  Proof.
    intros cfg d u sa qa Hd. unfold src2_match_local_id, match_local_id. cbv zeta.
    rewrite getitem_db by exact Hd. destruct (lookup u d) as [v|]; [|reflexivity].
    rewrite split_space, p2_iter_check_list, py_bindh_good by reflexivity. cbn [py_iter2].
    match goal with |- context [pyfor2 _ _ ?B] => set (body := B) end.
    assert (Hstep : forall a b c s,
               body [a; b; c] (PStr s)
               = match decode s with
                 | None => ExcS "ValueError" [a; b; c]
                 | Some n =>
                     if negb (eq_arg (fmt n) (Some NF_PERSISTENT)) then NextS [enc_nid n; b; c]
                     else if nid_matches n sa qa then RetS (enc_nid n)
                          else NextS [enc_nid n; enc_opt (spq n);
                                      if (truthy (spq n) && eq_arg (spq n) sa) || (negb (truthy (spq n)) && negb (truthy sa))
                                      then enc_opt (nq n) else c]
                 end).
    { intros a b c s. subst body. cbv beta iota zeta. cbn [py_bind]. rewrite decode_is_model.
      destruct (decode s) as [n|]; [|reflexivity]. cbn [enc_decoded].
      rewrite py_bindS_good by reflexivity.
      change (p2_attr (enc_nid n) "format") with (enc_opt (fmt n)).
      change (PStr "urn:oasis:names:tc:SAML:2.0:nameid-format:persistent") with (enc_opt (Some NF_PERSISTENT)).
      rewrite p2_ne_opt, p2_branch_bool.
      destruct (negb (eq_arg (fmt n) (Some NF_PERSISTENT))); [reflexivity|].
      change (p2_getattr3 (enc_nid n) "sp_name_qualifier" (PStr "")) with (enc_opt (spq n)).
      change (p2_getattr3 (enc_nid n) "name_qualifier" PNone) with (enc_opt (nq n)).
      rewrite !py_bindS_good by (apply enc_opt_good || reflexivity).
      rewrite !branch_and_eq, !branch_not_not. unfold nid_matches.
      destruct (truthy (spq n) && eq_arg (spq n) sa); cbn [orb].
      - destruct (truthy (nq n) && eq_arg (nq n) qa); cbn [orb]; [reflexivity|].
        destruct (negb (truthy (nq n)) && negb (truthy qa)); reflexivity.
      - destruct (negb (truthy (spq n)) && negb (truthy sa)); [|reflexivity].
        destruct (truthy (nq n) && eq_arg (nq n) qa); cbn [orb]; [reflexivity|].
        destruct (negb (truthy (nq n)) && negb (truthy qa)); reflexivity. }
    clearbody body.
    assert (Hloop : forall cs a b c, scan_ctl (first_match cs sa qa) (pyfor2 (map PStr cs) [a; b; c] body) 3).
    { induction cs as [|s r IH]; intros a b c; cbn [map pyfor2 first_match].
      - exists [a; b; c]. split; reflexivity.
      - rewrite Hstep. destruct (decode s) as [n|]; [|exists [a; b; c]; split; reflexivity].
        destruct (negb (eq_arg (fmt n) (Some NF_PERSISTENT))); [apply IH|].
        destruct (nid_matches n sa qa); [reflexivity|apply IH]. }
    specialize (Hloop (elements v) PErr PErr PErr).
    destruct (first_match (elements v) sa qa) as [[n|]|e] eqn:E; cbn [scan_ctl enc_res] in *.
    - rewrite Hloop. reflexivity.
    - destruct Hloop as [st [-> Hl]]. destruct st as [|x [|y [|z [|w st]]]]; try discriminate. reflexivity.
    - destruct Hloop as [st [-> Hl]]. destruct st as [|x [|y [|z [|w st]]]]; try discriminate.
      rewrite (first_match_err _ _ _ _ E). reflexivity.
  Qed.
End MatchLocal.

(* the hypothesis is satisfiable: the model's decode, encoded *)
Definition decode_ex (v : pyval) : pyval := match v with PStr s => enc_decoded (decode s) | _ => PErr end.

Example match_local_hypotheses_satisfiable :
  (forall s, decode_ex (PStr s) = enc_decoded (decode s))
  /\ src2_match_local_id decode_ex
       (enc_self {| domain := ""; default_nq := "" |} [("alice", "1=sp,2=" ++ quote_f NF_PERSISTENT ++ ",4=x")])
       (PStr "alice") (PStr "sp") PNone
     = enc_nid (mkN None (Some "sp") (Some NF_PERSISTENT) None (Some "x")).
Proof. split; [reflexivity|vm_compute; reflexivity]. Qed.

(* ================================================================================================== *)
(* 5. IdentDB.handle_name_id_mapping_request(name_id, name_id_policy) *)

(* a samlp.NameIDPolicy instance: Format, SPNameQualifier, AllowCreate *)
Definition enc_pol (p : policy) : pyval :=
  PObj [("__class__", PStr "NameIDPolicy"); ("format", enc_opt (pfmt p)); ("sp_name_qualifier", enc_opt (pspq p));
        ("allow_create", enc_opt (pallow p))].

Definition enc_out (o : out) : pyval :=
  match o with
  | ONone => PNone
  | ONid n => enc_nid n
  | ONids l => PList (map enc_nid l)
  | OStr s => PStr s
  | OExc e => PExc (exc_name e)
  end.

Section Mapping.
  Variable decode_ : pyval -> pyval.                       (* ident.decode *)
  Variable construct_ : pyval -> pyval -> pyval -> pyval.  (* self.construct_nameid(_id, name_id_policy=...) *)
  Variable cfg : config.
  Variable d : db.
  Variable p : policy.
  Variable fresh : string.                                 (* the value create_id generates, if it is asked *)
  Hypothesis decode_is_model : forall s, decode_ (PStr s) = enc_decoded (decode s).
  (* the ANSWER of construct_nameid (its store update happens inside the callee) *)
  Hypothesis construct_is_model : forall id,
    construct_ (enc_self cfg d) (PStr id) (enc_pol p)
    = enc_out (snd (construct_nameid cfg d id None None (Some p) None fresh)).

  Theorem src2_name_id_mapping_is_model : forall n,
    db_ok d = true ->
    src2_name_id_mapping decode_ construct_ (enc_self cfg d) (enc_nid n) (enc_pol p)
    = enc_out (snd (name_id_mapping cfg d n p fresh)).
  Proof.
    intros n Hd. unfold src2_name_id_mapping, name_id_mapping. cbv zeta.
    rewrite (py_bind_good (enc_nid n)) by reflexivity.
    rewrite src2_find_local_id_is_model by exact Hd. unfold enc_found.
    destruct (find_local_id d n) as [id|]; [|reflexivity].
    destruct id as [|c0 r0]; [reflexivity|]. set (id := String c0 r0).
    cbn [enc_opt py_bind]. change (p2_branch (p2_not (PStr id))) with BFalse. cbv iota.
    rewrite getitem_db by exact Hd. destruct (lookup id d) as [v|]; [|reflexivity].
    rewrite split_space, p2_iter_check_list. cbn [py_bind py_iter2].
    match goal with |- context [pyfor2 _ _ ?B] => set (body := B) end.
    assert (Hstep : forall a s,
               body [a] (PStr s)
               = match decode s with
                 | None => ExcS "ValueError" [a]
                 | Some m => if eq_arg (fmt m) (pfmt p) && eq_arg (spq m) (pspq p) then RetS (enc_nid m)
                             else NextS [enc_nid m]
                 end).
    { intros a s. subst body. cbv beta iota zeta. cbn [py_bind]. rewrite decode_is_model.
      destruct (decode s) as [m|]; [|reflexivity]. cbn [enc_decoded].
      rewrite py_bindS_good by reflexivity.
      change (p2_attr (enc_nid m) "format") with (enc_opt (fmt m)).
      change (p2_attr (enc_nid m) "sp_name_qualifier") with (enc_opt (spq m)).
      change (p2_attr (enc_pol p) "format") with (enc_opt (pfmt p)).
      change (p2_attr (enc_pol p) "sp_name_qualifier") with (enc_opt (pspq p)).
      rewrite !p2_eq_opt, !p2_branch_bool.
      destruct (eq_arg (fmt m) (pfmt p)); cbn [andb]; [|reflexivity].
      destruct (eq_arg (spq m) (pspq p)); reflexivity. }
    clearbody body.
    assert (Hloop : forall cs a, scan_ctl (mapping_scan cs p) (pyfor2 (map PStr cs) [a] body) 1).
    { induction cs as [|s r IH]; intros a; cbn [map pyfor2 mapping_scan].
      - exists [a]. split; reflexivity.
      - rewrite Hstep. destruct (decode s) as [m|]; [|exists [a]; split; reflexivity].
        destruct (eq_arg (fmt m) (pfmt p) && eq_arg (spq m) (pspq p)); [reflexivity|apply IH]. }
    specialize (Hloop (elements v) PErr).
    destruct (mapping_scan (elements v) p) as [[m|]|e]; cbn [scan_ctl] in Hloop.
    - rewrite Hloop. reflexivity.
    - destruct Hloop as [st [-> Hl]]. destruct st as [|x [|y st]]; try discriminate.
      change (p2_attr (enc_pol p) "allow_create") with (enc_opt (pallow p)).
      change (PStr "false") with (enc_opt (Some "false")). rewrite p2_eq_opt, p2_branch_bool.
      destruct (eq_arg (pallow p) (Some "false")); [reflexivity|].
      cbn [py_bind enc_pol]. fold (enc_pol p). apply construct_is_model.
    - destruct Hloop as [st [-> Hl]]. destruct st as [|x [|y st]]; try discriminate. reflexivity.
  Qed.
End Mapping.

Definition ex_cfg2 : config := {| domain := "example.org"; default_nq := "idp" |}.
Definition ex_pol : policy := {| pfmt := Some NF_TRANSIENT; pspq := Some "sp2"; pallow := None |}.
Definition ex_db : db := [("alice", "1=sp,2=" ++ quote_f NF_PERSISTENT ++ ",4=x"); ("x", "alice")].
Definition construct_ex (self idv pol : pyval) : pyval :=
  match idv with
  | PStr id => enc_out (snd (construct_nameid ex_cfg2 ex_db id None None (Some ex_pol) None "fresh"))
  | _ => PErr
  end.

Example mapping_hypotheses_satisfiable :
  (forall s, decode_ex (PStr s) = enc_decoded (decode s))
  /\ (forall id, construct_ex (enc_self ex_cfg2 ex_db) (PStr id) (enc_pol ex_pol)
                 = enc_out (snd (construct_nameid ex_cfg2 ex_db id None None (Some ex_pol) None "fresh")))
  /\ src2_name_id_mapping decode_ex construct_ex (enc_self ex_cfg2 ex_db)
       (enc_nid (mkN None (Some "sp") (Some NF_PERSISTENT) None (Some "x"))) (enc_pol ex_pol)
     = enc_nid (mkN (Some "idp") (Some "sp2") (Some NF_TRANSIENT) None (Some "fresh")).
Proof. split; [reflexivity|split; [reflexivity|vm_compute; reflexivity]]. Qed.

(* ================================================================================================== *)
(* 6. IdentDB.nim_args(local_policy, sp_name_qualifier, name_id_policy, name_qualifier): which format, requester
      namespace and qualifier are asked for (Model.resolve; construct_nameid repeats the qualifier default) *)

(* the local policy: None, or an object whose get_nameid_format(requester) answers f *)
Definition enc_lp (lp : option string) : pyval :=
  match lp with Some f => PObj [("__class__", PStr "Policy"); ("nameid_format", PStr f)] | None => PNone end.
Definition enc_pol_opt (pol : option policy) : pyval := match pol with Some p => enc_pol p | None => PNone end.

Definition enc_args (r : res (string * option string * option string)) : pyval :=
  match r with
  | Ok (f, s, q) => PObj [("nformat", PStr f); ("sp_name_qualifier", enc_opt s); ("name_qualifier", enc_opt q)]
  | Err e => PExc (exc_name e)
  end.

Section NimArgs.
  Variable lp_format : pyval -> pyval -> pyval.      (* local_policy.get_nameid_format(requester) *)
  Hypothesis lp_format_answers : forall f requester, lp_format (enc_lp (Some f)) requester = PStr f.

  Lemma nq_part cfg f s qa :
    match (if negb (truthy qa) then BTrue else BFalse) with
    | BTrue => py_bind (PStr (default_nq cfg)) (fun v =>
                 p2_mkdict [("nformat", PStr f); ("sp_name_qualifier", enc_opt s); ("name_qualifier", v)])
    | BFalse => p2_mkdict [("nformat", PStr f); ("sp_name_qualifier", enc_opt s); ("name_qualifier", enc_opt qa)]
    | BExc n => PExc n
    | BErr => PErr
    end = enc_args (Ok (f, s, if truthy qa then qa else Some (default_nq cfg))).
  Proof.
    destruct (truthy qa); cbn [negb py_bind enc_args enc_opt];
      (rewrite p2_mkdict_good; [reflexivity|]; cbn [map snd forallb is_bad negb andb]; rewrite !enc_opt_good; reflexivity).
  Qed.

  Theorem src2_nim_args_is_model : forall cfg d lp spq_arg pol nq_arg,
    src2_nim_args lp_format (enc_self cfg d) (enc_lp lp) (enc_opt spq_arg) (enc_pol_opt pol) (enc_opt nq_arg)
    = enc_args (resolve cfg lp spq_arg pol nq_arg).
  Proof.
    intros cfg d lp sa pol qa. unfold src2_nim_args, resolve. cbv zeta.
    rewrite (py_bind_good (enc_opt sa)) by apply enc_opt_good. cbv beta.
    change (p2_attr (enc_self cfg d) "name_qualifier") with (PStr (default_nq cfg)).
    rewrite (p2_not_good (enc_opt qa)) by apply enc_opt_good. rewrite truthy_enc, p2_branch_bool.
    (* the local-policy branch, for any requester namespace s *)
    assert (Hlp : forall s,
               match p2_branch (enc_lp lp) with
               | BTrue => py_bind (py_bind (enc_opt sa) (fun a => lp_format (enc_lp lp) a)) (fun v_f =>
                   match (if negb (truthy qa) then BTrue else BFalse) with
                   | BTrue => py_bind (PStr (default_nq cfg)) (fun v =>
                                p2_mkdict [("nformat", v_f); ("sp_name_qualifier", enc_opt s); ("name_qualifier", v)])
                   | BFalse => p2_mkdict [("nformat", v_f); ("sp_name_qualifier", enc_opt s); ("name_qualifier", enc_opt qa)]
                   | BExc n => PExc n
                   | BErr => PErr
                   end)
               | BFalse => PExc "SAMLError"
               | BExc n => PExc n
               | BErr => PErr
               end
               = enc_args (match lp with
                           | Some f => Ok (f, s, if truthy qa then qa else Some (default_nq cfg))
                           | None => Err SAMLErr
                           end)).
    { intros s. destruct lp as [f|]; [|reflexivity].
      change (p2_branch (enc_lp (Some f))) with BTrue. cbv iota.
      rewrite (py_bind_good (enc_opt sa)) by apply enc_opt_good. rewrite lp_format_answers. cbn [py_bind]. apply nq_part. }
    destruct pol as [p|]; cbn [enc_pol_opt].
    - change (p2_attr (enc_pol p) "sp_name_qualifier") with (enc_opt (pspq p)).
      change (p2_attr (enc_pol p) "format") with (enc_opt (pfmt p)).
      rewrite !(p2_and_good (enc_pol p)) by reflexivity. change (py_truthy (enc_pol p)) with true. cbv iota.
      rewrite !branch_opt.
      destruct (truthy (pspq p)) eqn:Ts;
        [rewrite (py_bind_good (enc_opt (pspq p))) by apply enc_opt_good; cbv beta|];
        (destruct (truthy (pfmt p)) eqn:Tf;
         [destruct (pfmt p) as [f|]; [|discriminate]; cbn [enc_opt py_bind]; apply nq_part|apply Hlp]).
    - cbn [p2_and p2_branch py_truthy]. apply Hlp.
  Qed.
End NimArgs.

Definition lp_format_ex (lp requester : pyval) : pyval := p2_attr lp "nameid_format".

Example nim_args_hypotheses_satisfiable :
  (forall f requester, lp_format_ex (enc_lp (Some f)) requester = PStr f)
  /\ src2_nim_args lp_format_ex (enc_self ex_cfg2 []) (enc_lp (Some NF_TRANSIENT)) (PStr "sp") (enc_pol_opt (Some ex_pol)) PNone
     = PObj [("nformat", PStr NF_TRANSIENT); ("sp_name_qualifier", PStr "sp2"); ("name_qualifier", PStr "idp")].
Proof. split; reflexivity. Qed.

(* ================================================================================================== *)
(* 7. IdentDB.handle_manage_name_id_request(name_id, new_id, new_encrypted_id, terminate): which SPProvidedID the
      identifier gets, and that the ORIGINAL identifier is removed and the CHANGED one stored for the user the
      reverse entry names.  remove_remote / store are arbitrary functions here (no hypothesis): whatever they
      answer — exceptions included — the handler passes them exactly these arguments, in this order. *)

Definition enc_newid (x : option (option string)) : pyval :=
  match x with Some t => PObj [("__class__", PStr "NewID"); ("text", enc_opt t)] | None => PNone end.
(* NewEncryptedID / Terminate: an element, or the default "" *)
Definition enc_flag (cls : string) (b : bool) : pyval := if b then PObj [("__class__", PStr cls)] else PStr "".

Lemma setattr_spid n v :
  p2_setattr (enc_nid n) "sp_provided_id" (enc_opt v) = enc_nid (mkN (nq n) (spq n) (fmt n) v (txt n)).
Proof. destruct v; reflexivity. Qed.

Lemma py_bind_ext e k1 k2 : (forall v, k1 v = k2 v) -> py_bind e k1 = py_bind e k2.
Proof. intros H. destruct e; cbn [py_bind]; try apply H; reflexivity. Qed.

Lemma call2_good (f : pyval -> pyval -> pyval) a b :
  is_bad a = false -> is_bad b = false -> py_bind a (fun x => py_bind b (fun y => f x y)) = f a b.
Proof. intros Ha Hb. rewrite (py_bind_good a) by exact Ha. apply py_bind_good, Hb. Qed.

Section Manage.
  Variable remove_ : pyval -> pyval -> pyval.            (* self.remove_remote(name_id) *)
  Variable store_ : pyval -> pyval -> pyval -> pyval.    (* self.store(ident, name_id) *)

  Theorem src2_manage_name_id_is_model : forall cfg d n newid enc term,
    db_ok d = true ->
    src2_manage_name_id remove_ store_ (enc_self cfg d) (enc_nid n) (enc_newid newid)
      (enc_flag "NewEncryptedID" enc) (enc_flag "Terminate" term)
    = match manage_target n newid enc term with
      | None => enc_nid n
      | Some n' =>
          py_bind (remove_ (enc_self cfg d) (enc_nid n)) (fun _ =>
          py_bind (store_ (enc_self cfg d) (enc_found (find_local_id d n)) (enc_nid n')) (fun _ => enc_nid n'))
      end.
  Proof.
    intros cfg d n newid enc term Hd. unfold src2_manage_name_id. cbv zeta.
    rewrite (py_bind_good (enc_nid n)) by reflexivity.
    rewrite src2_find_local_id_is_model by exact Hd.
    rewrite (py_bind_good (enc_found _)) by apply enc_opt_good. cbv beta.
    repeat (rewrite (py_bind_good (enc_nid n)) by reflexivity; cbv beta).
    destruct newid as [x|]; cbn [enc_newid manage_target].
    - change (p2_branch (PObj [("__class__", PStr "NewID"); ("text", enc_opt x)])) with BTrue. cbv iota.
      change (p2_attr (PObj [("__class__", PStr "NewID"); ("text", enc_opt x)]) "text") with (enc_opt x).
      rewrite (py_bind_good (enc_opt x)) by apply enc_opt_good.
      rewrite setattr_spid. rewrite (py_bind_good (enc_nid _)) by reflexivity. cbv beta.
      apply py_bind_ext. intros _. rewrite (call2_good (store_ (enc_self cfg d))) by (apply enc_opt_good || reflexivity). reflexivity.
    - change (p2_branch PNone) with BFalse. cbv iota. destruct enc; cbn [enc_flag].
      + change (p2_branch (PObj [("__class__", PStr "NewEncryptedID")])) with BTrue. cbv iota.
        apply py_bind_ext. intros _. rewrite (call2_good (store_ (enc_self cfg d))) by (apply enc_opt_good || reflexivity). reflexivity.
      + change (p2_branch (PStr "")) with BFalse. cbv iota. destruct term; cbn [enc_flag].
        * change (p2_branch (PObj [("__class__", PStr "Terminate")])) with BTrue. cbv iota.
          change PNone with (enc_opt None) at 1. rewrite setattr_spid. rewrite (py_bind_good (enc_nid _)) by reflexivity. cbv beta.
          apply py_bind_ext. intros _. rewrite (call2_good (store_ (enc_self cfg d))) by (apply enc_opt_good || reflexivity). reflexivity.
        * reflexivity.
  Qed.

  (* with callees that answer as the model's remove_remote / store do, the handler answers as the model's *)
  Variable cfg : config.
  Variable d : db.
  Variable n : nameid.
  Hypothesis remove_is_model :
    remove_ (enc_self cfg d) (enc_nid n)
    = match remove_remote d n with Ok _ => PNone | Err e => PExc (exc_name e) end.
  Hypothesis store_answers_none : forall u n', store_ (enc_self cfg d) (PStr u) (enc_nid n') = PNone.

  Theorem src2_manage_name_id_answer : forall newid enc term,
    db_ok d = true ->
    src2_manage_name_id remove_ store_ (enc_self cfg d) (enc_nid n) (enc_newid newid)
      (enc_flag "NewEncryptedID" enc) (enc_flag "Terminate" term)
    = enc_out (snd (manage_name_id d n newid enc term)).
  Proof.
    intros newid enc term Hd. rewrite src2_manage_name_id_is_model by exact Hd. unfold manage_name_id.
    destruct (manage_target n newid enc term) as [n'|] eqn:Et; [|reflexivity].
    rewrite remove_is_model.
    assert (Htxt : txt n' = txt n).
    { unfold manage_target in Et. destruct newid as [x|]; [injection Et as <-; reflexivity|].
      destruct enc; [injection Et as <-; reflexivity|]. destruct term; [injection Et as <-; reflexivity|discriminate]. }
    unfold remove_remote, find_local_id. rewrite Htxt.
    destruct (txt n) as [t|]; cbn [lookup_opt]; [|reflexivity].
    destruct (lookup t d) as [id|]; [|reflexivity].
    destruct (lookup id d) as [v|].
    - destruct (mem (code n) (elements v)); [|reflexivity].
      cbn [py_bind enc_found enc_opt]. rewrite store_answers_none. reflexivity.
    - cbn [py_bind enc_found enc_opt]. rewrite store_answers_none. reflexivity.
  Qed.
End Manage.

Definition ex_nid : nameid := mkN None (Some "sp") (Some NF_PERSISTENT) None (Some "x").
Definition remove_ex (self nid : pyval) : pyval :=
  match remove_remote ex_db ex_nid with Ok _ => PNone | Err e => PExc (exc_name e) end.
Definition store_ex (self u nid : pyval) : pyval := PNone.

Example manage_hypotheses_satisfiable :
  remove_ex (enc_self ex_cfg2 ex_db) (enc_nid ex_nid)
  = match remove_remote ex_db ex_nid with Ok _ => PNone | Err e => PExc (exc_name e) end
  /\ (forall u n', store_ex (enc_self ex_cfg2 ex_db) (PStr u) (enc_nid n') = PNone)
  /\ src2_manage_name_id remove_ex store_ex (enc_self ex_cfg2 ex_db) (enc_nid ex_nid) (enc_newid (Some (Some "new id")))
       (enc_flag "NewEncryptedID" false) (enc_flag "Terminate" false)
     = enc_nid (mkN None (Some "sp") (Some NF_PERSISTENT) (Some "new id") (Some "x")).
Proof. split; [reflexivity|split; [reflexivity|vm_compute; reflexivity]]. Qed.

(* ================================================================================================== *)
(* 8. IdentDB.get_nameid(userid, nformat, sp_name_qualifier, name_qualifier): reuse of a stored persistent
      identifier, the e-mail format rule, the fields of the new NameID, and which (user, NameID) is handed to store().
      match_local_id is its own translation (section 4); create_id is an oracle (the value generated), store() an
      arbitrary function: the theorem shows the arguments it is called with. *)

Lemma call3_good (f : pyval -> pyval -> pyval -> pyval) a b c :
  is_bad a = false -> is_bad b = false -> is_bad c = false ->
  py_bind a (fun x => py_bind b (fun y => py_bind c (fun z => f x y z))) = f a b c.
Proof. intros Ha Hb Hc. rewrite (py_bind_good a) by exact Ha. apply call2_good; assumption. Qed.

Section GetNameid.
  Variable decode_ : pyval -> pyval.                              (* ident.decode *)
  Variable create_ : pyval -> pyval -> pyval -> pyval -> pyval.   (* self.create_id(nformat, name_qualifier, sp_name_qualifier) *)
  Variable store_ : pyval -> pyval -> pyval -> pyval.             (* self.store(userid, nameid) *)
  Variable fresh : string.
  Hypothesis decode_is_model : forall s, decode_ (PStr s) = enc_decoded (decode s).
  Hypothesis create_answers : forall self f q s, create_ self f q s = PStr fresh.

  (* the issuing path: the answer of Model.issue, after store() was handed (user, that NameID) *)
  Definition issue_call (self : pyval) (u : string) (o : out) : pyval :=
    match o with
    | ONid n => py_bind (store_ self (PStr u) (enc_nid n)) (fun _ => enc_nid n)
    | _ => enc_out o
    end.

  Theorem src2_get_nameid_is_model : forall cfg d u f spq_arg nq_arg,
    db_ok d = true ->
    src2_get_nameid decode_ create_ store_ (enc_self cfg d) (PStr u) (PStr f) (enc_opt spq_arg) (enc_opt nq_arg)
    = if String.eqb f NF_PERSISTENT
      then match match_local_id d u spq_arg nq_arg with
           | Err e => PExc (exc_name e)
           | Ok (Some n) => enc_nid n
           | Ok None => issue_call (enc_self cfg d) u (snd (issue cfg d u f spq_arg nq_arg fresh))
           end
      else issue_call (enc_self cfg d) u (snd (issue cfg d u f spq_arg nq_arg fresh)).
  Proof.
    intros cfg d u f sa qa Hd. unfold src2_get_nameid. cbv zeta.
    (* the issuing path, reached from two places *)
    match goal with
    | |- match p2_branch _ with BTrue => _ | BFalse => ?I | BExc _ => _ | BErr => _ end = _ =>
        assert (HI : I = issue_call (enc_self cfg d) u (snd (issue cfg d u f sa qa fresh)))
    end.
    { rewrite (call3_good (create_ (enc_self cfg d))) by (apply enc_opt_good || reflexivity).
      rewrite create_answers. cbn [py_bind]. rewrite p2_eq_str, p2_branch_bool.
      change (p2_attr (enc_self cfg d) "domain") with (PStr (domain cfg)).
      unfold issue, final_text. change NF_EMAIL with "urn:oasis:names:tc:SAML:1.1:nameid-format:emailAddress".
      destruct (String.eqb f "urn:oasis:names:tc:SAML:1.1:nameid-format:emailAddress"); cbn [andb].
      - destruct (domain cfg) as [|c0 r0] eqn:Ed; [reflexivity|].
        cbn [is_empty_str p2_not s1 py_bind py_truthy is_empty negb p2_branch p2_str p2_fconcat snd issue_call].
        rewrite append_nil_r. destruct sa, qa; reflexivity.
      - destruct sa, qa; reflexivity. }
    rewrite p2_eq_str, p2_branch_bool. change NF_PERSISTENT with "urn:oasis:names:tc:SAML:2.0:nameid-format:persistent".
    destruct (String.eqb f "urn:oasis:names:tc:SAML:2.0:nameid-format:persistent"); [|exact HI].
    rewrite (call3_good (src2_match_local_id decode_ (enc_self cfg d))) by (apply enc_opt_good || reflexivity).
    rewrite (src2_match_local_id_is_model decode_ decode_is_model) by exact Hd.
    destruct (match_local_id d u sa qa) as [[n|]|e]; cbn [enc_res py_bind]; [reflexivity| |reflexivity].
    change (p2_branch PNone) with BFalse. cbv iota.
    (* the continuation was entered with nameid = None: the same issuing path *)
    etransitivity; [|exact HI]. reflexivity.
  Qed.

  (* with a store() that answers None, the handler answers as the model *)
  Hypothesis store_answers_none : forall self u n, store_ self (PStr u) (enc_nid n) = PNone.

  Theorem src2_get_nameid_answer : forall cfg d u f spq_arg nq_arg,
    db_ok d = true ->
    src2_get_nameid decode_ create_ store_ (enc_self cfg d) (PStr u) (PStr f) (enc_opt spq_arg) (enc_opt nq_arg)
    = enc_out (snd (get_nameid cfg d u f spq_arg nq_arg fresh)).
  Proof.
    intros cfg d u f sa qa Hd. rewrite src2_get_nameid_is_model by exact Hd. unfold get_nameid.
    assert (HI : issue_call (enc_self cfg d) u (snd (issue cfg d u f sa qa fresh)) = enc_out (snd (issue cfg d u f sa qa fresh))).
    { destruct (snd (issue cfg d u f sa qa fresh)); try reflexivity. cbn [issue_call]. rewrite store_answers_none. reflexivity. }
    destruct (String.eqb f NF_PERSISTENT); [|exact HI].
    destruct (match_local_id d u sa qa) as [[n|]|e]; [reflexivity|exact HI|reflexivity].
  Qed.

  (* 8b. transient_nameid / persistent_nameid: which format is asked for, and the early answer of a stored identifier *)
  Theorem src2_transient_nameid_answer : forall cfg d u spq_arg nq_arg,
    db_ok d = true ->
    src2_transient_nameid decode_ create_ store_ (enc_self cfg d) (PStr u) (enc_opt spq_arg) (enc_opt nq_arg)
    = enc_out (snd (transient_nameid cfg d u spq_arg nq_arg fresh)).
  Proof.
    intros cfg d u sa qa Hd. unfold src2_transient_nameid, transient_nameid.
    cbn [py_bind].
    rewrite (py_bind_good (enc_opt sa)) by apply enc_opt_good. cbv beta.
    rewrite (py_bind_good (enc_opt qa)) by apply enc_opt_good. cbv beta.
    apply (src2_get_nameid_answer cfg d u NF_TRANSIENT sa qa Hd).
  Qed.

  Theorem src2_persistent_nameid_answer : forall cfg d u spq_arg nq_arg,
    db_ok d = true ->
    src2_persistent_nameid decode_ create_ store_ (enc_self cfg d) (PStr u) (enc_opt spq_arg) (enc_opt nq_arg)
    = enc_out (snd (persistent_nameid cfg d u spq_arg nq_arg fresh)).
  Proof.
    intros cfg d u sa qa Hd. unfold src2_persistent_nameid, persistent_nameid. cbv zeta.
    rewrite (call3_good (src2_match_local_id decode_ (enc_self cfg d))) by (apply enc_opt_good || reflexivity).
    rewrite (src2_match_local_id_is_model decode_ decode_is_model) by exact Hd.
    destruct (match_local_id d u sa qa) as [[n|]|e]; cbn [enc_res py_bind]; [reflexivity| |reflexivity].
    change (p2_branch PNone) with BFalse. cbv iota.
    cbn [py_bind].
    rewrite (py_bind_good (enc_opt sa)) by apply enc_opt_good. cbv beta.
    rewrite (py_bind_good (enc_opt qa)) by apply enc_opt_good. cbv beta.
    apply (src2_get_nameid_answer cfg d u NF_PERSISTENT sa qa Hd).
  Qed.
End GetNameid.

Example get_nameid_hypotheses_satisfiable :
  let create_ex := fun _ _ _ _ : pyval => PStr "fresh" in
  (forall s, decode_ex (PStr s) = enc_decoded (decode s))
  /\ (forall self f q s, create_ex self f q s = PStr "fresh")
  /\ (forall self u n, store_ex self (PStr u) (enc_nid n) = PNone)
  /\ src2_get_nameid decode_ex create_ex store_ex (enc_self ex_cfg2 ex_db) (PStr "alice") (PStr NF_EMAIL) (PStr "sp") PNone
     = enc_nid (mkN None (Some "sp") (Some NF_EMAIL) None (Some "fresh@example.org"))
  /\ src2_get_nameid decode_ex create_ex store_ex (enc_self ex_cfg2 ex_db) (PStr "alice") (PStr NF_PERSISTENT) (PStr "sp") PNone
     = enc_nid ex_nid.
Proof. cbv zeta. repeat split; vm_compute; reflexivity. Qed.

(* ================================================================================================== *)
(* 9. decode(txt).  The embedding refuses (PErr) what it does not model: find() on a non-ASCII str and int() on
      an index field with whitespace, '_', '+' or a non-ASCII character — so the theorem is about ASCII input
      whose two-field parts have a plain index field ([decodable]; everything code() produces is of this form:
      quote() leaves only ASCII, the index is a digit).  Everything else of Model.decode is covered: parts without
      '=', parts with two or more '=' (ValueError), non-numeric / negative / out-of-range indexes, unquote. *)

Definition part_ok (p : string) : bool :=
  match split_on eq_char p with [i; _] => negb (any_char int_odd i) | _ => true end.
Definition decodable (s : string) : bool :=
  all_ascii s && forallb part_ok (split_on comma_char s).

Lemma code_ncode c : Str.code c = N.to_nat (ncode c).
Proof. reflexivity. Qed.

Lemma digit_agree c : is_digit c = true -> digit_val c = Some (Z.of_nat (Str.code c - 48)).
Proof.
  unfold is_digit, digit_val, between. rewrite code_ncode. intros H. apply andb_true_iff in H as [H1 H2].
  apply Nat.leb_le in H1, H2.
  assert (E : ((48 <=? ncode c)%N && (ncode c <=? 57)%N) = true) by (apply andb_true_iff; split; apply N.leb_le; lia).
  rewrite E. f_equal. lia.
Qed.

Lemma digit_none c : is_digit c = false -> digit_val c = None.
Proof.
  unfold is_digit, digit_val, between. rewrite code_ncode. intros H.
  assert (E : ((48 <=? ncode c)%N && (ncode c <=? 57)%N) = false).
  { apply andb_false_iff. apply andb_false_iff in H as [H|H]; [left|right]; apply N.leb_gt; apply Nat.leb_gt in H; lia. }
  rewrite E. reflexivity.
Qed.

Lemma digits_val_nonneg s : forall acc, (0 <= acc)%Z -> (0 <= digits_val acc s)%Z.
Proof. induction s as [|c r IH]; intros acc H; cbn [digits_val]; [exact H|]. apply IH. lia. Qed.

Lemma int_digits_all s : forall acc acc', (0 <= acc')%Z -> acc = Z.min 100 acc' -> all_chars is_digit s = true ->
  int_digits acc s = Some (Z.min 100 (digits_val acc' s)).
Proof.
  induction s as [|c r IH]; intros acc acc' H0 Hacc Hall; cbn [int_digits digits_val all_chars] in *.
  - rewrite Hacc. reflexivity.
  - apply andb_true_iff in Hall as [Hc Hr]. rewrite (digit_agree c Hc).
    apply IH; [lia| |exact Hr]. subst acc. lia.
Qed.

Lemma odd_parts c : int_odd c = false ->
  is_ws c = false /\ is_underscore c = false /\ Ascii.eqb c "+"%char = false.
Proof.
  unfold int_odd, is_underscore. intros H. apply orb_false_iff in H as [H Hp]. apply orb_false_iff in H as [H Hu].
  apply orb_false_iff in H as [Hw _]. auto.
Qed.

Lemma int_digits_not s : forall acc, any_char int_odd s = false -> all_chars is_digit s = false -> int_digits acc s = None.
Proof.
  induction s as [|c r IH]; intros acc Hodd Hall; cbn [int_digits all_chars any_char] in *; [discriminate|].
  apply orb_false_iff in Hodd as [Hc Hr]. destruct (is_digit c) eqn:Ed.
  - rewrite (digit_agree c Ed). apply IH; assumption.
  - rewrite (digit_none c Ed). destruct (odd_parts c Hc) as [_ [-> _]]. reflexivity.
Qed.

Lemma int_unsigned_spec s : any_char int_odd s = false ->
  int_unsigned s = if negb (is_empty s) && all_chars is_digit s then Some (Z.min 100 (digits_val 0 s)) else None.
Proof.
  destruct s as [|c r]; [reflexivity|]. intros Hodd. cbn [int_unsigned is_empty negb andb all_chars digits_val].
  cbn [any_char] in Hodd. apply orb_false_iff in Hodd as [Hc Hr]. destruct (is_digit c) eqn:Ed; cbn [andb].
  - rewrite (digit_agree c Ed). destruct (all_chars is_digit r) eqn:Er.
    + apply int_digits_all; [lia| |exact Er]. assert (H := Nat.le_0_l (Str.code c - 48)).
      unfold is_digit in Ed. apply andb_true_iff in Ed as [_ E2]. apply Nat.leb_le in E2. lia.
    + apply int_digits_not; assumption.
  - rewrite (digit_none c Ed). reflexivity.
Qed.

Lemma cspace_ws c : is_ws c = false -> is_cspace c = false.
Proof.
  unfold is_ws, is_cspace, between. rewrite code_ncode. intros H. apply orb_false_iff in H as [H1 H2].
  apply orb_false_iff. split.
  - apply andb_false_iff. apply andb_false_iff in H1 as [H|H]; [left|right]; apply N.leb_gt; apply Nat.leb_gt in H; lia.
  - apply N.eqb_neq. intros E. rewrite E in H2. discriminate.
Qed.

Lemma strip_c_id s : any_char int_odd s = false -> rstrip_c (lstrip_c s) = s.
Proof.
  intros H. assert (Hl : lstrip_c s = s).
  { destruct s as [|c r]; [reflexivity|]. cbn [any_char] in H. apply orb_false_iff in H as [Hc _].
    cbn [lstrip_c]. rewrite (cspace_ws c (proj1 (odd_parts c Hc))). reflexivity. }
  rewrite Hl. induction s as [|c r IH]; [reflexivity|]. cbn [any_char] in H. apply orb_false_iff in H as [Hc Hr].
  cbn [rstrip_c]. rewrite (cspace_ws c (proj1 (odd_parts c Hc))). cbn [andb]. rewrite IH; [reflexivity|exact Hr|].
  destruct r as [|c2 r2]; [reflexivity|]. cbn [any_char] in Hr. apply orb_false_iff in Hr as [Hc2 _].
  cbn [lstrip_c]. rewrite (cspace_ws c2 (proj1 (odd_parts c2 Hc2))). reflexivity.
Qed.

(* int(): the embedding's parser on a plain literal *)
Lemma int_of_str_cons c r :
  int_of_str (String c r)
  = if any_char int_odd (String c r) then PErr
    else if Ascii.eqb c "-"%char
         then (if negb (is_empty r) && all_chars is_digit r then PInt (- digits_val 0 r) else PExc "ValueError")
         else (if all_chars is_digit (String c r) then PInt (digits_val 0 (String c r)) else PExc "ValueError").
Proof.
  unfold int_of_str. destruct (any_char int_odd (String c r)); [reflexivity|].
  destruct c as [[] [] [] [] [] [] [] []]; reflexivity.
Qed.

Definition clamp (z : Z) : Z := if (z <? 0)%Z then (- Z.min 100 (- z))%Z else Z.min 100 z.

Lemma int_agree i : any_char int_odd i = false ->
  (exists z, int_of_str i = PInt z /\ py_int i = Some (clamp z))
  \/ (int_of_str i = PExc "ValueError" /\ py_int i = None).
Proof.
  intros Hodd. unfold py_int. rewrite (strip_c_id i Hodd). destruct i as [|c r]; [right; split; reflexivity|].
  rewrite int_of_str_cons, Hodd. assert (Hodd' := Hodd). cbn [any_char] in Hodd'.
  apply orb_false_iff in Hodd' as [Hc Hr]. destruct (odd_parts c Hc) as [_ [_ Hplus]]. rewrite Hplus.
  destruct (Ascii.eqb c "-"%char).
  - rewrite (int_unsigned_spec r Hr). destruct (negb (is_empty r) && all_chars is_digit r).
    + left. exists (- digits_val 0 r)%Z. split; [reflexivity|]. cbn [option_map]. f_equal. unfold clamp.
      assert (H := digits_val_nonneg r 0%Z (Z.le_refl 0)). destruct (- digits_val 0 r <? 0)%Z eqn:E.
      * rewrite Z.opp_involutive. reflexivity.
      * apply Z.ltb_ge in E. assert (digits_val 0 r = 0)%Z by lia. rewrite H0. reflexivity.
    + right. split; reflexivity.
  - rewrite (int_unsigned_spec (String c r) Hodd). cbn [is_empty negb andb].
    destruct (all_chars is_digit (String c r)).
    + left. exists (digits_val 0 (String c r)). split; [reflexivity|]. f_equal. unfold clamp.
      assert (H := digits_val_nonneg (String c r) 0%Z (Z.le_refl 0)).
      destruct (digits_val 0 (String c r) <? 0)%Z eqn:E; [apply Z.ltb_lt in E; lia|reflexivity].
    + right. split; reflexivity.
Qed.

(* find("=") against split("=") *)
Lemma find_split c s :
  match find_sub (String c EmptyString) s with
  | None => split_on c s = [s]
  | Some _ => (2 <= length (split_on c s))%nat
  end.
Proof.
  induction s as [|d r IH]; [reflexivity|]. cbn [find_sub split_on]. rewrite prefix_char.
  destruct (Ascii.eqb d c).
  - cbn [length]. assert (H := split_on_nonempty c r). destruct (split_on c r); [contradiction|cbn [length]; lia].
  - destruct (find_sub (String c EmptyString) r); cbn [option_map].
    + destruct (split_on c r) as [|f fs]; [cbn [length] in IH; lia|exact IH].
    + rewrite IH. reflexivity.
Qed.

Lemma all_chars_split (p : ascii -> bool) c s :
  all_chars p s = true -> forallb (all_chars p) (split_on c s) = true.
Proof.
  induction s as [|d r IH]; [reflexivity|]. cbn [all_chars split_on]. intros H. apply andb_true_iff in H as [Hd Hr].
  specialize (IH Hr). destruct (Ascii.eqb d c); [exact IH|].
  destruct (split_on c r) as [|f fs]; cbn [forallb all_chars] in *; [rewrite Hd; reflexivity|].
  apply andb_true_iff in IH as [Hf Hfs]. rewrite Hd, Hf, Hfs. reflexivity.
Qed.

(* setattr(_nid, ATTR[k], v) for an index the list has; IndexError otherwise *)
Definition ATTR_v : pyval :=
  PList [PStr "name_qualifier"; PStr "sp_name_qualifier"; PStr "format"; PStr "sp_provided_id"; PStr "text"].

Lemma index_cases z :
  (z < -5 \/ 4 < z)%Z \/ z = (-5)%Z \/ z = (-4)%Z \/ z = (-3)%Z \/ z = (-2)%Z \/ z = (-1)%Z
  \/ z = 0%Z \/ z = 1%Z \/ z = 2%Z \/ z = 3%Z \/ z = 4%Z.
Proof. lia. Qed.

Lemma attr_out_of_range z : (z < -5 \/ 4 < z)%Z -> p2_getitem ATTR_v (PInt z) = PExc "IndexError".
Proof.
  intros H. cbn [ATTR_v p2_getitem s2 py_bind as_z length]. unfold nth_index.
  destruct (z <? 0)%Z eqn:E.
  - apply Z.ltb_lt in E. assert (E2 : ((0 <=? z + Z.of_nat 5) && (z + Z.of_nat 5 <? Z.of_nat 5))%Z = false).
    { apply andb_false_iff. left. apply Z.leb_gt. lia. }
    rewrite E2. reflexivity.
  - apply Z.ltb_ge in E. assert (E2 : ((0 <=? z) && (z <? Z.of_nat 5))%Z = false).
    { apply andb_false_iff. right. apply Z.ltb_ge. lia. }
    rewrite E2. reflexivity.
Qed.

Lemma set_field_out z v n :
  (let k := if (z <? 0)%Z then (z + 5)%Z else z in (k < 0 \/ 4 < k)%Z) -> set_field z v n = n.
Proof.
  unfold set_field. cbv zeta. generalize (if (z <? 0)%Z then (z + 5)%Z else z). intros k Hk.
  destruct k as [|q|q]; [lia| |reflexivity].
  do 3 (try match goal with q : positive |- _ => destruct q end); try reflexivity; lia.
Qed.

Lemma set_field_out_of_range z v n : (z < -5 \/ 4 < z)%Z -> set_field (clamp z) v n = n.
Proof.
  intros H. apply set_field_out. cbv zeta. unfold clamp.
  destruct (z <? 0)%Z eqn:E; [apply Z.ltb_lt in E|apply Z.ltb_ge in E];
    match goal with |- context [(?a <? 0)%Z] => destruct (a <? 0)%Z eqn:E2; [apply Z.ltb_lt in E2|apply Z.ltb_ge in E2] end; lia.
Qed.

Lemma setattr_in_range z v n :
  (-5 <= z <= 4)%Z ->
  exists name, p2_getitem ATTR_v (PInt z) = PStr name
               /\ p2_setattr_dyn (enc_nid n) (PStr name) (PStr v) = enc_nid (set_field (clamp z) v n).
Proof.
  intros H. destruct (index_cases z) as [Ho|Hc]; [lia|].
  repeat (destruct Hc as [->|Hc]; [eexists; split; reflexivity|]). subst z. eexists; split; reflexivity.
Qed.

Theorem src2_decode_is_model : forall txt,
  decodable txt = true -> src2_decode unquote_f (PStr txt) = enc_decoded (decode txt).
Proof.
  intros txt Hdec. unfold decodable in Hdec. apply andb_true_iff in Hdec as [Hascii Hparts].
  unfold src2_decode, decode. cbv zeta. cbn [py_bind].
  change (p2_split (PStr txt) (PStr ",")) with (PList (map PStr (split_str (String comma_char EmptyString) txt))).
  rewrite split_str_char, p2_iter_check_list. cbn [py_bind py_iter2].
  assert (Hasc : forallb all_ascii (split_on comma_char txt) = true) by (apply all_chars_split, Hascii).
  change (PObj [("__class__", PStr "NameID"); ("name_qualifier", PNone); ("sp_name_qualifier", PNone); ("format", PNone);
                ("sp_provided_id", PNone); ("text", PNone)]) with (enc_nid empty_nid).
  match goal with |- context [pyfor2 _ _ ?B] => set (body := B) end.
  assert (Hstep : forall a b n part,
             all_ascii part = true -> part_ok part = true ->
             exists a' b',
               body [a; b; enc_nid n] (PStr part)
               = match split_on eq_char part with
                 | [_] => NextS [a'; b'; enc_nid n]
                 | [i; v] => NextS [a'; b'; enc_nid (match py_int i with Some z => set_field z (unquote_f v) n | None => n end)]
                 | _ => ExcS "ValueError" [a'; b'; enc_nid n]
                 end).
  { intros a b n part Hpa Hpo. subst body. cbv beta iota zeta.
    cbn [p2_find s2 py_bind]. rewrite Hpa. change (all_ascii "=") with true. cbn [andb].
    assert (Hfs := find_split eq_char part). change (String eq_char EmptyString) with "=" in Hfs.
    destruct (find_sub "=" part) as [k|].
    - assert (E : p2_branch (p2_ne (PInt (Z.of_nat k)) (PInt (-1))) = BTrue).
      { cbn. destruct (Z.of_nat k =? -1)%Z eqn:E; [apply Z.eqb_eq in E; lia|reflexivity]. }
      rewrite E.
      change (p2_split (PStr part) (PStr "=")) with (PList (map PStr (split_str (String eq_char EmptyString) part))).
      rewrite split_str_char. unfold part_ok in Hpo.
      destruct (split_on eq_char part) as [|i [|v [|w rest]]]; cbn [length] in Hfs; try lia.
      + cbn [map py_bindS p2_bind p2_unpack length Nat.eqb].
        apply negb_true_iff in Hpo. change (PList [PStr "name_qualifier"; PStr "sp_name_qualifier"; PStr "format"; PStr "sp_provided_id"; PStr "text"]) with ATTR_v.
        change (p2_int (PStr i)) with (int_of_str i).
        destruct (int_agree i Hpo) as [[z [Hz Hm]]|[Hz Hm]]; rewrite Hz, Hm.
        * destruct (index_cases z) as [Ho|Hc].
          -- rewrite (attr_out_of_range z Ho), (set_field_out_of_range z _ n Ho). exists (PStr i), (PStr v). reflexivity.
          -- destruct (setattr_in_range z (unquote_f v) n) as [name [Hn Hs]]; [lia|].
             rewrite Hn. cbn [py_bindS p2_bind py_bind]. rewrite Hs. exists (PStr i), (PStr v). reflexivity.
        * exists (PStr i), (PStr v). reflexivity.
      + exists a, b. reflexivity.
    - rewrite Hfs. exists a, b. reflexivity. }
  clearbody body.
  assert (Hloop : forall ps a b n,
             forallb all_ascii ps = true -> forallb part_ok ps = true ->
             exists a' b',
               pyfor2 (map PStr ps) [a; b; enc_nid n] body
               = match decode_parts ps n with
                 | Some m => NextS [a'; b'; enc_nid m]
                 | None => ExcS "ValueError" [a'; b'; enc_nid n]
                 end
               \/ (decode_parts ps n = None /\ exists m, pyfor2 (map PStr ps) [a; b; enc_nid n] body = ExcS "ValueError" [a'; b'; enc_nid m])).
  { induction ps as [|part r IH]; intros a b n Ha Hp; cbn [map pyfor2 decode_parts].
    - exists a, b. left. reflexivity.
    - cbn [forallb] in Ha, Hp. apply andb_true_iff in Ha as [Ha1 Ha2]. apply andb_true_iff in Hp as [Hp1 Hp2].
      destruct (Hstep a b n part Ha1 Hp1) as [a1 [b1 E]]. rewrite E.
      destruct (split_on eq_char part) as [|i [|v [|w rest]]].
      + exists a1, b1. right. split; [reflexivity|]. exists n. reflexivity.
      + destruct (IH a1 b1 n Ha2 Hp2) as [a2 [b2 [H|[H1 [m H2]]]]]; exists a2, b2.
        * destruct (decode_parts r n); [left; exact H|right; split; [reflexivity|]; exists n; exact H].
        * right. split; [exact H1|]. exists m. exact H2.
      + destruct (IH a1 b1 (match py_int i with Some z => set_field z (unquote_f v) n | None => n end) Ha2 Hp2)
          as [a2 [b2 [H|[H1 [m H2]]]]]; exists a2, b2.
        * destruct (decode_parts r _) eqn:Er; [left; exact H|right; split; [reflexivity|]; eexists; exact H].
        * right. split; [exact H1|]. exists m. exact H2.
      + exists a1, b1. right. split; [reflexivity|]. exists n. reflexivity. }
  destruct (Hloop (split_on comma_char txt) PErr PErr empty_nid Hasc Hparts) as [a' [b' [H|[H1 [m H2]]]]].
  - rewrite H. destruct (decode_parts (split_on comma_char txt) empty_nid); reflexivity.
  - rewrite H2, H1. reflexivity.
Qed.

(* That every output of code() is [decodable] is NOT proved here (it needs "quote_f leaves only ASCII and neither ','
   nor '='"); the correspondence runs decode on code's output for every generated identifier. *)
Example decode_domain_nonempty :
  decodable ("1=sp,2=" ++ quote_f NF_PERSISTENT ++ ",4=a%20b,x,-1=y,7=z") = true
  /\ src2_decode unquote_f (PStr ("1=sp,2=" ++ quote_f NF_PERSISTENT ++ ",4=a%20b,x,-1=y,7=z"))
     = enc_nid (mkN None (Some "sp") (Some NF_PERSISTENT) None (Some "y"))
  /\ decodable "0=a=b" = true /\ src2_decode unquote_f (PStr "0=a=b") = PExc "ValueError".
Proof. repeat split; vm_compute; reflexivity. Qed.
