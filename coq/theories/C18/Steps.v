(* C18/Steps.v — one step of the model from a state that satisfies the invariant, under the
   hypotheses of the property (wf_event) and the guard single_valued_event: what the step does
   (outcome), that it keeps the invariant, what it does to the tracked facts, and what a request for
   an identifier answers. *)
From Coq Require Import String Ascii List Bool Arith Lia.
From Verif Require Import Base.Str Base.Percent C18.Model C18.Spec C18.Codec C18.Maps C18.Plan C18.Reflect C18.Inv.
Import ListNotations.
Open Scope string_scope.

Lemma filter_all {A} (p : A -> bool) l : (forall x, In x l -> p x = true) -> filter p l = l.
Proof.
  induction l as [|a r IH]; cbn [filter]; [reflexivity|]. intros H.
  rewrite (H a (or_introl eq_refl)), IH; [reflexivity|]. intros x Hx. apply H. right; exact Hx.
Qed.

Lemma store_db_changes d u n t :
  (forall v x, lookup u d = Some v -> In x (elements v) -> x <> "") -> t <> u -> ~ same_map (store_db d u n t) d.
Proof.
  intros Hne Htu H. specialize (H u). rewrite store_db_fw in H.
  rewrite lookup_set_neq in H by congruence. rewrite lookup_set_eq in H.
  unfold fw in H. destruct (lookup u d) as [v|] eqn:E; [|discriminate].
  rewrite filter_all in H by (intros x Hx; apply nonempty_iff; apply (Hne v x eq_refl Hx)).
  assert (H1 : join " " (elements v ++ [code n]) = v) by congruence.
  rewrite join_app_last in H1 by apply elements_nonempty. rewrite join_elements in H1.
  assert (Hl : String.length (v ++ " " ++ code n) = String.length v) by (rewrite H1; reflexivity).
  rewrite !slength_app in Hl. cbn [String.length] in Hl. lia.
Qed.

Lemma manage_target_view n newid enc term n' :
  manage_target n newid enc term = Some n' ->
  nq n' = nq n /\ spq n' = spq n /\ fmt n' = fmt n /\ txt n' = txt n.
Proof.
  unfold manage_target. destruct newid as [x|].
  - intros E. inversion E; subst. cbn. auto.
  - destruct enc; [intros E; inversion E; subst; auto|].
    destruct term; [|discriminate]. intros E. inversion E; subst. cbn. auto.
Qed.

Lemma decode_all_in l : forall r m, decode_all l = Ok r -> In m r -> exists c, In c l /\ decode c = Some m.
Proof.
  induction l as [|c0 l IH]; intros r m; cbn [decode_all].
  - intros E. inversion E; subst. intros [].
  - destruct (decode c0) as [m0|] eqn:Ed; [|discriminate].
    destruct (decode_all l) as [r0|e]; [|discriminate]. intros E. inversion E; subst.
    intros [<-|Hm].
    + exists c0. split; [left; reflexivity|exact Ed].
    + destruct (IH r0 m eq_refl Hm) as (c & Hc & Hd). exists c. split; [right; exact Hc|exact Hd].
Qed.

Lemma mapping_scan_some l p m : mapping_scan l p = Ok (Some m) -> exists c, In c l /\ decode c = Some m.
Proof.
  induction l as [|c0 l IH]; cbn [mapping_scan]; [discriminate|].
  destruct (decode c0) as [m0|] eqn:Ed; [|discriminate].
  destruct (eq_arg (fmt m0) (pfmt p) && eq_arg (spq m0) (pspq p)).
  - intros E. inversion E; subst. exists c0. split; [left; reflexivity|exact Ed].
  - intros E. destruct (IH E) as (c & Hc & Hd). exists c. split; [right; exact Hc|exact Hd].
Qed.

Section Steps.
  Variable cfg : config.
  Variable is_user : string -> bool.

  Notation Inv := (Inv is_user).
  Notation Owner := (Owner is_user).
  Notation wf_event := (wf_event cfg is_user).

  Definition ev (d : db) (o : op) : event :=
    {| e_op := o; e_out := snd (step cfg d o); e_pre := d; e_post := fst (step cfg d o) |}.

  Lemma mtrace_cons d o r : mtrace cfg d (o :: r) = ev d o :: mtrace cfg (fst (step cfg d o)) r.
  Proof. cbn [mtrace]. unfold ev. destruct (step cfg d o) as [d' x]. reflexivity. Qed.

  Lemma step_fst d o : fst (step cfg d o) = apply_action d (fst (plan cfg d o)).
  Proof. rewrite step_plan. reflexivity. Qed.

  Lemma step_snd d o : snd (step cfg d o) = snd (plan cfg d o).
  Proof. rewrite step_plan. reflexivity. Qed.

  Lemma cand_mentions o t : In t (cand cfg o) -> In t (mentions cfg o).
  Proof. intros H. unfold mentions. apply in_app_iff. left. exact H. Qed.

  Lemma nid_mentions o n t : arg_nid o = Some n -> txt n = Some t -> In t (mentions cfg o).
  Proof. intros H1 H2. unfold mentions. apply in_app_iff. right. rewrite H1, H2. left. reflexivity. Qed.

  (* an identifier value that is stored by an issuing operation is fresh *)
  Lemma wf_store_fresh seen d o u n t :
    Inv seen d -> wf_event seen (ev d o) -> fst (plan cfg d o) = AStore u n t -> is_user u = true -> In t (cand cfg o) ->
    t <> "" /\ is_user t = false /\ ~ In t seen.
  Proof.
    intros HI (_ & _ & _ & H4 & H5) Hp Hu Hc. unfold ev in H4, H5. cbn [e_op e_post e_pre] in H4, H5.
    assert (Htu : is_user t = false) by (apply H4; exact Hc).
    destruct H5 as [H5|H5].
    - exfalso. rewrite step_fst, Hp in H5. cbn [apply_action] in H5.
      apply (store_db_changes d u n t); [|intros ->; congruence|exact H5].
      intros v x Hv Hx. apply (inv_noempty _ _ _ HI u v x Hu Hv Hx).
    - destruct (H5 t Hc). auto.
  Qed.

  (* ---------------------------------------------------------------- what a step does *)
  Inductive outcome (seen : list string) (d : db) (o : op) : db -> out -> Prop :=
  | OcNone x :
      (forall t, In (Some t) (out_texts x) -> In t (seen ++ mentions cfg o)) ->
      outcome seen d o d x
  | OcStore u n t x :
      is_user u = true -> txt n = Some t -> t <> "" -> is_user t = false -> ~ In t seen ->
      In t (cand cfg o) -> single_cond d u n -> (x = ONone \/ x = ONid n) ->
      outcome seen d o (store_db d u n t) x
  | OcRemove n t d1 :
      o = RemoveRemote n -> remove_remote d n = Ok d1 -> txt n = Some t -> is_user t = false ->
      outcome seen d o d1 ONone
  | OcManage n n' id t d1 newid enc term :
      o = Manage n newid enc term -> remove_remote d n = Ok d1 -> txt n = Some t -> txt n' = Some t ->
      lookup t d = Some id -> is_user t = false -> nq n' = nq n -> spq n' = spq n -> fmt n' = fmt n ->
      outcome seen d o (store_db d1 id n' t) (ONid n').

  Lemma match_none_single d u s q :
    match_local_id d u s q = Ok None ->
    forall c, In c (fw d u) -> pers c = true -> ckey c <> (normo s, normo q).
  Proof.
    intros Hm c Hc Hn Hk. destruct (fw_in_elements d u c Hc) as (v & Hv & Hin & _).
    unfold match_local_id in Hm. rewrite Hv in Hm.
    destruct (first_match_none _ _ _ Hm c Hin) as (m & Hd & Hcase).
    unfold pers in Hn. unfold ckey in Hk. rewrite Hd in Hn, Hk.
    destruct Hcase as [Ht|Hnm].
    - rewrite Ht in Hn. discriminate.
    - inversion Hk as [[H1 H2]]. assert (Hx : nid_matches m s q = true) by (apply nid_matches_iff; auto).
      congruence.
  Qed.

  Lemma match_some_stored d u s q m :
    match_local_id d u s q = Ok (Some m) ->
    exists v c, lookup u d = Some v /\ In c (elements v) /\ decode c = Some m
                /\ eq_arg (fmt m) (Some NF_PERSISTENT) = true /\ nid_matches m s q = true.
  Proof.
    unfold match_local_id. destruct (lookup u d) as [v|]; [|discriminate]. intros H.
    destruct (first_match_some _ _ _ _ H) as (c & H1 & H2 & H3 & H4). exists v, c. auto.
  Qed.

  (* a request for (u, f, s, q), whichever operation makes it *)
  Lemma get_outcome seen d o u f s q fr :
    Inv seen d -> wf_event seen (ev d o) -> is_user u = true ->
    plan cfg d o = plan_get cfg d u f s q fr -> cand cfg o = [final_text cfg f fr] ->
    outcome seen d o (apply_action d (fst (plan cfg d o))) (snd (plan cfg d o)).
  Proof.
    intros HI Hwf Hu Hp Hcand. destruct (plan_get cfg d u f s q fr) as [a x] eqn:Eg.
    destruct (plan_get_cases cfg d u f s q fr a x Eg) as [[-> [e ->]]|[(-> & Hf & m & Hm & ->)|(-> & -> & Hpm)]].
    - rewrite Hp. cbn [fst snd apply_action]. apply OcNone. intros t [].
    - rewrite Hp. cbn [fst snd apply_action]. apply OcNone. cbn [out_texts]. intros t [E|[]].
      destruct (match_some_stored d u s q m Hm) as (v & c & Hv & Hc & Hd & _).
      apply in_app_iff. left. apply (stored_text_seen is_user seen d u v c m t HI Hu Hv Hc Hd). congruence.
    - assert (Hin : In (final_text cfg f fr) (cand cfg o)) by (rewrite Hcand; left; reflexivity).
      assert (Hp1 : fst (plan cfg d o) = AStore u (mkN q s (Some f) None (Some (final_text cfg f fr))) (final_text cfg f fr))
        by (rewrite Hp; reflexivity).
      destruct (wf_store_fresh seen d o u _ _ HI Hwf Hp1 Hu Hin) as (Hne & Htu & Hns).
      rewrite Hp. cbn [fst snd apply_action]. apply OcStore; auto.
      intros Hnt c Hc Hcn. rewrite ckey_code. cbn [spq nq].
      rewrite pers_code in Hnt. cbn [fmt eq_arg opt_eqb] in Hnt. apply String.eqb_eq in Hnt.
      apply (match_none_single d u s q); [|exact Hc|exact Hcn]. apply Hpm. exact Hnt.
  Qed.

  Lemma request_user seen d o u f s q :
    wf_event seen (ev d o) -> request_of cfg o = Some (u, f, s, q) -> is_user u = true.
  Proof.
    intros (W1 & _) Hr. apply W1. unfold ev; cbn [e_op].
    destruct o; cbn [request_of] in Hr; try discriminate; cbn [arg_user].
    - inversion Hr; reflexivity.
    - inversion Hr; reflexivity.
    - inversion Hr; reflexivity.
    - destruct (resolve cfg lp spq_arg pol nq_arg) as [[[f0 s0] q0]|e]; [|discriminate]. inversion Hr; reflexivity.
  Qed.

  Lemma request_outcome seen d o u f s q :
    Inv seen d -> wf_event seen (ev d o) ->
    request_of cfg o = Some (u, f, s, q) ->
    outcome seen d o (apply_action d (fst (plan cfg d o))) (snd (plan cfg d o)).
  Proof.
    intros HI Hwf Hr. destruct (plan_request cfg d o u f s q Hr) as (fr & Hp & Hc).
    apply (get_outcome seen d o u f s q fr HI Hwf (request_user seen d o u f s q Hwf Hr) Hp Hc).
  Qed.

  Theorem step_outcome seen d o :
    Inv seen d -> wf_event seen (ev d o) ->
    outcome seen d o (fst (step cfg d o)) (snd (step cfg d o)).
  Proof.
    intros HI Hwf. rewrite step_fst, step_snd.
    pose proof Hwf as (W1 & W2 & W3 & W4 & W5). unfold ev in W1, W2, W3, W4. cbn [e_op] in W1, W2, W3, W4.
    destruct o.
    - (* Store *)
      cbn [plan]. destruct (W3 u n eq_refl) as [W3a W3b]. unfold ev in W3b; cbn [e_pre] in W3b.
      destruct (txt n) as [t|] eqn:Et; [|discriminate].
      cbn [fst snd apply_action].
      assert (Hu : is_user u = true) by (apply W1; reflexivity).
      assert (Hin : In t (cand cfg (Store u n))) by (cbn [cand]; rewrite Et; left; reflexivity).
      assert (Hp1 : fst (plan cfg d (Store u n)) = AStore u n t) by (cbn [plan]; rewrite Et; reflexivity).
      destruct (wf_store_fresh seen d _ u n t HI Hwf Hp1 Hu Hin) as (Hne & Htu & Hns).
      apply OcStore; auto.
      intros Hnt c Hc Hcn. rewrite ckey_code. apply (match_none_single d u (spq n) (nq n)); [|exact Hc|exact Hcn].
      apply W3b. rewrite pers_code in Hnt. exact Hnt.
    - (* RemoveRemote *)
      cbn [plan]. destruct (remove_remote d n) as [d1|e] eqn:Er; cbn [fst snd apply_action].
      + rewrite Er. destruct (remove_remote_ok d n d1 Er) as (t & id & Ht & _).
        apply (OcRemove seen d _ n t d1); auto. apply (W2 n t); [reflexivity|exact Ht].
      + apply OcNone. intros t [].
    - (* RemoveLocal *) cbn [plan fst snd apply_action]. apply OcNone. intros t [].
    - (* GetNameid *) apply (request_outcome seen d _ u f spq_arg nq_arg HI Hwf). reflexivity.
    - (* FindNameid *)
      cbn [plan fst snd apply_action]. apply OcNone. unfold find_nameid.
      assert (Hu : is_user u = true) by (apply W1; reflexivity).
      destruct (lookup u d) as [v|] eqn:Ev; [|intros t []].
      destruct (decode_all (elements v)) as [l|e] eqn:Ed; [|intros t []].
      cbn [out_texts]. intros t Hin. apply in_map_iff in Hin as (m & Hm1 & Hm2).
      apply filter_In in Hm2 as [Hm2 _].
      destruct (decode_all_in _ _ m Ed Hm2) as (c & Hc & Hdc).
      apply in_app_iff. left. apply (stored_text_seen is_user seen d u v c m t HI Hu Ev Hc Hdc Hm1).
    - (* MatchLocal *)
      cbn [plan fst snd apply_action]. apply OcNone.
      assert (Hu : is_user u = true) by (apply W1; reflexivity).
      destruct (match_local_id d u spq_arg nq_arg) as [[m|]|e] eqn:Em; try solve [intros ? []].
      cbn [out_texts]. intros t [E|[]].
      destruct (match_some_stored d u _ _ m Em) as (v & c & Hv & Hc & Hd & _).
      apply in_app_iff. left. apply (stored_text_seen is_user seen d u v c m t HI Hu Hv Hc Hd). congruence.
    - (* Persistent *) apply (request_outcome seen d _ u NF_PERSISTENT spq_arg nq_arg HI Hwf). reflexivity.
    - (* Transient *) apply (request_outcome seen d _ u NF_TRANSIENT spq_arg nq_arg HI Hwf). reflexivity.
    - (* Construct *)
      destruct (resolve cfg lp spq_arg pol nq_arg) as [[[f s'] q']|e] eqn:Er.
      + apply (request_outcome seen d _ u f s' q' HI Hwf). cbn [request_of]. rewrite Er. reflexivity.
      + cbn [plan]. unfold plan_construct. rewrite Er. cbn [fst snd apply_action]. apply OcNone. intros t [].
    - (* Mapping *)
      cbn [plan]. unfold plan_mapping.
      destruct (find_local_id d n) as [[|a id]|] eqn:Ef; try solve [cbn [fst snd apply_action]; apply OcNone; intros ? []].
      set (id0 := String a id) in *.
      unfold find_local_id in Ef. destruct (txt n) as [tn|] eqn:Etn; [|discriminate]. cbn [lookup_opt] in Ef.
      assert (Htn : is_user tn = false) by (apply (W2 n tn); [reflexivity|exact Etn]).
      destruct (inv_rev _ _ _ HI tn id0 Htn Ef) as (Hid & _).
      destruct (lookup id0 d) as [v|] eqn:Ev; [|cbn [fst snd apply_action]; apply OcNone; intros t []].
      destruct (mapping_scan (elements v) p) as [[m|]|e] eqn:Es; try solve [cbn [fst snd apply_action]; apply OcNone; intros ? []].
      + cbn [fst snd apply_action]. apply OcNone. cbn [out_texts]. intros t [E|[]].
        destruct (mapping_scan_some _ _ _ Es) as (c & Hc & Hd).
        apply in_app_iff. left. apply (stored_text_seen is_user seen d id0 v c m t HI Hid Ev Hc Hd). congruence.
      + destruct (eq_arg (pallow p) (Some "false")) eqn:Ea; [cbn [fst snd apply_action]; apply OcNone; intros t []|].
        assert (Hpl : plan cfg d (Mapping n p fresh) = plan_construct cfg d id0 None None (Some p) None fresh).
        { cbn [plan]. unfold plan_mapping, find_local_id. rewrite Etn. cbn [lookup_opt]. rewrite Ef.
          unfold id0 in *. rewrite Ev, Es, Ea. reflexivity. }
        rewrite <- Hpl. unfold plan_construct in Hpl.
        destruct (resolve cfg None None (Some p) None) as [[[f s'] q']|e] eqn:Er.
        * apply (get_outcome seen d _ id0 f s' q' fresh HI Hwf Hid Hpl).
          cbn [cand]. rewrite Er. reflexivity.
        * rewrite Hpl. cbn [fst snd apply_action]. apply OcNone. intros t [].
    - (* Manage *)
      cbn [plan]. unfold plan_manage.
      destruct (manage_target n newid enc term) as [n'|] eqn:Em.
      + destruct (remove_remote d n) as [d1|e] eqn:Er; [|cbn [fst snd apply_action]; apply OcNone; intros t []].
        destruct (find_local_id d n) as [id|] eqn:Ef; [|cbn [fst snd apply_action]; apply OcNone; intros t []].
        destruct (txt n') as [t|] eqn:Et'; [|cbn [fst snd apply_action]; apply OcNone; intros t []].
        cbn [fst snd apply_action]. rewrite Er.
        destruct (manage_target_view _ _ _ _ _ Em) as (E1 & E2 & E3 & E4).
        assert (Etn : txt n = Some t) by congruence.
        unfold find_local_id in Ef. rewrite Etn in Ef. cbn [lookup_opt] in Ef.
        apply (OcManage seen d _ n n' id t d1 newid enc term); auto.
        apply (W2 n t); [reflexivity|exact Etn].
      + cbn [fst snd apply_action]. apply OcNone. cbn [out_texts]. intros t [E|[]].
        apply in_app_iff. right. apply (nid_mentions _ n t); [reflexivity|congruence].
    - (* FindLocal *)
      cbn [plan fst snd apply_action]. apply OcNone. destruct (find_local_id d n); intros t [].
    - (* Close *) cbn [plan fst snd apply_action]. apply OcNone. intros t [].
  Qed.

  (* ---------------------------------------------------------------- the invariant is kept *)
  Lemma manage_single seen d n n' id d1 :
    Inv seen d -> is_user id = true -> In (code n) (fw d id) ->
    fw d1 id = remove_first (code n) (fw d id) ->
    nq n' = nq n -> spq n' = spq n -> fmt n' = fmt n -> txt n' = txt n ->
    single_cond d1 id n'.
  Proof.
    intros HI Hid Hin Hfw E1 E2 E3 E4 Hnt c Hc Hcn Hk.
    destruct (code_same_view n n' E1 E2 E3 E4) as (Vk & Vn & Vt).
    rewrite Hfw in Hc. pose proof (in_remove_first _ _ _ Hc) as Hc0.
    assert (c = code n).
    { apply (inv_single _ _ _ HI id c (code n) Hid Hc0 Hin Hcn); congruence. }
    subst c. apply (nodup_remove_first_notin ctext (code n) (code n) (fw d id) (inv_nodup _ _ _ HI id Hid) Hin Hc).
    reflexivity.
  Qed.

  Theorem outcome_inv seen d o d' x :
    Inv seen d -> outcome seen d o d' x -> Inv (seen ++ mentions cfg o) d'.
  Proof.
    intros HI Ho. assert (Hincl : incl seen (seen ++ mentions cfg o)) by (apply incl_appl, incl_refl).
    destruct Ho as [x _|u n t x Hu Ht Hne Htu Hns Hc Hs _|n t d1 -> Hr Ht Htu|n n' id t d1 newid enc term -> Hr Ht Ht' Hl Htu E1 E2 E3].
    - apply (inv_weaken _ _ _ _ HI Hincl).
    - apply (store_inv is_user d u n t Hu Ht Hne Htu seen); auto.
      + apply (inv_fresh _ _ _ _ HI Htu Hns).
      + apply in_app_iff. right. apply cand_mentions. exact Hc.
    - destruct (remove_inv is_user seen d n d1 t HI Hr Ht Htu) as (id & _ & _ & _ & _ & HI1 & _).
      apply (inv_weaken _ _ _ _ HI1 Hincl).
    - destruct (remove_inv is_user seen d n d1 t HI Hr Ht Htu) as (id' & Hl' & Hid & Hin & Hne & HI1 & Hn1 & Hfw & _).
      assert (id' = id) by congruence. subst id'.
      apply (store_inv is_user d1 id n' t Hid Ht' Hne Htu seen); auto.
      + apply in_app_iff. left. apply (inv_keys _ _ _ HI t id Htu Hl).
      + apply (manage_single seen d n n' id d1 HI Hid Hin Hfw E1 E2 E3). congruence.
  Qed.

  (* ---------------------------------------------------------------- the tracked facts *)
  Theorem outcome_track seen d o d' x t u k b :
    Inv seen d -> outcome seen d o d' x -> is_user u = true -> In t seen ->
    (Owner d t u k b -> Owner d' t u k b)
    /\ (Has d u t -> (exists n, o = RemoveRemote n /\ txt n = Some t /\ x = ONone) \/ Has d' u t).
  Proof.
    intros HI Ho Hu Hseen.
    destruct Ho as [x _|u0 n0 t0 x Hu0 Ht0 Hne0 Htu0 Hns0 Hc0 Hs0 _|n0 t0 d1 -> Hr Ht0 Htu0
                   |n0 n' id t0 d1 newid enc term -> Hr Ht0 Ht' Hl Htu0 E1 E2 E3].
    - auto.
    - assert (Hne : t <> t0) by (intros ->; contradiction). split.
      + apply (store_owner is_user d u0 n0 t0 Hu0 Ht0 Hne0 Htu0). exact Hne.
      + intros H. right. apply (store_has is_user d u0 n0 t0 Hu0 Ht0 Hne0 Htu0 u t Hu H).
    - destruct (remove_inv is_user seen d n0 d1 t0 HI Hr Ht0 Htu0) as (id & Hl & Hid & Hin & Hne0 & HI1 & Hn1 & Hfw & Hlk & Hfwo).
      assert (Hsub : forall k0 c, is_user k0 = true -> In c (fw d1 k0) -> In c (fw d k0)).
      { intros k0 c Hk0 Hc. destruct (string_dec k0 id) as [->|Hd].
        - rewrite Hfw in Hc. apply in_remove_first in Hc. exact Hc.
        - rewrite Hfwo in Hc by assumption. exact Hc. }
      split.
      + intros Hown u' c Hu' Hc. apply (Hown u' c Hu' (Hsub u' c Hu' Hc)).
      + intros (c & Hc & Hct). destruct (string_dec t0 t) as [->|Hd].
        * left. exists n0. auto.
        * right. exists c. split; [|exact Hct]. destruct (string_dec u id) as [->|Hd2].
          -- rewrite Hfw. apply in_remove_first_other; [exact Hc|]. intros ->.
             rewrite (ctext_code_some n0 t0 Ht0 Hne0) in Hct. congruence.
          -- rewrite Hfwo by assumption. exact Hc.
    - destruct (remove_inv is_user seen d n0 d1 t0 HI Hr Ht0 Htu0) as (id' & Hl' & Hid & Hin & Hne0 & HI1 & Hn1 & Hfw & Hlk & Hfwo).
      assert (id' = id) by congruence. subst id'.
      assert (Hsub : forall k0 c, is_user k0 = true -> In c (fw d1 k0) -> In c (fw d k0)).
      { intros k0 c Hk0 Hc. destruct (string_dec k0 id) as [->|Hd].
        - rewrite Hfw in Hc. apply in_remove_first in Hc. exact Hc.
        - rewrite Hfwo in Hc by assumption. exact Hc. }
      assert (Etxt : txt n' = txt n0) by congruence.
      destruct (code_same_view n0 n' E1 E2 E3 Etxt) as (Vk & Vn & Vt).
      pose proof (ctext_code_some n0 t0 Ht0 Hne0) as Hct0.
      split.
      + intros Hown u' c Hu' Hc Hct.
        destruct (store_fw_in is_user d1 id n' t0 Hid Ht' Hne0 Htu0 u' c Hu' Hc) as [Hc'|[-> ->]].
        * apply (Hown u' c Hu' (Hsub u' c Hu' Hc') Hct).
        * assert (t0 = t) by congruence. subst t0.
          destruct (Hown id (code n0) Hid Hin Hct0) as (Ha & Hb & Hc2). subst id.
          repeat split; congruence.
      + intros (c & Hc & Hct). right. destruct (string_dec t0 t) as [->|Hd].
        * assert (Hlu : lookup t d = Some u) by (apply (has_lookup is_user seen d u t HI Hu); exists c; auto).
          assert (id = u) by congruence. subst id.
          exists (code n'). split; [apply (store_new_in is_user d1 u n' t Hu Ht' Hne0 Htu0)|congruence].
        * apply (store_has is_user d1 id n' t0 Hid Ht' Hne0 Htu0 u t Hu).
          exists c. split; [|exact Hct]. destruct (string_dec u id) as [->|Hd2].
          -- rewrite Hfw. apply in_remove_first_other; [exact Hc|]. intros ->. congruence.
          -- rewrite Hfwo by assumption. exact Hc.
  Qed.

  (* ---------------------------------------------------------------- what a request answers *)
  Theorem request_result seen d o u f s q ni :
    Inv seen d -> wf_event seen (ev d o) ->
    request_of cfg o = Some (u, f, s, q) -> snd (step cfg d o) = ONid ni ->
    exists t c, txt ni = Some t /\ t <> "" /\ is_user t = false /\ is_user u = true
      /\ In c (fw (fst (step cfg d o)) u) /\ ctext c = Some t
      /\ (f = NF_PERSISTENT -> pers c = true /\ ckey c = (normo s, normo q))
      /\ ((fst (step cfg d o) = d /\ f = NF_PERSISTENT /\ In c (fw d u) /\ In t seen)
          \/ (~ In t seen /\ lookup t d = None /\ (f = NF_PERSISTENT -> match_local_id d u s q = Ok None))).
  Proof.
    intros HI Hwf Hr Hout. rewrite step_snd in Hout. rewrite step_fst.
    pose proof (request_user seen d o u f s q Hwf Hr) as Hu.
    destruct (plan_request cfg d o u f s q Hr) as (fr & Hp & Hcand).
    destruct (plan_get cfg d u f s q fr) as [a x] eqn:Eg.
    rewrite Hp in Hout |- *. cbn [fst snd] in Hout |- *. subst x.
    destruct (plan_get_cases cfg d u f s q fr a _ Eg) as [[_ [e He]]|[(-> & Hf & m & Hm & Hx)|(-> & Hx & Hpm)]].
    - discriminate.
    - inversion Hx; subst m. clear Hx. cbn [apply_action].
      destruct (match_some_stored d u s q ni Hm) as (v & c & Hv & Hc & Hd & Hnt & Hnm).
      destruct (in_elements_fw d u v c Hv Hc) as [->|Hin].
      + exfalso. rewrite decode_empty in Hd. inversion Hd; subst ni. discriminate Hnt.
      + destruct (inv_entry is_user seen d u c HI Hu Hin) as (n0 & t & _ & _ & Hne & Htu & Hct & Hl & Hs).
        exists t, c. assert (Htxt : txt ni = Some t) by (unfold ctext in Hct; rewrite Hd in Hct; exact Hct).
        repeat (split; [assumption|]). split.
        * intros _. unfold pers, ckey. rewrite Hd, Hnt. apply nid_matches_iff in Hnm as [H1 H2].
          rewrite H1, H2. auto.
        * left. auto.
    - inversion Hx; subst ni. clear Hx. cbn [apply_action].
      set (t := final_text cfg f fr) in *. set (n := mkN q s (Some f) None (Some t)).
      assert (Hin : In t (cand cfg o)) by (rewrite Hcand; left; reflexivity).
      assert (Hp1 : fst (plan cfg d o) = AStore u n t) by (rewrite Hp; reflexivity).
      destruct (wf_store_fresh seen d o u n t HI Hwf Hp1 Hu Hin) as (Hne & Htu & Hns).
      exists t, (code n). split; [reflexivity|]. repeat (split; [assumption|]).
      split; [apply (store_new_in is_user d u n t Hu eq_refl Hne Htu)|].
      split; [apply (ctext_code_some n t eq_refl Hne)|]. split.
      + intros ->. rewrite pers_code, ckey_code. cbn. auto.
      + right. split; [exact Hns|]. split; [apply (inv_fresh is_user seen d t HI Htu Hns)|exact Hpm].
  Qed.

  (* the NameID a request answers names the format / requester / qualifier asked for, and its code is
     one of the elements stored for the user in the state the step leaves behind *)
  Theorem request_issued seen d o u f s q ni :
    Inv seen d -> wf_event seen (ev d o) ->
    request_of cfg o = Some (u, f, s, q) -> snd (step cfg d o) = ONid ni ->
    fmt ni = Some f /\ normo (spq ni) = normo s /\ normo (nq ni) = normo q
    /\ In (code ni) (fw (fst (step cfg d o)) u).
  Proof.
    intros HI Hwf Hr Hout. rewrite step_snd in Hout. rewrite step_fst.
    pose proof (request_user seen d o u f s q Hwf Hr) as Hu.
    destruct (plan_request cfg d o u f s q Hr) as (fr & Hp & Hcand).
    destruct (plan_get cfg d u f s q fr) as [a x] eqn:Eg.
    rewrite Hp in Hout |- *. cbn [fst snd] in Hout |- *. subst x.
    destruct (plan_get_cases cfg d u f s q fr a _ Eg) as [[_ [e He]]|[(-> & Hf & m & Hm & Hx)|(-> & Hx & Hpm)]].
    - discriminate.
    - inversion Hx; subst m. clear Hx. cbn [apply_action].
      destruct (match_some_stored d u s q ni Hm) as (v & c & Hv & Hc & Hd & Hnt & Hnm).
      apply nid_matches_iff in Hnm as [H1 H2].
      assert (Hfmt : fmt ni = Some f).
      { subst f. destruct (fmt ni) as [x|]; [|discriminate Hnt]. cbn [eq_arg opt_eqb] in Hnt.
        apply String.eqb_eq in Hnt. congruence. }
      repeat (split; [assumption|]).
      destruct (in_elements_fw d u v c Hv Hc) as [->|Hin].
      + exfalso. rewrite decode_empty in Hd. inversion Hd; subst ni. discriminate Hnt.
      + destruct (inv_codes _ _ _ HI u c Hu Hin) as (n0 & t & -> & _).
        rewrite decode_code in Hd. inversion Hd; subst ni. rewrite code_norm. exact Hin.
    - inversion Hx; subst ni. clear Hx. cbn [apply_action fmt spq nq].
      repeat (split; [reflexivity|]).
      set (t := final_text cfg f fr) in *. set (n := mkN q s (Some f) None (Some t)).
      assert (Hin : In t (cand cfg o)) by (rewrite Hcand; left; reflexivity).
      assert (Hp1 : fst (plan cfg d o) = AStore u n t) by (rewrite Hp; reflexivity).
      destruct (wf_store_fresh seen d o u n t HI Hwf Hp1 Hu Hin) as (Hne & Htu & Hns).
      apply (store_new_in is_user d u n t Hu eq_refl Hne Htu).
  Qed.

  (* ---------------------------------------------------------------- NewID / Terminate *)
  Theorem manage_ok seen d o (pre : trace) :
    Inv seen d -> wf_event seen (ev d o) -> manage_event pre (ev d o).
  Proof.
    intros HI Hwf n newid enc term Eo. unfold ev in Eo |- *. cbn [e_op e_out e_pre e_post] in Eo |- *. subst o.
    destruct Hwf as (_ & W2 & _). unfold ev in W2; cbn [e_op arg_nid] in W2.
    rewrite step_fst, step_snd. cbn [plan]. unfold plan_manage.
    destruct (manage_target n newid enc term) as [n'|] eqn:Em.
    2:{ cbn [fst snd apply_action]. repeat split; auto. }
    destruct (remove_remote d n) as [d1|e] eqn:Er; [|cbn [fst snd apply_action]; apply same_map_refl].
    destruct (find_local_id d n) as [id|] eqn:Ef; [|cbn [fst snd apply_action]; apply same_map_refl].
    destruct (txt n') as [t|] eqn:Et'; [|cbn [fst snd apply_action]; apply same_map_refl].
    cbn [fst snd apply_action]. rewrite Er.
    destruct (manage_target_view _ _ _ _ _ Em) as (E1 & E2 & E3 & E4).
    assert (Etn : txt n = Some t) by congruence.
    assert (Htu : is_user t = false) by (apply (W2 n t); [reflexivity|exact Etn]).
    unfold find_local_id in Ef. rewrite Etn in Ef |- *. cbn [lookup_opt] in Ef |- *.
    destruct (remove_inv is_user seen d n d1 t HI Er Etn Htu) as (id' & Hl' & Hid & Hin & Hne & HI1 & Hn1 & Hfw & Hlk & Hfwo).
    assert (id' = id) by congruence. subst id'.
    assert (Htid : t <> id) by (intros E; subst; congruence).
    repeat (split; [congruence|]). split; [|split].
    - intros k Hk1 Hk2. rewrite lookup_store_db by congruence. apply Hlk; congruence.
    - rewrite Ef. apply lookup_store_db_text.
    - intros u Eu. assert (u = id) by congruence. subst u.
      rewrite (store_fw_u is_user d1 id n' t Hid Et' Hne Htu), Hfw.
      unfold others. rewrite filter_app. cbn [filter].
      destruct (code_same_view n n' E1 E2 E3 E4) as (_ & _ & Vt).
      pose proof (ctext_code_some n t Etn Hne) as Hct.
      assert (Hf : negb (ostr_eqb (ctext (code n')) (Some t)) = false).
      { rewrite Vt, Hct, ostr_eqb_refl. reflexivity. }
      rewrite Hf, app_nil_r. apply filter_remove_first. rewrite Hct, ostr_eqb_refl. reflexivity.
  Qed.
  (* ---------------------------------------------------------------- NewID / Terminate take effect *)
  Lemma filter_none {A} (p : A -> bool) l : (forall x, In x l -> p x = false) -> filter p l = [].
  Proof.
    induction l as [|x r IH]; [reflexivity|]. intros H. cbn [filter]. rewrite (H x (or_introl eq_refl)).
    apply IH. intros y Hy. apply H. right. exact Hy.
  Qed.

  Lemma wanted_target n newid enc term x :
    wanted n newid enc term = Some x -> exists n', manage_target n newid enc term = Some n' /\ spid n' = x.
  Proof.
    unfold wanted, manage_target. destruct newid as [y|].
    - intros E. inversion E; subst. eexists. split; reflexivity.
    - destruct enc; [intros E; inversion E; subst; eexists; split; reflexivity|].
      destruct term; [|discriminate]. intros E. inversion E; subst. eexists. split; reflexivity.
  Qed.

  Theorem effect_ok seen d o (pre : trace) :
    Inv seen d -> wf_event seen (ev d o) -> effect_event pre (ev d o).
  Proof.
    intros HI Hwf n newid enc term u x Eo Hl Hin Hw. unfold ev in Eo, Hl, Hin |- *.
    cbn [e_op e_out e_pre e_post] in Eo, Hl, Hin |- *. subst o.
    destruct Hwf as (_ & W2 & _). unfold ev in W2; cbn [e_op arg_nid] in W2.
    destruct (wanted_target n newid enc term x Hw) as (n' & Em & Hx).
    destruct (txt n) as [t|] eqn:Etn; [|discriminate]. cbn [lookup_opt] in Hl.
    assert (Htu : is_user t = false) by (apply (W2 n t); [reflexivity|exact Etn]).
    destruct (fw_in_elements d u (code n) Hin) as (v & Hv & Hel & _).
    assert (Er : exists d1, remove_remote d n = Ok d1).
    { unfold remove_remote. rewrite Etn, Hl, Hv. apply mem_In in Hel. rewrite Hel. eexists. reflexivity. }
    destruct Er as (d1 & Er).
    destruct (manage_target_view _ _ _ _ _ Em) as (E1 & E2 & E3 & E4).
    assert (Et' : txt n' = Some t) by congruence.
    rewrite step_fst, step_snd. cbn [plan]. unfold plan_manage, find_local_id.
    rewrite Em, Er, Etn, Et'. cbn [lookup_opt]. rewrite Hl. cbn [fst snd apply_action]. rewrite Er.
    destruct (remove_inv is_user seen d n d1 t HI Er Etn Htu) as (id' & Hl' & Hid & _ & Hne & HI1 & Hn1 & Hfw & _).
    assert (id' = u) by congruence. subst id'.
    exists n'. split; [reflexivity|]. split; [exact Hx|].
    rewrite (store_fw_u is_user d1 u n' t Hid Et' Hne Htu), Hfw. unfold with_text.
    rewrite filter_app. cbn [filter].
    rewrite (ctext_code_some n' t Et' Hne), ostr_eqb_refl.
    rewrite filter_none; [reflexivity|].
    intros c Hc. apply ostr_eqb_neq. rewrite <- (ctext_code_some n t Etn Hne).
    apply (nodup_remove_first_notin ctext (code n) c (fw d u)); [apply (inv_nodup _ _ _ HI u Hid)|exact Hin|exact Hc].
  Qed.
End Steps.
