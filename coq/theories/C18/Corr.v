(* C18/Corr.v — correspondence runner.
   One CIdent case = one whole history run against a real saml2.ident.IdentDB({}): per step the
   concrete operation (with the identifier the real code generated as oracle value), the abstracted
   return value and the change of the db dict.  Coq folds the model over the history, compares
   return value and whole state after every step, and evaluates the spec on the OBSERVED trace. *)
From Coq Require Import String Ascii List Bool Arith ZArith Uint63.
From Verif Require Import Base.Str Base.Run Base.Percent C18.Model C18.Spec.
Import ListNotations.
Open Scope string_scope.

(* change of one dict entry: new value, deletion, or an edit of the old value (the first p bytes of
   the old value, then mid, then the last sfx bytes of the old value) — forward entries grow, and
   writing them out in full after every step would make the case files quadratic *)
Inductive dval := DSet (v : string) | DDel | DEdit (p : N) (mid : string) (sfx : N).

Record sobs := { s_op : op; s_out : out; s_diff : list (string * dval) }.

(* one eptid call: arguments, value observed in the history, value observed on a fresh instance *)
Record eobs := { x_call : ecall; x_val : string; x_fresh : string }.

Inductive case :=
| CIdent (cfg : config) (users : list string) (steps : list sobs) (final : db)
         (aliased : list nat)   (* steps whose answer was not the caller's own object: the very object of an earlier
                                   answer / argument, or an earlier answer found changed after the step (round 4) *)
| CCodec (items : list (nameid * string * option nameid))   (* n, code(n), decode(code(n)) observed *)
| CDecode (s : string) (r : option nameid)                   (* decode(s) observed; None = ValueError *)
| CEptid (secret : string) (md5tab : list (string * string)) (calls : list eobs).

(* ---- compact string literals: 7 bytes per 63-bit integer, (bytes << 3) + number of bytes;
   (Coq's string notation costs ~60 us per character, an integer literal ~50 us per 7 characters) *)
Definition bit (v : int) (i : int) : bool := negb (PrimInt63.eqb (PrimInt63.land (PrimInt63.lsr v i) 1) 0).
Definition ascii_of_int (v : int) : ascii :=
  Ascii (bit v 0) (bit v 1) (bit v 2) (bit v 3) (bit v 4) (bit v 5) (bit v 6) (bit v 7).
Fixpoint unpack_n (n : nat) (v : int) (rest : string) : string :=
  match n with
  | O => rest
  | S k => String (ascii_of_int v) (unpack_n k (PrimInt63.lsr v 8) rest)
  end.
Definition len_of (v : int) : nat :=
  let x := PrimInt63.land v 7 in
  if PrimInt63.eqb x 1 then 1 else if PrimInt63.eqb x 2 then 2 else if PrimInt63.eqb x 3 then 3
  else if PrimInt63.eqb x 4 then 4 else if PrimInt63.eqb x 5 then 5 else if PrimInt63.eqb x 6 then 6
  else if PrimInt63.eqb x 7 then 7 else 0.
Fixpoint u (l : list int) : string :=
  match l with
  | [] => EmptyString
  | v :: r => unpack_n (len_of v) (PrimInt63.lsr v 3) (u r)
  end.

Definition cat (l : list string) : string := fold_right append EmptyString l.

(* ---- short constructors used by the case writer *)
Definition Ni := mkN.
Definition S_ (o : op) (x : out) (df : list (string * dval)) : sobs := {| s_op := o; s_out := x; s_diff := df |}.
Definition Cf (dom dnq : string) : config := {| domain := dom; default_nq := dnq |}.
Definition Po (f s a : option string) : policy := {| pfmt := f; pspq := s; pallow := a |}.
Definition E_ (idp sp : string) (args : list string) (v fr : string) : eobs :=
  {| x_call := {| c_idp := idp; c_sp := sp; c_args := args |}; x_val := v; x_fresh := fr |}.

(* ---- observed state reconstruction *)
Fixpoint take (n : nat) (s : string) : string :=
  match n, s with
  | S k, String c r => String c (take k r)
  | _, _ => EmptyString
  end.
Fixpoint drop (n : nat) (s : string) : string :=
  match n, s with
  | S k, String c r => drop k r
  | _, _ => s
  end.
Definition edit (old : string) (p : N) (mid : string) (sfx : N) : string :=
  take (N.to_nat p) old ++ mid ++ drop (String.length old - N.to_nat sfx) old.

Fixpoint apply_diff (df : list (string * dval)) (d : db) : db :=
  match df with
  | [] => d
  | (k, DSet v) :: r => apply_diff r (set k v d)
  | (k, DDel) :: r => apply_diff r (del k d)
  | (k, DEdit p mid sfx) :: r =>
      apply_diff r (match lookup k d with Some old => set k (edit old p mid sfx) d | None => d end)
  end.

Fixpoint obs_trace (d : db) (steps : list sobs) : trace :=
  match steps with
  | [] => []
  | s :: r =>
      let d' := apply_diff (s_diff s) d in
      {| e_op := s_op s; e_out := s_out s; e_pre := d; e_post := d' |} :: obs_trace d' r
  end.

Definition obs_final (steps : list sobs) : db :=
  fold_left (fun d s => apply_diff (s_diff s) d) steps [].

(* ---- model vs implementation, step by step; result = index of the first disagreeing step *)
Fixpoint first_bad (cfg : config) (i : nat) (m o : db) (steps : list sobs) : option nat :=
  match steps with
  | [] => None
  | s :: r =>
      let '(m', x) := step cfg m (s_op s) in
      let o' := apply_diff (s_diff s) o in
      if out_eqb x (s_out s) && db_eqb m' o' then first_bad cfg (S i) m' o' r else Some i
  end.

Definition md5_of (tab : list (string * string)) (x : string) : string :=
  match lookup x tab with Some v => v | None => "" end.

Definition codec_item_agrees (it : nameid * string * option nameid) : bool :=
  let '(n, c, dn) := it in
  String.eqb (code n) c && opt_eqb nameid_eqb (decode c) dn.

Definition agrees (c : case) : bool :=
  match c with
  | CIdent cfg users steps final aliased =>
      match first_bad cfg 0 [] [] steps with
      | Some _ => false
      | None => db_eqb (obs_final steps) final && match aliased with [] => true | _ => false end
      end
  | CCodec items => forallb codec_item_agrees items
  | CDecode s r => opt_eqb nameid_eqb (decode s) r
  | CEptid secret tab calls =>
      list_eqb String.eqb (eptid_run (md5_of tab) secret [] (map x_call calls)) (map x_val calls)
      && list_eqb String.eqb (map (fun x => eptid_make (md5_of tab) secret (c_idp (x_call x)) (c_sp (x_call x)) (c_args (x_call x))) calls)
                             (map x_fresh calls)
  end.

Definition user_pred (users : list string) (s : string) : bool := mem s users.

Definition holds (c : case) : bool :=
  match c with
  | CIdent cfg users steps final _ => ident_spec_b cfg (user_pred users) (obs_trace [] steps)
  | CCodec items => codec_spec_b items
  | CDecode _ _ => true
  | CEptid secret tab calls => eptid_spec_b (map (fun x => (x_call x, x_val x, x_fresh x)) calls)
  end.

(* finding classes (consulted only when [holds] is false).  Classes 1-3 are REPAIRED in /repo (status
   "fixed" in findings/C18.json): a case that falls into one of them again is reported as VIOLATION with
   that input (regression).  Class 4 is open.
   1 = (331c8f06) two calls share the OLD Eptid cache key sp ++ "__" ++ user without being the same call;
   2 = (9057a062) a second non-transient identifier for the same (user, requester, qualifier) exists, so
       which one persistent_nameid answered depended on list order;
   3 = (afb60e41) a persistent identifier is asked for with empty requester AND empty qualifier (the
       forward entry could contain an empty element that decodes to an empty NameID);
   4 = Eptid.make hashes the concatenation of its arguments without separator: the values of FRESH
       instances already violate the spec (calls that split the same characters differently over user
       id and extra arguments). *)
Definition fresh_obs (calls : list eobs) := map (fun x => (x_call x, x_fresh x, x_fresh x)) calls.

Definition cls (c : case) : nat :=
  match c with
  | CIdent cfg users steps final _ =>
      let tr := obs_trace [] steps in
      if negb (qualified_b cfg tr) then 3
      else if negb (single_valued_b cfg tr) then 2
      else 0
  | CEptid secret tab calls =>
      if negb (eptid_spec_b (fresh_obs calls)) then 4
      else if key_collision_b (map x_call calls) then 1 else 0
  | _ => 0
  end.

Definition run := run_cases agrees holds cls.

Definition explain (c : case) :=
  match c with
  | CIdent cfg users steps final aliased =>
      let tr := obs_trace [] steps in
      (first_bad cfg 0 [] [] steps,
       match first_bad cfg 0 [] [] steps with
       | Some i => Some (nth_error (map (fun e => step cfg (e_pre e) (e_op e)) tr) i)
       | None => None
       end,
       (wf_b cfg (user_pred users) tr, ident_spec_parts_b cfg (user_pred users) tr,
        qualified_b cfg tr, single_valued_b cfg tr),
       db_eqb (obs_final steps) final && match aliased with [] => true | _ => false end)
  | CCodec items => (None, None, (true, [forallb codec_item_agrees items; codec_spec_b items], true, true), true)
  | CDecode s r => (None, None, (true, [opt_eqb nameid_eqb (decode s) r], true, true), true)
  | CEptid secret tab calls =>
      (None, None, (true, [eptid_spec_b (map (fun x => (x_call x, x_val x, x_fresh x)) calls);
                           key_collision_b (map x_call calls); eptid_spec_b (fresh_obs calls);
                           same_extras_b (map x_call calls)], true, true), true)
  end.
