(* C18/Plan.v — every operation of the model is "decide, then apply ONE action to the dict":
   nothing, store one identifier, remove one identifier, or remove-and-store (manage).
   [step_plan] proves that this reading is the model's [step]; the invariant proofs then work
   per action instead of per operation. *)
From Coq Require Import String Ascii List Bool Arith Lia.
From Verif Require Import Base.Str Base.Percent C18.Model C18.Spec C18.Codec C18.Maps.
Import ListNotations.
Open Scope string_scope.

Inductive action :=
| ANone
| AStore (u : string) (n : nameid) (t : string)
| ARemove (n : nameid)
| AManage (n n' : nameid) (id t : string).

Definition apply_action (d : db) (a : action) : db :=
  match a with
  | ANone => d
  | AStore u n t => store_db d u n t
  | ARemove n => match remove_remote d n with Ok d' => d' | Err _ => d end
  | AManage n n' id t => match remove_remote d n with Ok d1 => store_db d1 id n' t | Err _ => d end
  end.

Section Plan.
  Variable cfg : config.

  Definition plan_issue (d : db) (u f : string) (s q : option string) (fresh : string) : action * out :=
    if String.eqb f NF_EMAIL && is_empty_str (domain cfg) then (ANone, OExc SAMLErr)
    else
      let t := final_text cfg f fresh in
      let n := mkN q s (Some f) None (Some t) in
      (AStore u n t, ONid n).

  Definition plan_get (d : db) (u f : string) (s q : option string) (fresh : string) : action * out :=
    if String.eqb f NF_PERSISTENT then
      match match_local_id d u s q with
      | Err e => (ANone, OExc e)
      | Ok (Some n) => (ANone, ONid n)
      | Ok None => plan_issue d u f s q fresh
      end
    else plan_issue d u f s q fresh.

  Definition plan_persistent (d : db) (u : string) (s q : option string) (fresh : string) : action * out :=
    match match_local_id d u s q with
    | Err e => (ANone, OExc e)
    | Ok (Some n) => (ANone, ONid n)
    | Ok None => plan_get d u NF_PERSISTENT s q fresh
    end.

  Definition plan_construct (d : db) (u : string) (lp s : option string) (pol : option policy)
    (q : option string) (fresh : string) : action * out :=
    match resolve cfg lp s pol q with
    | Err e => (ANone, OExc e)
    | Ok (f, s', q') => plan_get d u f s' q' fresh
    end.

  Definition plan_mapping (d : db) (n : nameid) (p : policy) (fresh : string) : action * out :=
    match find_local_id d n with
    | None => (ANone, OExc UnknownErr)
    | Some EmptyString => (ANone, OExc UnknownErr)
    | Some id =>
        match lookup id d with
        | None => (ANone, OExc KeyErr)
        | Some v =>
            match mapping_scan (elements v) p with
            | Err e => (ANone, OExc e)
            | Ok (Some m) => (ANone, ONid m)
            | Ok None =>
                if eq_arg (pallow p) (Some "false") then (ANone, OExc PolicyErr)
                else plan_construct d id None None (Some p) None fresh
            end
        end
    end.

  Definition plan_manage (d : db) (n : nameid) (newid : option (option string)) (enc term : bool) : action * out :=
    match manage_target n newid enc term with
    | None => (ANone, ONid n)
    | Some n' =>
        match remove_remote d n with
        | Err e => (ANone, OExc e)
        | Ok _ =>
            match find_local_id d n, txt n' with
            | Some id, Some t => (AManage n n' id t, ONid n')
            | _, _ => (ANone, OExc Unmodelled)
            end
        end
    end.

  Definition plan (d : db) (o : op) : action * out :=
    match o with
    | Store u n => match txt n with Some t => (AStore u n t, ONone) | None => (ANone, OExc Unmodelled) end
    | RemoveRemote n => match remove_remote d n with Ok _ => (ARemove n, ONone) | Err e => (ANone, OExc e) end
    | RemoveLocal _ => (ANone, ONone)
    | GetNameid u f s q fr => plan_get d u f s q fr
    | FindNameid u flt => (ANone, find_nameid d u flt)
    | MatchLocal u s q =>
        (ANone, match match_local_id d u s q with Ok (Some n) => ONid n | Ok None => ONone | Err e => OExc e end)
    | Persistent u s q fr => plan_persistent d u s q fr
    | Transient u s q fr => plan_get d u NF_TRANSIENT s q fr
    | Construct u lp s pol q fr => plan_construct d u lp s pol q fr
    | Mapping n p fr => plan_mapping d n p fr
    | Manage n newid enc term => plan_manage d n newid enc term
    | FindLocal n => (ANone, match find_local_id d n with Some u => OStr u | None => ONone end)
    | Close => (ANone, ONone)
    end.

  Definition run_plan (d : db) (pl : action * out) : db * out := (apply_action d (fst pl), snd pl).

  Lemma issue_plan d u f s q fr : issue cfg d u f s q fr = run_plan d (plan_issue d u f s q fr).
  Proof.
    unfold issue, plan_issue, run_plan.
    destruct (String.eqb f NF_EMAIL && is_empty_str (domain cfg)); reflexivity.
  Qed.

  Lemma get_plan d u f s q fr : get_nameid cfg d u f s q fr = run_plan d (plan_get d u f s q fr).
  Proof.
    unfold get_nameid, plan_get. destruct (String.eqb f NF_PERSISTENT).
    - destruct (match_local_id d u s q) as [[n|]|e]; try reflexivity. apply issue_plan.
    - apply issue_plan.
  Qed.

  Lemma construct_plan d u lp s pol q fr :
    construct_nameid cfg d u lp s pol q fr = run_plan d (plan_construct d u lp s pol q fr).
  Proof.
    unfold construct_nameid, plan_construct.
    destruct (resolve cfg lp s pol q) as [[[f s'] q']|e]; [apply get_plan|reflexivity].
  Qed.

  Theorem step_plan d o : step cfg d o = run_plan d (plan d o).
  Proof.
    destruct o; cbn [step plan].
    - unfold store. destruct (txt n); reflexivity.
    - unfold run_plan. destruct (remove_remote d n) as [d'|e] eqn:E; cbn [fst snd apply_action]; [rewrite E|]; reflexivity.
    - reflexivity.
    - apply get_plan.
    - reflexivity.
    - reflexivity.
    - unfold persistent_nameid, plan_persistent.
      destruct (match_local_id d u spq_arg nq_arg) as [[n|]|e]; try reflexivity. apply get_plan.
    - unfold transient_nameid. apply get_plan.
    - apply construct_plan.
    - unfold name_id_mapping, plan_mapping.
      destruct (find_local_id d n) as [[|c id]|]; try reflexivity.
      destruct (lookup (String c id) d) as [v|]; try reflexivity.
      destruct (mapping_scan (elements v) p) as [[m|]|e]; try reflexivity.
      destruct (eq_arg (pallow p) (Some "false")); [reflexivity|apply construct_plan].
    - unfold manage_name_id, plan_manage.
      destruct (manage_target n newid enc term) as [n'|]; [|reflexivity].
      destruct (remove_remote d n) as [d1|e] eqn:E; [|reflexivity].
      destruct (find_local_id d n) as [id|]; [|reflexivity].
      destruct (txt n') as [t|]; [|reflexivity].
      unfold run_plan; cbn [fst snd apply_action]. rewrite E. reflexivity.
    - reflexivity.
    - reflexivity.
  Qed.

  (* ---------------------------------------------------------------- what a planned action looks like *)

  Lemma plan_issue_cases d u f s q fr a x :
    plan_issue d u f s q fr = (a, x) ->
    (a = ANone /\ x = OExc SAMLErr)
    \/ (a = AStore u (mkN q s (Some f) None (Some (final_text cfg f fr))) (final_text cfg f fr)
        /\ x = ONid (mkN q s (Some f) None (Some (final_text cfg f fr)))).
  Proof.
    unfold plan_issue. destruct (String.eqb f NF_EMAIL && is_empty_str (domain cfg));
      intros E; inversion E; auto.
  Qed.

  (* a request for (u, f, s, q): answered from the store (persistent format only), refused, or issued *)
  Lemma plan_get_cases d u f s q fr a x :
    plan_get d u f s q fr = (a, x) ->
    (a = ANone /\ exists e, x = OExc e)
    \/ (a = ANone /\ f = NF_PERSISTENT /\ exists n, match_local_id d u s q = Ok (Some n) /\ x = ONid n)
    \/ (a = AStore u (mkN q s (Some f) None (Some (final_text cfg f fr))) (final_text cfg f fr)
        /\ x = ONid (mkN q s (Some f) None (Some (final_text cfg f fr)))
        /\ (f = NF_PERSISTENT -> match_local_id d u s q = Ok None)).
  Proof.
    unfold plan_get. destruct (String.eqb f NF_PERSISTENT) eqn:Ef.
    - apply String.eqb_eq in Ef.
      destruct (match_local_id d u s q) as [[n|]|e] eqn:Em.
      + intros E; inversion E. right; left. repeat split; try assumption. exists n. auto.
      + intros E. apply plan_issue_cases in E as [[-> ->]|[-> ->]].
        * left. split; [reflexivity|eauto].
        * right; right. auto.
      + intros E; inversion E. left. split; [reflexivity|eauto].
    - intros E. apply plan_issue_cases in E as [[-> ->]|[-> ->]].
      + left. split; [reflexivity|eauto].
      + right; right. repeat split. intros ->. rewrite String.eqb_refl in Ef. discriminate.
  Qed.

  Lemma plan_persistent_cases d u s q fr a x :
    plan_persistent d u s q fr = (a, x) -> plan_get d u NF_PERSISTENT s q fr = (a, x).
  Proof.
    unfold plan_persistent, plan_get. rewrite String.eqb_refl.
    destruct (match_local_id d u s q) as [[n|]|e]; auto.
  Qed.

  (* the plan of an operation that asks for an identifier *)
  Lemma plan_request d o u f s q :
    request_of cfg o = Some (u, f, s, q) ->
    exists fr, plan d o = plan_get d u f s q fr /\ cand cfg o = [final_text cfg f fr].
  Proof.
    destruct o; cbn [request_of]; try discriminate.
    - intros E; inversion E; subst. exists fresh. split; reflexivity.
    - intros E; inversion E; subst. exists fresh. split.
      + cbn [plan]. destruct (plan_persistent d u s q fresh) as [a x] eqn:Ep.
        symmetry. apply plan_persistent_cases. exact Ep.
      + reflexivity.
    - intros E; inversion E; subst. exists fresh. split; reflexivity.
    - destruct (resolve cfg lp spq_arg pol nq_arg) as [[[f0 s0] q0]|e] eqn:Er; [|discriminate].
      intros E; inversion E; subst. exists fresh. split.
      + cbn [plan]. unfold plan_construct. rewrite Er. reflexivity.
      + cbn [cand]. rewrite Er. reflexivity.
  Qed.
End Plan.
