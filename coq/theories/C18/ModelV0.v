(* C18/ModelV0.v — the IdentDB operations as coded at the pinned snapshot, BEFORE the repairs
   331c8f06 (Eptid cache key), afb60e41 (empty forward entry / empty elements) and 9057a062
   (match_local_id: persistent format only).  Kept for the refutation theorems (`..._v0_refuted`) and
   so that Corr.cls recognises a regression.  Types, decode/code and the unchanged helpers are those of
   Model.v; first_match_v0 / match_local_id_v0 live there too (the class-2 guard of Spec.v uses them). *)
From Coq Require Import String Ascii List Bool ZArith NArith.
From Verif Require Import Base.Str Base.Percent C18.Model.
Import ListNotations.
Open Scope string_scope.

Module V0.

(* store(ident, name_id) with name_id.text = t *)
Definition store_db (d : db) (u : string) (n : nameid) (t : string) : db :=
  let val := match lookup u d with Some v => elements v | None => [] end in
  set t u (set u (join " " (val ++ [code n])) d).

Definition store (d : db) (u : string) (n : nameid) : db * out :=
  match txt n with
  | Some t => (store_db d u n t, ONone)
  | None => (d, OExc Unmodelled)          (* a None dict key: outside the model *)
  end.

(* remove_remote(name_id) *)
Definition remove_remote (d : db) (n : nameid) : res db :=
  match txt n with
  | None => Err KeyErr
  | Some t =>
      match lookup t d with
      | None => Err KeyErr
      | Some id =>
          match lookup id d with
          | Some v =>
              let vals := elements v in
              if mem (code n) vals
              then Ok (del t (set id (join " " (remove_first (code n) vals)) d))
              else Err ValueErr
          | None => Ok (del t d)
          end
      end
  end.


(* get_nameid(userid, nformat, sp_name_qualifier, name_qualifier) *)
Definition issue (cfg : config) (d : db) (u f : string) (spq_arg nq_arg : option string) (fresh : string) : db * out :=
  if String.eqb f NF_EMAIL && is_empty_str (domain cfg) then (d, OExc SAMLErr)
  else
    let t := final_text cfg f fresh in
    let n := mkN nq_arg spq_arg (Some f) None (Some t) in
    (store_db d u n t, ONid n).

Definition get_nameid (cfg : config) (d : db) (u f : string) (spq_arg nq_arg : option string) (fresh : string) : db * out :=
  if String.eqb f NF_PERSISTENT then
    match match_local_id_v0 d u spq_arg nq_arg with
    | Err e => (d, OExc e)
    | Ok (Some n) => (d, ONid n)
    | Ok None => issue cfg d u f spq_arg nq_arg fresh
    end
  else issue cfg d u f spq_arg nq_arg fresh.

Definition persistent_nameid (cfg : config) (d : db) (u : string) (spq_arg nq_arg : option string) (fresh : string) : db * out :=
  match match_local_id_v0 d u spq_arg nq_arg with
  | Err e => (d, OExc e)
  | Ok (Some n) => (d, ONid n)
  | Ok None => get_nameid cfg d u NF_PERSISTENT spq_arg nq_arg fresh
  end.

Definition transient_nameid (cfg : config) (d : db) (u : string) (spq_arg nq_arg : option string) (fresh : string) : db * out :=
  get_nameid cfg d u NF_TRANSIENT spq_arg nq_arg fresh.


Definition construct_nameid (cfg : config) (d : db) (u : string) (lp : option string) (spq_arg : option string)
  (pol : option policy) (nq_arg : option string) (fresh : string) : db * out :=
  match resolve cfg lp spq_arg pol nq_arg with
  | Err e => (d, OExc e)
  | Ok (f, spq', nq') => get_nameid cfg d u f spq' nq' fresh
  end.


(* handle_name_id_mapping_request(name_id, name_id_policy) *)
Definition name_id_mapping (cfg : config) (d : db) (n : nameid) (p : policy) (fresh : string) : db * out :=
  match find_local_id d n with
  | None => (d, OExc UnknownErr)
  | Some EmptyString => (d, OExc UnknownErr)
  | Some id =>
      match lookup id d with
      | None => (d, OExc KeyErr)
      | Some v =>
          match mapping_scan (elements v) p with
          | Err e => (d, OExc e)
          | Ok (Some m) => (d, ONid m)
          | Ok None =>
              if eq_arg (pallow p) (Some "false") then (d, OExc PolicyErr)
              else construct_nameid cfg d id None None (Some p) None fresh
          end
      end
  end.


Definition manage_name_id (d : db) (n : nameid) (newid : option (option string)) (enc term : bool) : db * out :=
  match manage_target n newid enc term with
  | None => (d, ONid n)
  | Some n' =>
      match remove_remote d n with
      | Err e => (d, OExc e)
      | Ok d1 =>
          match find_local_id d n, txt n' with
          | Some id, Some t => (store_db d1 id n' t, ONid n')
          | _, _ => (d, OExc Unmodelled)      (* unreachable: remove_remote succeeded *)
          end
      end
  end.


Definition step (cfg : config) (d : db) (o : op) : db * out :=
  match o with
  | Store u n => store d u n
  | RemoveRemote n => match remove_remote d n with Ok d' => (d', ONone) | Err e => (d, OExc e) end
  | RemoveLocal _ => (d, ONone)          (* the key is encoded to bytes and never matches a str key *)
  | GetNameid u f s q fr => get_nameid cfg d u f s q fr
  | FindNameid u flt => (d, find_nameid d u flt)
  | MatchLocal u s q =>
      (d, match match_local_id_v0 d u s q with Ok (Some n) => ONid n | Ok None => ONone | Err e => OExc e end)
  | Persistent u s q fr => persistent_nameid cfg d u s q fr
  | Transient u s q fr => transient_nameid cfg d u s q fr
  | Construct u lp s pol q fr => construct_nameid cfg d u lp s pol q fr
  | Mapping n p fr => name_id_mapping cfg d n p fr
  | Manage n newid enc term => manage_name_id d n newid enc term
  | FindLocal n => (d, match find_local_id d n with Some u => OStr u | None => ONone end)
  | Close => (d, ONone)
  end.


Fixpoint mtrace (cfg : config) (d : db) (ops : list op) : trace :=
  match ops with
  | [] => []
  | o :: r =>
      let '(d', x) := step cfg d o in
      {| e_op := o; e_out := x; e_pre := d; e_post := d' |} :: mtrace cfg d' r
  end.

Definition final_state (cfg : config) (d : db) (ops : list op) : db :=
  fold_left (fun s o => fst (step cfg s o)) ops d.


End V0.
