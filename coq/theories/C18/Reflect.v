(* C18/Reflect.v — the boolean spec that Coq evaluates on the observed traces IS the stated spec:
   ident_spec_b <-> ident_spec, codec_spec_b <-> codec_spec, eptid_spec_b <-> eptid_spec, and the
   boolean guards are the guards. *)
From Coq Require Import String Ascii List Bool Arith Lia.
From Verif Require Import Base.Str Base.Percent C18.Model C18.Spec C18.Codec C18.Maps.
Import ListNotations.
Open Scope string_scope.

(* ------------------------------------------------------------------ quantifiers over a trace *)
Section Quant.
  Context {A : Type}.

  Lemma heads_b_spec (P : A -> list A -> A -> bool) ei : forall rest mid,
    heads_b P ei mid rest = true <->
    (forall m2 ej post, rest = (m2 ++ ej :: post)%list -> P ei (mid ++ m2)%list ej = true).
  Proof.
    induction rest as [|e r IH]; intros mid; cbn [heads_b].
    - split; [|reflexivity]. intros _ m2 ej post H. destruct m2; discriminate.
    - rewrite andb_true_iff, IH. split.
      + intros [H1 H2] m2 ej post E. destruct m2 as [|x m2]; cbn [app] in E; inversion E; subst.
        * rewrite app_nil_r. exact H1.
        * specialize (H2 m2 ej post eq_refl). rewrite <- app_assoc in H2. exact H2.
      + intros H. split.
        * specialize (H [] e r eq_refl). rewrite app_nil_r in H. exact H.
        * intros m2 ej post E. subst r. rewrite <- app_assoc. apply (H (e :: m2) ej post). reflexivity.
  Qed.

  Lemma all_pairs_b_spec (P : A -> list A -> A -> bool) : forall tr,
    all_pairs_b P tr = true <->
    (forall pre ei mid ej post, tr = (pre ++ ei :: mid ++ ej :: post)%list -> P ei mid ej = true).
  Proof.
    induction tr as [|e r IH]; cbn [all_pairs_b].
    - split; [|reflexivity]. intros _ pre ei mid ej post H. destruct pre; discriminate.
    - rewrite andb_true_iff, IH, heads_b_spec. split.
      + intros [H1 H2] pre ei mid ej post E. destruct pre as [|x pre]; cbn [app] in E; inversion E; subst.
        * apply (H1 mid ej post). reflexivity.
        * apply (H2 pre ei mid ej post). reflexivity.
      + intros H. split.
        * intros m2 ej post E. subst r. apply (H [] e m2 ej post). reflexivity.
        * intros pre ei mid ej post E. subst r. apply (H (e :: pre) ei mid ej post). reflexivity.
  Qed.

  Lemma all_pairs_reflect (Pb : A -> list A -> A -> bool) (P : A -> list A -> A -> Prop) tr :
    (forall ei mid ej, Pb ei mid ej = true <-> P ei mid ej) ->
    (all_pairs_b Pb tr = true <-> all_pairs P tr).
  Proof.
    intros H. rewrite all_pairs_b_spec. unfold all_pairs. split.
    - intros H1 pre ei mid ej post E. apply H. eapply H1; exact E.
    - intros H1 pre ei mid ej post E. apply H. eapply H1; exact E.
  Qed.

  Lemma events_b_spec (Q : list A -> A -> bool) : forall rest pre,
    events_b Q pre rest = true <->
    (forall p2 e post, rest = (p2 ++ e :: post)%list -> Q (pre ++ p2)%list e = true).
  Proof.
    induction rest as [|x r IH]; intros pre; cbn [events_b].
    - split; [|reflexivity]. intros _ p2 e post H. destruct p2; discriminate.
    - rewrite andb_true_iff, IH. split.
      + intros [H1 H2] p2 e post E. destruct p2 as [|y p2]; cbn [app] in E; inversion E; subst.
        * rewrite app_nil_r. exact H1.
        * specialize (H2 p2 e post eq_refl). rewrite <- app_assoc in H2. exact H2.
      + intros H. split.
        * specialize (H [] x r eq_refl). rewrite app_nil_r in H. exact H.
        * intros p2 e post E. subst r. rewrite <- app_assoc. apply (H (x :: p2) e post). reflexivity.
  Qed.

  Lemma all_events_reflect (Qb : list A -> A -> bool) (Q : list A -> A -> Prop) tr :
    (forall pre e, Qb pre e = true <-> Q pre e) ->
    (all_events_b Qb tr = true <-> all_events Q tr).
  Proof.
    intros H. unfold all_events_b, all_events. rewrite events_b_spec. split.
    - intros H1 pre e post E. apply H. apply (H1 pre e post E).
    - intros H1 p2 e post E. apply H. cbn [app]. apply (H1 p2 e post E).
  Qed.
End Quant.

(* ------------------------------------------------------------------ small facts *)

Lemma same_qb_iff a b : same_qb a b = true <-> same_q a b.
Proof.
  unfold same_qb, same_q. rewrite orb_true_iff, andb_true_iff, !negb_true_iff, ostr_eqb_eq. tauto.
Qed.

Lemma lookup_some_in k v d : lookup k d = Some v -> In k (map fst d).
Proof.
  intros H. destruct (in_dec string_dec k (map fst d)) as [Hi|Hn]; [exact Hi|].
  rewrite lookup_none_notin in H by exact Hn. discriminate.
Qed.

Lemma in_keys_pair (k : string) (d : db) : In k (map fst d) -> exists kv, In kv d /\ fst kv = k.
Proof. intros H. apply in_map_iff in H as [kv [H1 H2]]. exists kv. auto. Qed.

Lemma in_lookup_some (d : db) kv : In kv d -> exists v, lookup (fst kv) d = Some v.
Proof.
  induction d as [|[k' v'] r IH]; [intros []|]. intros [<-|H]; cbn [lookup fst].
  - rewrite String.eqb_refl. eauto.
  - destruct (String.eqb (fst kv) k'); [eauto|apply IH; exact H].
Qed.

Lemma fw_in_key d u c : In c (fw d u) -> exists v, lookup u d = Some v.
Proof. unfold fw. destruct (lookup u d); [eauto|intros []]. Qed.

Lemma mem_false_iff x l : mem x l = false <-> ~ In x l.
Proof.
  split.
  - intros H Hi. apply mem_In in Hi. congruence.
  - intros H. destruct (mem x l) eqn:E; [|reflexivity]. apply mem_In in E. contradiction.
Qed.

Section Ident.
  Variable cfg : config.
  Variable is_user : string -> bool.

  (* ---------------------------------------------------------------- wf *)
  Lemma wf_event_b_iff seen e : wf_event_b cfg is_user seen e = true <-> wf_event cfg is_user seen e.
  Proof.
    unfold wf_event_b, wf_event. rewrite !andb_true_iff, orb_true_iff, db_eqb_iff, !forallb_forall.
    assert (H1 : (match arg_user (e_op e) with Some u => is_user u | None => true end) = true
                 <-> (forall u, arg_user (e_op e) = Some u -> is_user u = true)).
    { destruct (arg_user (e_op e)) as [u|]; split; intros H; [intros u0 E; inversion E; subst; exact H
        |apply H; reflexivity|intros u0 E; discriminate|reflexivity]. }
    assert (H2 : (match arg_nid (e_op e) with
                  | Some n => match txt n with Some t => negb (is_user t) | None => true end
                  | None => true end) = true
                 <-> (forall n t, arg_nid (e_op e) = Some n -> txt n = Some t -> is_user t = false)).
    { destruct (arg_nid (e_op e)) as [n|].
      - destruct (txt n) as [t|] eqn:Et; split; intros H.
        + intros n0 t0 E E2. inversion E; subst. rewrite Et in E2. inversion E2; subst.
          apply negb_true_iff. exact H.
        + apply negb_true_iff. apply (H n t eq_refl Et).
        + intros n0 t0 E E2. inversion E; subst. congruence.
        + reflexivity.
      - split; [intros _ n t E; discriminate|reflexivity]. }
    assert (H3 : (match e_op e with
                  | Store u n =>
                      truthy (txt n)
                      && (negb (eq_arg (fmt n) (Some NF_PERSISTENT))
                          || match match_local_id (e_pre e) u (spq n) (nq n) with Ok None => true | _ => false end)
                  | _ => true end) = true
                 <-> (forall u n, e_op e = Store u n ->
                        truthy (txt n) = true
                        /\ (eq_arg (fmt n) (Some NF_PERSISTENT) = true ->
                            match_local_id (e_pre e) u (spq n) (nq n) = Ok None))).
    { destruct (e_op e); split; intros H; try reflexivity; try (intros u0 n0 E; discriminate).
      - intros u0 n0 E. inversion E; subst. apply andb_true_iff in H as [Ha Hb]. split; [exact Ha|].
        intros Hp. rewrite Hp in Hb. cbn [negb orb] in Hb.
        destruct (match_local_id (e_pre e) u0 (spq n0) (nq n0)) as [[m|]|x]; try discriminate. reflexivity.
      - destruct (H u n eq_refl) as [Ha Hb]. rewrite Ha. cbn [andb].
        destruct (eq_arg (fmt n) (Some NF_PERSISTENT)); [|reflexivity]. rewrite (Hb eq_refl). reflexivity. }
    assert (H4 : (forall x, In x (cand cfg (e_op e)) -> negb (is_user x) = true)
                 <-> (forall t, In t (cand cfg (e_op e)) -> is_user t = false)).
    { split; intros H t Ht; [apply negb_true_iff|apply negb_true_iff]; apply H; exact Ht. }
    assert (H5 : (forall x, In x (cand cfg (e_op e)) -> nonempty x && negb (mem x seen) = true)
                 <-> (forall t, In t (cand cfg (e_op e)) -> t <> "" /\ ~ In t seen)).
    { split; intros H t Ht.
      - specialize (H t Ht). apply andb_true_iff in H as [Ha Hb]. apply nonempty_iff in Ha.
        apply negb_true_iff in Hb. apply mem_false_iff in Hb. auto.
      - destruct (H t Ht) as [Ha Hb]. apply andb_true_iff. split; [apply nonempty_iff; exact Ha|].
        apply negb_true_iff. apply mem_false_iff. exact Hb. }
    rewrite H1, H2, H3, H4, H5. tauto.
  Qed.

  Lemma wf_from_b_iff tr : forall seen, wf_from_b cfg is_user seen tr = true <-> wf_from cfg is_user seen tr.
  Proof.
    induction tr as [|e r IH]; intros seen; cbn [wf_from_b wf_from]; [tauto|].
    rewrite andb_true_iff, wf_event_b_iff, IH. tauto.
  Qed.

  Lemma wf_b_iff tr : wf_b cfg is_user tr = true <-> wf cfg is_user tr.
  Proof. apply wf_from_b_iff. Qed.

  (* ---------------------------------------------------------------- removed_in *)
  Lemma removes_b_iff t e : removes_b t e = true <-> removes t e.
  Proof.
    unfold removes_b, removes. destruct (e_op e) eqn:Eo;
      try (split; [discriminate|intros (? & H1 & _); discriminate H1]).
    destruct (e_out e) eqn:Ex;
      try (split; [discriminate|intros (? & _ & _ & H3); discriminate H3]).
    rewrite ostr_eqb_eq. split.
    - intros H. exists n. auto.
    - intros (n0 & H1 & H2 & _). inversion H1; subst. reflexivity.
  Qed.

  Lemma removed_in_b_iff mid t : removed_in_b mid t = true <-> removed_in mid t.
  Proof.
    unfold removed_in_b, removed_in. rewrite existsb_exists. split.
    - intros (e & H1 & H2). exists e. split; [exact H1|apply removes_b_iff; exact H2].
    - intros (e & H1 & H2). exists e. split; [exact H1|apply removes_b_iff; exact H2].
  Qed.

  Lemma removed_in_b_false mid t : removed_in_b mid t = false <-> ~ removed_in mid t.
  Proof.
    rewrite <- removed_in_b_iff. destruct (removed_in_b mid t); split; congruence.
  Qed.

  (* ---------------------------------------------------------------- the pair properties *)
  Lemma stable_pair_b_iff ei mid ej : stable_pair_b cfg ei mid ej = true <-> stable_pair cfg ei mid ej.
  Proof.
    unfold stable_pair_b, stable_pair.
    destruct (request_of cfg (e_op ei)) as [[[[u f] s] q]|]; [|split; [intros _; intros; discriminate|reflexivity]].
    destruct (request_of cfg (e_op ej)) as [[[[u' f'] s'] q']|]; [|split; [intros _; intros; discriminate|reflexivity]].
    destruct (e_out ei) as [|ni| | |]; try (split; [intros _; intros; discriminate|reflexivity]).
    destruct (e_out ej) as [|nj| | |]; try (split; [intros _; intros; discriminate|reflexivity]).
    split.
    - intros H u0 s0 q0 s0' q0' ni0 nj0 E1 E2 Hs Hq E3 E4 Hr.
      inversion E1; inversion E2; inversion E3; inversion E4; subst.
      apply orb_true_iff in H as [H|H]; [|apply ostr_eqb_eq; exact H].
      apply negb_true_iff in H. exfalso.
      rewrite !String.eqb_refl in H. apply same_qb_iff in Hs, Hq. rewrite Hs, Hq in H.
      apply removed_in_b_false in Hr. rewrite Hr in H. discriminate.
    - intros H. destruct (ostr_eqb (txt ni) (txt nj)) eqn:Et; [apply orb_true_r|].
      rewrite orb_false_r. apply negb_true_iff.
      destruct (String.eqb f NF_PERSISTENT) eqn:E1; [|reflexivity].
      destruct (String.eqb f' NF_PERSISTENT) eqn:E2; [|reflexivity].
      destruct (String.eqb u u') eqn:E3; [|reflexivity].
      destruct (same_qb s s') eqn:E4; [|reflexivity].
      destruct (same_qb q q') eqn:E5; [|reflexivity].
      destruct (removed_in_b mid (txt ni)) eqn:E6; [reflexivity|]. exfalso.
      apply String.eqb_eq in E1, E2, E3. subst.
      apply same_qb_iff in E4, E5. apply removed_in_b_false in E6.
      specialize (H u' s q s' q' ni nj eq_refl eq_refl E4 E5 eq_refl eq_refl E6).
      apply ostr_eqb_eq in H. congruence.
  Qed.

  Lemma distinct_pair_b_iff ei (mid : trace) ej : distinct_pair_b cfg ei mid ej = true <-> distinct_pair cfg ei mid ej.
  Proof.
    unfold distinct_pair_b, distinct_pair.
    destruct (request_of cfg (e_op ei)) as [[[[u f] s] q]|]; [|split; [intros _; intros; discriminate|reflexivity]].
    destruct (request_of cfg (e_op ej)) as [[[[u' f'] s'] q']|]; [|split; [intros _; intros; discriminate|reflexivity]].
    destruct (e_out ei) as [|ni| | |]; try (split; [intros _; intros; discriminate|reflexivity]).
    destruct (e_out ej) as [|nj| | |]; try (split; [intros _; intros; discriminate|reflexivity]).
    split.
    - intros H u0 s0 q0 u0' s0' q0' ni0 nj0 E1 E2 Hd E3 E4 Ht.
      inversion E1; inversion E2; inversion E3; inversion E4; subst.
      apply orb_true_iff in H as [H|H].
      + apply negb_true_iff in H. rewrite !String.eqb_refl in H. cbn [andb] in H.
        apply orb_false_iff in H as [Ha Hb]. apply negb_false_iff in Ha, Hb.
        apply String.eqb_eq in Ha. apply same_qb_iff in Hb. tauto.
      + apply negb_true_iff in H. apply ostr_eqb_neq in H. contradiction.
    - intros H. destruct (ostr_eqb (txt ni) (txt nj)) eqn:Et; [|apply orb_true_r].
      cbn [negb]. rewrite orb_false_r. apply negb_true_iff.
      destruct (String.eqb f NF_PERSISTENT) eqn:E1; [|reflexivity].
      destruct (String.eqb f' NF_PERSISTENT) eqn:E2; [|reflexivity]. cbn [andb].
      apply String.eqb_eq in E1, E2. subst. apply ostr_eqb_eq in Et.
      destruct (String.eqb u u') eqn:E3; cbn [negb orb].
      + destruct (same_qb s s') eqn:E4; [reflexivity|]. exfalso.
        refine (H u s q u' s' q' ni nj eq_refl eq_refl _ eq_refl eq_refl Et).
        right. intros Hq. apply same_qb_iff in Hq. congruence.
      + exfalso. apply String.eqb_neq in E3.
        exact (H u s q u' s' q' ni nj eq_refl eq_refl (or_introl E3) eq_refl eq_refl Et).
  Qed.

  Lemma reverse_pair_b_iff ei mid ej : reverse_pair_b cfg ei mid ej = true <-> reverse_pair cfg ei mid ej.
  Proof.
    unfold reverse_pair_b, reverse_pair.
    destruct (request_of cfg (e_op ei)) as [[[[u f] s] q]|]; [|split; [intros _; intros; discriminate|reflexivity]].
    destruct (e_out ei) as [|ni| | |]; try (split; [intros _; intros; discriminate|reflexivity]).
    destruct (e_op ej) as [| | | | | | | | | | |m|]; try (split; [intros _; intros; discriminate|reflexivity]).
    split.
    - intros H u0 f0 s0 q0 ni0 m0 E1 E2 E3 Et. inversion E1; inversion E2; inversion E3; subst.
      apply orb_true_iff in H as [H|H].
      + apply negb_true_iff in H. apply ostr_eqb_neq in H. contradiction.
      + apply andb_true_iff in H as [Ha Hb]. split.
        * intros u' Eo. rewrite Eo in Ha. apply String.eqb_eq in Ha. exact Ha.
        * intros Hr. apply removed_in_b_false in Hr. rewrite Hr in Hb. cbn [orb] in Hb.
          apply out_eqb_eq in Hb. exact Hb.
    - intros H. destruct (ostr_eqb (txt m) (txt ni)) eqn:Et; [|reflexivity]. cbn [negb orb].
      apply ostr_eqb_eq in Et. destruct (H u f s q ni m eq_refl eq_refl eq_refl Et) as [Ha Hb].
      apply andb_true_iff. split.
      + destruct (e_out ej) as [| | |u'|]; try reflexivity. apply String.eqb_eq. apply Ha. reflexivity.
      + destruct (removed_in_b mid (txt ni)) eqn:Er; [reflexivity|]. cbn [orb].
        apply out_eqb_eq. apply Hb. apply removed_in_b_false. exact Er.
  Qed.

  (* ---------------------------------------------------------------- the event properties *)
  Lemma valued_event_b_iff (pre : trace) e : valued_event_b cfg pre e = true <-> valued_event cfg pre e.
  Proof.
    unfold valued_event_b, valued_event.
    destruct (request_of cfg (e_op e)) as [[[[u f] s] q]|]; [|split; [intros _; intros; discriminate|reflexivity]].
    destruct (e_out e) as [|n| | |]; try (split; [intros _; intros; discriminate|reflexivity]).
    split.
    - intros H u0 f0 s0 q0 n0 _ E. inversion E; subst. exact H.
    - intros H. apply (H u f s q n eq_refl eq_refl).
  Qed.

  Lemma transient_event_b_iff pre e : transient_event_b cfg pre e = true <-> transient_event cfg pre e.
  Proof.
    unfold transient_event_b, transient_event.
    destruct (request_of cfg (e_op e)) as [[[[u f] s] q]|]; [|split; [intros _; intros; discriminate|reflexivity]].
    destruct (e_out e) as [|n| | |]; try (split; [intros _; intros; discriminate|reflexivity]).
    assert (Hin : forall t, forallb (fun e0 => negb (existsb (ostr_eqb (Some t)) (out_texts (e_out e0)))) pre = true
                   <-> (forall e0, In e0 pre -> ~ In (Some t) (out_texts (e_out e0)))).
    { intros t. rewrite forallb_forall. split; intros H e0 He0.
      - intros Hi. specialize (H e0 He0). apply negb_true_iff in H.
        assert (Hx : existsb (ostr_eqb (Some t)) (out_texts (e_out e0)) = true).
        { apply existsb_exists. exists (Some t). split; [exact Hi|apply ostr_eqb_refl]. }
        congruence.
      - apply negb_true_iff. destruct (existsb (ostr_eqb (Some t)) (out_texts (e_out e0))) eqn:Ex; [|reflexivity].
        apply existsb_exists in Ex as (x & Hx1 & Hx2). apply ostr_eqb_eq in Hx2. subst x.
        exfalso. exact (H e0 He0 Hx1). }
    split.
    - intros H u0 s0 q0 n0 E1 E2. inversion E1; inversion E2; subst.
      rewrite String.eqb_refl in H. cbn [negb orb] in H.
      destruct (txt n0) as [t|]; [|discriminate]. apply andb_true_iff in H as [Ha Hb].
      exists t. split; [reflexivity|]. split; [apply ostr_eqb_eq; exact Ha|]. apply Hin. exact Hb.
    - intros H. destruct (String.eqb f NF_TRANSIENT) eqn:Ef; [|reflexivity]. cbn [negb orb].
      apply String.eqb_eq in Ef. subst f.
      destruct (H u s q n eq_refl eq_refl) as (t & Ht & Hl & Hp). rewrite Ht.
      apply andb_true_iff. split; [apply ostr_eqb_eq; exact Hl|apply Hin; exact Hp].
  Qed.

  Lemma key_ne_iff k o : key_ne k o = true <-> Some k <> o.
  Proof. unfold key_ne. rewrite negb_true_iff. apply ostr_eqb_neq. Qed.

  Lemma forall_keys_iff (a b : db) (P : string -> bool) :
    (forall k, lookup k a = None -> lookup k b = None -> P k = true) ->
    (forallb (fun kv => P (fst kv)) (a ++ b)%list = true <-> forall k, P k = true).
  Proof.
    intros Hnone. rewrite forallb_forall. split.
    - intros H k. destruct (in_dec string_dec k (map fst (a ++ b))) as [Hi|Hn].
      + apply in_keys_pair in Hi as (kv & Hkv & <-). apply H. exact Hkv.
      + rewrite map_app, in_app_iff in Hn. apply Hnone; apply lookup_none_notin; tauto.
    - intros H kv _. apply H.
  Qed.

  Lemma manage_event_b_iff (pre : trace) e : manage_event_b pre e = true <-> manage_event pre e.
  Proof.
    unfold manage_event_b, manage_event.
    destruct (e_op e) as [| | | | | | | | | |n newid enc term| |];
      try (split; [intros _; intros; discriminate|reflexivity]).
    split.
    - intros H n0 newid0 enc0 term0 E. inversion E; subst. clear E.
      destruct (e_out e) as [|n'| | |x]; try discriminate.
      + rewrite !andb_true_iff, !ostr_eqb_eq in H.
        destruct H as [[[[[[H1 H2] H3] H4] H5] H6] H7].
        repeat (split; [assumption|]). split; [|split; [exact H6|]].
        * intros k Hk1 Hk2.
          assert (Hall : forall k, negb (key_ne k (txt n0) && key_ne k (lookup_opt (txt n0) (e_pre e)))
                          || ostr_eqb (lookup k (e_post e)) (lookup k (e_pre e)) = true).
          { apply (forall_keys_iff (e_post e) (e_pre e)
               (fun k => negb (key_ne k (txt n0) && key_ne k (lookup_opt (txt n0) (e_pre e)))
                          || ostr_eqb (lookup k (e_post e)) (lookup k (e_pre e)))); [|exact H5].
            intros k0 Ha Hb. rewrite Ha, Hb. apply orb_true_r. }
          specialize (Hall k). apply orb_true_iff in Hall as [Hall|Hall].
          -- apply negb_true_iff, andb_false_iff in Hall as [Hall|Hall];
               [apply key_ne_iff in Hk1|apply key_ne_iff in Hk2]; congruence.
          -- apply ostr_eqb_eq; exact Hall.
        * intros u Hu. rewrite Hu in H7. apply (list_eqb_eq String.eqb String.eqb_eq). exact H7.
      + apply db_eqb_iff. exact H.
    - intros H. specialize (H n newid enc term eq_refl).
      destruct (e_out e) as [|n'| | |x]; try contradiction.
      + destruct H as (H1 & H2 & H3 & H4 & H5 & H6 & H7).
        rewrite !andb_true_iff, !ostr_eqb_eq. repeat split; try assumption.
        * apply (forall_keys_iff (e_post e) (e_pre e)
               (fun k => negb (key_ne k (txt n) && key_ne k (lookup_opt (txt n) (e_pre e)))
                          || ostr_eqb (lookup k (e_post e)) (lookup k (e_pre e)))).
          { intros k0 Ha Hb. rewrite Ha, Hb. apply orb_true_r. }
          intros k. destruct (key_ne k (txt n)) eqn:E1; [|reflexivity].
          destruct (key_ne k (lookup_opt (txt n) (e_pre e))) eqn:E2; [|reflexivity]. cbn [andb negb orb].
          apply ostr_eqb_eq. apply H5; apply key_ne_iff; assumption.
        * destruct (lookup_opt (txt n) (e_pre e)) as [u|]; [|reflexivity].
          apply (list_eqb_eq String.eqb String.eqb_eq). apply H7. reflexivity.
      + apply db_eqb_iff. exact H.
  Qed.

  (* ---------------------------------------------------------------- consistency of a state *)
  Definition tab_of (d0 : db) (l : db) : list (string * list (option string)) :=
    flat_map (fun kv => if is_user (fst kv) then [(fst kv, texts_of d0 (fst kv))] else []) l.

  Lemma in_tab_of d0 l u ts : In (u, ts) (tab_of d0 l) -> is_user u = true /\ ts = texts_of d0 u /\ In u (map fst l).
  Proof.
    unfold tab_of. rewrite in_flat_map. intros (kv & Hkv & Hin).
    destruct (is_user (fst kv)) eqn:Eu; [|destruct Hin]. destruct Hin as [E|[]]. inversion E; subst.
    repeat split; [exact Eu|]. apply in_map. exact Hkv.
  Qed.

  Lemma tab_of_in d0 l u : is_user u = true -> In u (map fst l) -> In (u, texts_of d0 u) (tab_of d0 l).
  Proof.
    intros Hu Hin. apply in_keys_pair in Hin as (kv & Hkv & <-). unfold tab_of. apply in_flat_map.
    exists kv. split; [exact Hkv|]. rewrite Hu. left; reflexivity.
  Qed.

  Lemma assoc_tab_of d0 u : forall l ts, assoc u (tab_of d0 l) = Some ts -> ts = texts_of d0 u.
  Proof.
    induction l as [|[k v] r IH]; intros ts; cbn [tab_of flat_map assoc fst]; [discriminate|].
    destruct (is_user k) eqn:Ek; cbn [app assoc].
    - destruct (String.eqb u k) eqn:E.
      + apply String.eqb_eq in E. subst k. intros H. inversion H. reflexivity.
      + apply IH.
    - apply IH.
  Qed.

  Lemma assoc_tab_of_some d0 u : is_user u = true -> forall l, In u (map fst l) ->
    assoc u (tab_of d0 l) = Some (texts_of d0 u).
  Proof.
    intros Hu. induction l as [|[k v] r IH]; [intros []|]. cbn [map fst In tab_of flat_map].
    intros Hin. destruct (String.eqb u k) eqn:E.
    - apply String.eqb_eq in E. subst k. rewrite Hu. cbn [app assoc]. rewrite String.eqb_refl. reflexivity.
    - destruct Hin as [->|Hin]; [rewrite String.eqb_refl in E; discriminate|].
      destruct (is_user k); cbn [app assoc]; [rewrite E|]; apply IH; exact Hin.
  Qed.

  Lemma forward_ok_b_iff d : forward_ok_b is_user d = true <-> forward_ok is_user d.
  Proof.
    unfold forward_ok_b, forward_ok. change (fwd_table is_user d) with (tab_of d d).
    rewrite forallb_forall. split.
    - intros H u c Hu Hc. destruct (fw_in_key d u c Hc) as [v Hv].
      specialize (H _ (tab_of_in d d u Hu (lookup_some_in _ _ _ Hv))). cbn [fst snd] in H.
      rewrite forallb_forall in H. specialize (H (ctext c)).
      assert (Hi : In (ctext c) (texts_of d u)) by (unfold texts_of; apply in_map; exact Hc).
      specialize (H Hi). destruct (ctext c) as [t|]; [|discriminate].
      exists t. split; [reflexivity|apply ostr_eqb_eq; exact H].
    - intros H [u ts] Hin. apply in_tab_of in Hin as (Hu & -> & _). cbn [fst snd].
      apply forallb_forall. intros x Hx. unfold texts_of in Hx. apply in_map_iff in Hx as (c & <- & Hc).
      destruct (H u c Hu Hc) as (t & -> & Hl). apply ostr_eqb_eq. exact Hl.
  Qed.

  Lemma reverse_ok_b_iff d : reverse_ok_b is_user d = true <-> reverse_ok is_user d.
  Proof.
    unfold reverse_ok_b, reverse_ok. change (fwd_table is_user d) with (tab_of d d).
    rewrite forallb_forall. split.
    - intros H t u Ht Hl.
      destruct (in_keys_pair t d (lookup_some_in _ _ _ Hl)) as (kv & Hkv & Hk).
      specialize (H kv Hkv). cbn zeta in H. rewrite Hk, Ht, Hl in H. cbn [orb] in H.
      apply andb_true_iff in H as [Hu H]. split; [exact Hu|].
      destruct (assoc u (tab_of d d)) as [ts|] eqn:Ea; [|discriminate].
      apply assoc_tab_of in Ea. subst ts. apply existsb_exists in H as (x & Hx & He).
      apply ostr_eqb_eq in He. subst x. unfold texts_of in Hx. apply in_map_iff in Hx as (c & Hc1 & Hc2).
      exists c. auto.
    - intros H kv Hkv. cbn zeta. destruct (is_user (fst kv)) eqn:Eu; [reflexivity|]. cbn [orb].
      destruct (lookup (fst kv) d) as [u|] eqn:El; [|reflexivity].
      destruct (H _ _ Eu El) as (Hu & c & Hc & Ht). rewrite Hu. cbn [andb].
      destruct (fw_in_key d u c Hc) as [v Hv].
      rewrite (assoc_tab_of_some d u Hu d (lookup_some_in _ _ _ Hv)).
      apply existsb_exists. exists (Some (fst kv)). split; [|apply ostr_eqb_refl].
      rewrite <- Ht. unfold texts_of. apply in_map. exact Hc.
  Qed.

  Lemma consistent_event_b_iff (pre : trace) e : consistent_event_b is_user pre e = true <-> consistent_event is_user pre e.
  Proof.
    unfold consistent_event_b, consistent_event. rewrite andb_true_iff, forward_ok_b_iff, reverse_ok_b_iff. tauto.
  Qed.

  (* ---------------------------------------------------------------- issued = stored; reverse lookup = store *)
  Lemma issued_event_b_iff (pre : trace) e : issued_event_b cfg pre e = true <-> issued_event cfg pre e.
  Proof.
    unfold issued_event_b, issued_event.
    destruct (request_of cfg (e_op e)) as [[[[u f] s] q]|]; [|split; [intros _; intros; discriminate|reflexivity]].
    destruct (e_out e) as [|n| | |]; try (split; [intros _; intros; discriminate|reflexivity]).
    split.
    - intros H u0 f0 s0 q0 n0 E1 E2. inversion E1; inversion E2; subst.
      rewrite !andb_true_iff in H. destruct H as [[[H1 H2] H3] H4].
      apply ostr_eqb_eq in H1. apply same_qb_iff in H2, H3.
      repeat (split; [assumption|]).
      destruct (txt n0) as [t|]; [|discriminate]. apply andb_true_iff in H4 as [H4 H5].
      exists t. split; [reflexivity|]. split; [apply ostr_eqb_eq; exact H4|apply mem_In; exact H5].
    - intros H. destruct (H u f s q n eq_refl eq_refl) as (H1 & H2 & H3 & t & Ht & Hl & Hin).
      rewrite !andb_true_iff. repeat split.
      + apply ostr_eqb_eq; exact H1.
      + apply same_qb_iff; exact H2.
      + apply same_qb_iff; exact H3.
      + rewrite Ht. apply andb_true_iff. split; [apply ostr_eqb_eq; exact Hl|apply mem_In; exact Hin].
  Qed.

  Lemma findlocal_event_b_iff (pre : trace) e : findlocal_event_b pre e = true <-> findlocal_event pre e.
  Proof.
    unfold findlocal_event_b, findlocal_event.
    destruct (e_op e) as [| | | | | | | | | | |m|]; try (split; [intros _; intros; discriminate|reflexivity]).
    rewrite out_eqb_eq. split.
    - intros H m0 E. inversion E; subst. exact H.
    - intros H. apply H. reflexivity.
  Qed.

  Lemma matches_b_iff flt n : matches_b flt n = true <-> matches flt n.
  Proof.
    unfold matches_b, matches. rewrite forallb_forall. split.
    - intros H i v Hin. apply ostr_eqb_eq. apply (H (i, v) Hin).
    - intros H [i v] Hin. apply ostr_eqb_eq. apply (H i v Hin).
  Qed.

  Lemma find_event_b_iff (pre : trace) e : find_event_b pre e = true <-> find_event pre e.
  Proof.
    unfold find_event_b, find_event.
    destruct (e_op e) as [| | | |u flt| | | | | | | |]; try (split; [intros _; intros; discriminate|reflexivity]).
    split.
    - intros H u0 flt0 E. inversion E; subst u0 flt0.
      destruct (decoded (fw (e_pre e) u)) as [all|]; [|discriminate].
      exists all. split; [reflexivity|]. apply out_eqb_eq. exact H.
    - intros H. destruct (H u flt eq_refl) as (all & Hd & Ho). rewrite Hd. apply out_eqb_eq. exact Ho.
  Qed.

  Lemma lookup_event_b_iff (pre : trace) e : lookup_event_b pre e = true <-> lookup_event pre e.
  Proof.
    unfold lookup_event_b, lookup_event.
    destruct (e_op e) as [| | | | |u s q| | | | | | |]; try (split; [intros _; intros; discriminate|reflexivity]).
    destruct (e_out e) as [|n| | |]; try (split; [intros _; intros; discriminate|reflexivity]).
    rewrite !andb_true_iff, ostr_eqb_eq, !same_qb_iff. split.
    - intros [[[H1 H2] H3] H4] u0 s0 q0 n0 E1 E2. inversion E1; inversion E2; subst.
      split; [apply mem_In; exact H1|]. auto.
    - intros H. destruct (H u s q n eq_refl eq_refl) as (H1 & H2 & H3 & H4).
      repeat split; try assumption. apply mem_In. exact H1.
  Qed.

  Lemma effect_event_b_iff (pre : trace) e : effect_event_b pre e = true <-> effect_event pre e.
  Proof.
    unfold effect_event_b, effect_event.
    destruct (e_op e) as [| | | | | | | | | |n newid enc term| |];
      try (split; [intros _; intros; discriminate|reflexivity]).
    split.
    - intros H n0 newid0 enc0 term0 u x E Hl Hin Hw. inversion E; subst n0 newid0 enc0 term0. clear E.
      rewrite Hl, Hw in H. apply mem_In in Hin. rewrite Hin in H. cbn [negb orb] in H.
      destruct (e_out e) as [|n'| | |]; try discriminate.
      apply andb_true_iff in H as [H1 H2]. exists n'. split; [reflexivity|].
      split; [apply ostr_eqb_eq; exact H1|apply (list_eqb_eq String.eqb String.eqb_eq); exact H2].
    - intros H. destruct (lookup_opt (txt n) (e_pre e)) as [u|] eqn:Hl; [|reflexivity].
      destruct (wanted n newid enc term) as [x|] eqn:Hw; [|reflexivity].
      destruct (mem (code n) (fw (e_pre e) u)) eqn:Hm; [|reflexivity]. cbn [negb orb].
      apply mem_In in Hm. destruct (H n newid enc term u x eq_refl Hl Hm Hw) as (n' & -> & H1 & H2).
      apply andb_true_iff. split; [apply ostr_eqb_eq; exact H1|apply (list_eqb_eq String.eqb String.eqb_eq); exact H2].
  Qed.

  (* ---------------------------------------------------------------- the whole identifier spec *)
  Theorem ident_spec_b_iff tr : ident_spec_b cfg is_user tr = true <-> ident_spec cfg is_user tr.
  Proof.
    unfold ident_spec_b, ident_spec, ident_spec_parts_b. cbn [forallb].
    rewrite orb_true_iff, negb_true_iff, !andb_true_iff.
    rewrite (all_pairs_reflect _ _ tr stable_pair_b_iff), (all_pairs_reflect _ _ tr distinct_pair_b_iff),
      (all_pairs_reflect _ _ tr reverse_pair_b_iff), (all_events_reflect _ _ tr valued_event_b_iff),
      (all_events_reflect _ _ tr transient_event_b_iff), (all_events_reflect _ _ tr manage_event_b_iff),
      (all_events_reflect _ _ tr consistent_event_b_iff), (all_events_reflect _ _ tr issued_event_b_iff),
      (all_events_reflect _ _ tr findlocal_event_b_iff), (all_events_reflect _ _ tr find_event_b_iff),
      (all_events_reflect _ _ tr lookup_event_b_iff), (all_events_reflect _ _ tr effect_event_b_iff).
    pose proof (wf_b_iff tr) as Hw. destruct (wf_b cfg is_user tr).
    - split.
      + intros [H|H]; [discriminate|]. intros _. tauto.
      + intros H. right. assert (Hwf : wf cfg is_user tr) by (apply Hw; reflexivity). specialize (H Hwf). tauto.
    - split; [|auto]. intros _ Hwf. apply Hw in Hwf. discriminate.
  Qed.

  (* ---------------------------------------------------------------- the guards *)
  Lemma qualified_event_b_iff e : qualified_event_b cfg e = true <-> qualified_event cfg e.
  Proof.
    unfold qualified_event_b, qualified_event.
    destruct (request_of cfg (e_op e)) as [[[[u f] s] q]|]; [|split; [intros _; intros; discriminate|reflexivity]].
    split.
    - intros H u0 s0 q0 E. inversion E; subst. rewrite String.eqb_refl in H. exact H.
    - intros H. destruct (String.eqb f NF_PERSISTENT) eqn:Ef; [|reflexivity]. cbn [negb orb].
      apply String.eqb_eq in Ef. subst f. apply (H u s q eq_refl).
  Qed.

  Lemma qualified_b_iff tr : qualified_b cfg tr = true <-> qualified cfg tr.
  Proof.
    unfold qualified_b, qualified. rewrite forallb_forall, Forall_forall.
    split; intros H e He; apply qualified_event_b_iff; apply H; exact He.
  Qed.

  Lemma single_valued_event_b_iff e : single_valued_event_b cfg e = true <-> single_valued_event cfg e.
  Proof.
    unfold single_valued_event_b, single_valued_event.
    destruct (adds cfg e) as [[[u s] q]|]; [|split; [intros _; intros; discriminate|reflexivity]].
    split.
    - intros H u0 s0 q0 E. inversion E; subst.
      destruct (match_local_id_v0 (e_pre e) u0 s0 q0) as [[m|]|x]; try discriminate. reflexivity.
    - intros H. rewrite (H u s q eq_refl). reflexivity.
  Qed.

  Lemma single_valued_b_iff tr : single_valued_b cfg tr = true <-> single_valued cfg tr.
  Proof.
    unfold single_valued_b, single_valued. rewrite forallb_forall, Forall_forall.
    split; intros H e He; apply single_valued_event_b_iff; apply H; exact He.
  Qed.
End Ident.

(* ------------------------------------------------------------------ encoding *)
Lemma opt_nameid_eqb_eq a b : opt_eqb nameid_eqb a b = true <-> a = b.
Proof.
  destruct a as [x|], b as [y|]; cbn; try (split; [discriminate|discriminate]).
  - rewrite nameid_eqb_eq. split; [intros ->; reflexivity|intros E; inversion E; reflexivity].
  - split; reflexivity.
Qed.

Theorem codec_spec_b_iff items : codec_spec_b items = true <-> codec_spec items.
Proof.
  unfold codec_spec_b, codec_spec. rewrite andb_true_iff, !forallb_forall. split.
  - intros [H1 H2]. split.
    + intros n c dn Hin. specialize (H1 _ Hin). cbn in H1. apply opt_nameid_eqb_eq. exact H1.
    + intros n c dn n' c' dn' Hin Hin' Ec. specialize (H2 _ Hin). cbn in H2.
      rewrite forallb_forall in H2. specialize (H2 _ Hin'). cbn in H2. subst c'.
      rewrite String.eqb_refl in H2. cbn [negb orb] in H2. apply nameid_eqb_eq. exact H2.
  - intros [H1 H2]. split.
    + intros [[n c] dn] Hin. apply opt_nameid_eqb_eq. apply (H1 n c dn Hin).
    + intros [[n c] dn] Hin. apply forallb_forall. intros [[n' c'] dn'] Hin'.
      destruct (String.eqb c c') eqn:E; [|reflexivity]. cbn [negb orb]. apply String.eqb_eq in E.
      apply nameid_eqb_eq. apply (H2 n c dn n' c' dn' Hin Hin' E).
Qed.

(* ------------------------------------------------------------------ targeted id *)
Theorem eptid_spec_b_iff obs : eptid_spec_b obs = true <-> eptid_spec obs.
Proof.
  unfold eptid_spec_b, eptid_spec. rewrite andb_true_iff, !forallb_forall. split.
  - intros [H1 H2]. split.
    + intros x v f Hin. specialize (H1 _ Hin). cbn in H1. apply String.eqb_eq. exact H1.
    + intros x v f x' v' f' Hin Hin' Ei Hd Ev. specialize (H2 _ Hin). cbn in H2.
      rewrite forallb_forall in H2. specialize (H2 _ Hin'). cbn in H2.
      apply orb_true_iff in H2 as [H2|H2].
      * apply negb_true_iff in H2. apply andb_false_iff in H2 as [H2|H2].
        -- apply String.eqb_neq in H2. contradiction.
        -- apply orb_false_iff in H2 as [Ha Hb]. apply negb_false_iff in Ha, Hb.
           apply String.eqb_eq in Ha, Hb. tauto.
      * apply negb_true_iff in H2. apply String.eqb_neq in H2. contradiction.
  - intros [H1 H2]. split.
    + intros [[x v] f] Hin. apply String.eqb_eq. apply (H1 x v f Hin).
    + intros [[x v] f] Hin. apply forallb_forall. intros [[x' v'] f'] Hin'.
      destruct (String.eqb v v') eqn:Ev; [|apply orb_true_r]. cbn [negb]. rewrite orb_false_r.
      apply String.eqb_eq in Ev. apply negb_true_iff.
      destruct (String.eqb (c_idp x) (c_idp x')) eqn:Ei; [|reflexivity]. cbn [andb].
      apply String.eqb_eq in Ei.
      destruct (String.eqb (c_sp x) (c_sp x')) eqn:Es; cbn [negb orb].
      * destruct (String.eqb (euser x) (euser x')) eqn:Eu; [reflexivity|]. exfalso.
        apply String.eqb_neq in Eu. exact (H2 x v f x' v' f' Hin Hin' Ei (or_intror Eu) Ev).
      * exfalso. apply String.eqb_neq in Es. exact (H2 x v f x' v' f' Hin Hin' Ei (or_introl Es) Ev).
Qed.

Lemma same_extras_b_iff h : same_extras_b h = true <-> same_extras h.
Proof.
  unfold same_extras_b, same_extras. rewrite forallb_forall. split.
  - intros H x x' Hx Hx'. specialize (H x Hx). rewrite forallb_forall in H.
    apply (list_eqb_eq String.eqb String.eqb_eq). apply H. exact Hx'.
  - intros H x Hx. apply forallb_forall. intros x' Hx'.
    apply (list_eqb_eq String.eqb String.eqb_eq). apply H; assumption.
Qed.
