(* C03/Proofs.v *)
From Coq Require Import String List Bool Arith.
From Verif Require Import Base.Str C03.Model C03.Spec.
Import ListNotations.

Section Proofs.
  Variables key cert msg sig : Type.
  Variable cert_of : key -> cert.
  Variable sign : key -> msg -> sig.
  Variable verify : cert -> msg -> sig -> bool.

  (* ideal signatures (DESIGN 3.2): verification succeeds exactly for the signer's certificate, and
     a signature identifies the key that made it *)
  Hypothesis verify_spec : forall c mm ss, verify c mm ss = true <-> exists k, c = cert_of k /\ ss = sign k mm.
  Hypothesis sign_inj : forall k k' mm, sign k mm = sign k' mm -> k = k'.

  Lemma extract_signing_in (role : list (keydesc cert)) c :
    In c (extract_signing role) <-> exists u, In (u, c) role /\ u <> Some Encryption.
  Proof.
    unfold extract_signing. rewrite in_flat_map. split.
    - intros [[u c'] [Hin Hc]]. cbn [fst snd] in Hc. destruct u as [[|]|]; cbn in Hc.
      + destruct Hc as [<-|[]]. exists (Some Signing). split; [exact Hin|discriminate].
      + contradiction.
      + destruct Hc as [<-|[]]. exists None. split; [exact Hin|discriminate].
    - intros [u [Hin Hu]]. exists (u, c). split; [exact Hin|]. cbn [fst snd].
      destruct u as [[|]|]; cbn; auto; try (contradiction Hu; reflexivity).
  Qed.

  Lemma signing_certs_published (md : metadata cert) e c :
    In c (signing_certs md (Some e)) <-> published_for_signing md e c.
  Proof.
    unfold signing_certs, published_for_signing. destruct (lookup_md e md) as [roles|].
    - rewrite in_flat_map. split.
      + intros [role [Hr Hc]]. apply extract_signing_in in Hc as [u [Hin Hu]].
        exists roles, role, u. auto.
      + intros (roles' & role & u & [= <-] & Hr & Hin & Hu). exists role. split; [exact Hr|].
        apply extract_signing_in. exists u. auto.
    - split; [intros []|]. intros (roles & _ & _ & H & _). discriminate.
  Qed.

  Lemma candidates_trusted (x : input cert msg sig) c : In c (candidates x) -> trusted_for x c.
  Proof.
    unfold candidates, trusted_for.
    destruct (claimed x) as [e|] eqn:Ec.
    - destruct (detached x) eqn:Ed.
      + intros H. left. exists e. split; [reflexivity|]. apply signing_certs_published; exact H.
      + destruct (signing_certs (md x) (Some e)) as [|c0 r] eqn:Es.
        * destruct (only_md x) eqn:Eo; [intros []|]. intros H. right. repeat split; auto.
          intros e' c' [= <-] Hp. apply signing_certs_published in Hp. rewrite Es in Hp. exact Hp.
        * intros H. left. exists e. split; [reflexivity|]. apply signing_certs_published. rewrite Es. exact H.
    - cbn [signing_certs]. destruct (detached x) eqn:Ed; [intros []|].
      destruct (only_md x) eqn:Eo; [intros []|]. intros H. right. repeat split; auto.
      intros e c' [=].
  Qed.

  Lemma try_certs_handed cs mm ss c : In c (snd (try_certs verify cs mm ss)) -> In c cs.
  Proof.
    induction cs as [|c0 r IH]; cbn [try_certs]; [intros []|].
    destruct (verify c0 mm ss).
    - cbn. intros [<-|[]]. left; reflexivity.
    - destruct (try_certs verify r mm ss) as [ok h]. cbn [snd] in *. intros [<-|H]; [left; reflexivity|right; exact (IH H)].
  Qed.

  Lemma try_certs_true cs mm ss :
    fst (try_certs verify cs mm ss) = true <-> exists c, In c cs /\ verify c mm ss = true.
  Proof.
    induction cs as [|c0 r IH]; cbn [try_certs].
    - split; [discriminate|intros [c [[] _]]].
    - destruct (verify c0 mm ss) eqn:V.
      + cbn. split; [intros _; exists c0; auto|reflexivity].
      + destruct (try_certs verify r mm ss) as [ok h]. cbn [fst] in *. rewrite IH. split.
        * intros [c [Hin Hv]]. exists c. split; [right; exact Hin|exact Hv].
        * intros [c [[<-|Hin] Hv]]; [congruence|exists c; auto].
  Qed.

  Lemma accept_sound (x : input cert msg sig) : sound cert_of sign x (accept verify x).
  Proof.
    unfold sound, accept. split; [|split].
    - intros c Hc. apply candidates_trusted. exact (try_certs_handed _ _ _ _ Hc).
    - intros H. apply try_certs_true in H as [c [_ Hv]]. apply verify_spec in Hv as [k [_ Hs]].
      exists k. exact Hs.
    - intros H k Hk. apply try_certs_true in H as [c [Hin Hv]]. apply verify_spec in Hv as [k' [-> Hs]].
      unfold made_by in Hk. rewrite Hk in Hs. apply sign_inj in Hs. subst k'. apply candidates_trusted; exact Hin.
  Qed.

  Lemma accept_complete (x : input cert msg sig) : complete cert_of sign x (accept verify x).
  Proof.
    unfold complete, accept. intros k e Hk He Hp. apply try_certs_true. exists (cert_of k). split.
    - apply signing_certs_published in Hp. unfold candidates. rewrite He.
      destruct (detached x); [exact Hp|]. destruct (signing_certs (md x) (Some e)); [contradiction|exact Hp].
    - apply verify_spec. exists k. split; [reflexivity|exact Hk].
  Qed.

  Lemma trust_holds (x : input cert msg sig) : spec cert_of sign x (accept verify x).
  Proof. split; [apply accept_sound|apply accept_complete]. Qed.

  (* corollaries named in the property text (defaults: only_md = true) *)
  Lemma unknown_issuer_rejected (x : input cert msg sig) :
    only_md x = true -> (forall e, claimed x = Some e -> lookup_md e (md x) = None) -> fst (accept verify x) = false.
  Proof.
    intros Ho Hu. unfold accept, candidates. assert (E : signing_certs (md x) (claimed x) = []).
    { unfold signing_certs. destruct (claimed x) as [e|]; [|reflexivity]. rewrite (Hu e eq_refl). reflexivity. }
    rewrite E, Ho. destruct (detached x); reflexivity.
  Qed.
End Proofs.

(* ---- term-algebra instance: the hypotheses are satisfiable, and the model runs ---- *)
Definition ikey := nat.
Definition icert := nat.
Definition imsg := nat.
Definition isig := (nat * nat)%type.
Definition icert_of (k : ikey) : icert := k.
Definition isign (k : ikey) (mm : imsg) : isig := (k, mm).
Definition iverify (c : icert) (mm : imsg) (ss : isig) : bool := Nat.eqb c (fst ss) && Nat.eqb mm (snd ss).

Lemma iverify_spec c mm ss : iverify c mm ss = true <-> exists k, c = icert_of k /\ ss = isign k mm.
Proof.
  unfold iverify, icert_of, isign. rewrite andb_true_iff, !Nat.eqb_eq. destruct ss as [a b]. cbn [fst snd]. split.
  - intros [-> ->]. exists a. auto.
  - intros [k [-> [= -> ->]]]. auto.
Qed.

Lemma isign_inj k k' mm : isign k mm = isign k' mm -> k = k'.
Proof. intros [= ->]. reflexivity. Qed.

Lemma instance_trust (x : input icert imsg isig) : spec icert_of isign x (accept iverify x).
Proof. apply trust_holds; [exact iverify_spec|exact isign_inj]. Qed.

(* non-vacuity: metadata with a signing, a rotated signing and an encryption-only key *)
Example rotated_key_accepted_encryption_key_rejected :
  let mdx : metadata icert := [("idp", [[(Some Signing, 1); (Some Signing, 2); (Some Encryption, 3)]]); ("other", [[(None, 4)]])] in
  let x k := Build_input mdx true (Some "idp") [k] false 7 (isign k 7) in
  accept iverify (x 2) = (true, [1; 2]) /\ accept iverify (x 3) = (false, [1; 2]) /\ accept iverify (x 4) = (false, [1; 2])
  /\ accept iverify (Build_input mdx false (Some "nobody") [6] false 7 (isign 6 7)) = (true, [6])
  /\ accept iverify (Build_input mdx true (Some "nobody") [6] false 7 (isign 6 7)) = (false, []).
Proof. vm_compute. repeat split; reflexivity. Qed.
