(* C03/Proofs.v *)
From Coq Require Import String List Bool Arith.
From Verif Require Import Base.Str C03.Model C03.Spec.
Import ListNotations.

Section Proofs.
  Variables key cert msg sig : Type.
  Variable cert_of : key -> cert.
  Variable sign : key -> msg -> sig.
  Variable verify : cert -> msg -> sig -> bool.
  Variable readable : cert -> bool.
  Variable blank : cert -> bool.

  (* ideal signatures (DESIGN 3.2): verification succeeds exactly for the signer's certificate, and
     a signature identifies the key that made it *)
  Hypothesis verify_spec : forall c mm ss, verify c mm ss = true <-> exists k, c = cert_of k /\ ss = sign k mm.
  Hypothesis sign_inj : forall k k' mm, sign k mm = sign k' mm -> k = k'.

  Lemma extract_signing_in (role : list (keydesc cert)) c :
    In c (extract_signing blank role) <-> exists u, In (u, c) role /\ u <> Some Encryption /\ blank c = false.
  Proof.
    unfold extract_signing. rewrite in_flat_map. split.
    - intros [[u c'] [Hin Hc]]. cbn [fst snd] in Hc. destruct (blank c') eqn:Eb; [destruct Hc|].
      destruct u as [[|]|]; cbn in Hc.
      + destruct Hc as [<-|[]]. exists (Some Signing). repeat split; [exact Hin|discriminate|exact Eb].
      + contradiction.
      + destruct Hc as [<-|[]]. exists None. repeat split; [exact Hin|discriminate|exact Eb].
    - intros [u (Hin & Hu & Hb)]. exists (u, c). split; [exact Hin|]. cbn [fst snd]. rewrite Hb.
      destruct u as [[|]|]; cbn; auto; try (contradiction Hu; reflexivity).
  Qed.

  Lemma signing_certs_published (md : metadata cert) e c :
    In c (signing_certs blank md (Some e)) <-> published_for_signing blank md e c.
  Proof.
    unfold signing_certs, published_for_signing. destruct (lookup_md e md) as [roles|].
    - rewrite in_flat_map. split.
      + intros [role [Hr Hc]]. apply extract_signing_in in Hc as [u (Hin & Hu & Hb)].
        exists roles, role, u. auto.
      + intros (roles' & role & u & [= <-] & Hr & Hin & Hu & Hb). exists role. split; [exact Hr|].
        apply extract_signing_in. exists u. auto.
    - split; [intros []|]. intros (roles & _ & _ & H & _). discriminate.
  Qed.

  Lemma candidates_trusted (x : input cert msg sig) c : In c (candidates blank x) -> trusted_for blank x c.
  Proof.
    unfold candidates, select, trusted_for.
    destruct (claimed x) as [e|] eqn:Ec.
    - destruct (detached x) eqn:Ed.
      + intros H. left. exists e. split; [reflexivity|]. apply signing_certs_published; exact H.
      + destruct (signing_certs blank (md x) (Some e)) as [|c0 r] eqn:Es.
        * destruct (only_md x) eqn:Eo; [intros []|]. intros H. right. repeat split; auto.
          intros e' c' [= <-] Hp. apply signing_certs_published in Hp. rewrite Es in Hp. exact Hp.
        * intros H. left. exists e. split; [reflexivity|]. apply signing_certs_published. rewrite Es. exact H.
    - cbn [signing_certs]. destruct (detached x) eqn:Ed; [intros []|].
      destruct (only_md x) eqn:Eo; [intros []|]. intros H. right. repeat split; auto.
      intros e c' [=].
  Qed.

  Lemma try_certs_handed cs mm ss c : In c (snd (try_certs verify cs mm ss)) -> In c cs.
  Proof.
    induction cs as [|c0 r IH]; cbn [try_certs]; [intros []|].
    destruct (verify c0 mm ss).
    - cbn. intros [<-|[]]. left; reflexivity.
    - destruct (try_certs verify r mm ss) as [ok h]. cbn [snd] in *. intros [<-|H]; [left; reflexivity|right; exact (IH H)].
  Qed.

  Lemma try_certs_true cs mm ss :
    fst (try_certs verify cs mm ss) = true <-> exists c, In c cs /\ verify c mm ss = true.
  Proof.
    induction cs as [|c0 r IH]; cbn [try_certs].
    - split; [discriminate|intros [c [[] _]]].
    - destruct (verify c0 mm ss) eqn:V.
      + cbn. split; [intros _; exists c0; auto|reflexivity].
      + destruct (try_certs verify r mm ss) as [ok h]. cbn [fst] in *. rewrite IH. split.
        * intros [c [Hin Hv]]. exists c. split; [right; exact Hin|exact Hv].
        * intros [c [[<-|Hin] Hv]]; [congruence|exists c; auto].
  Qed.

  Lemma try_detached_handed cs mm ss c : In c (snd (try_detached verify readable cs mm ss)) -> In c cs.
  Proof.
    induction cs as [|c0 r IH]; cbn [try_detached]; [intros []|].
    destruct (readable c0); [|intros H; right; exact (IH H)].
    destruct (verify c0 mm ss).
    - cbn. intros [<-|[]]. left; reflexivity.
    - destruct (try_detached verify readable r mm ss) as [ok h]. cbn [snd] in *.
      intros [<-|H]; [left; reflexivity|right; exact (IH H)].
  Qed.

  Lemma try_detached_true cs mm ss :
    fst (try_detached verify readable cs mm ss) = true <-> exists c, In c cs /\ readable c = true /\ verify c mm ss = true.
  Proof.
    induction cs as [|c0 r IH]; cbn [try_detached].
    - split; [discriminate|intros [c [[] _]]].
    - destruct (readable c0) eqn:R.
      + destruct (verify c0 mm ss) eqn:V.
        * cbn. split; [intros _; exists c0; repeat split; [left; reflexivity|exact R|exact V]|reflexivity].
        * destruct (try_detached verify readable r mm ss) as [ok h]. cbn [fst] in *. rewrite IH. split.
          -- intros [c (Hin & Hr & Hv)]. exists c. repeat split; [right; exact Hin|exact Hr|exact Hv].
          -- intros [c ([E|Hin] & Hr & Hv)]; [subst c; congruence|].
             exists c. repeat split; [exact Hin|exact Hr|exact Hv].
      + rewrite IH. split.
        * intros [c (Hin & Hr & Hv)]. exists c. repeat split; [right; exact Hin|exact Hr|exact Hv].
        * intros [c ([E|Hin] & Hr & Hv)]; [subst c; congruence|].
          exists c. repeat split; [exact Hin|exact Hr|exact Hv].
  Qed.

  Lemma accept_true (x : input cert msg sig) :
    fst (accept verify readable blank x) = true -> exists c, In c (candidates blank x) /\ verify c (m x) (s x) = true.
  Proof.
    unfold accept. destruct (detached x).
    - intros H. apply try_detached_true in H as [c (Hin & _ & Hv)]. exists c. auto.
    - apply try_certs_true.
  Qed.

  Lemma accept_handed (x : input cert msg sig) c :
    In c (snd (accept verify readable blank x)) -> In c (candidates blank x).
  Proof.
    unfold accept. destruct (detached x); [apply try_detached_handed|apply try_certs_handed].
  Qed.

  (* soundness: every input -- certificates that do not load, KeyDescriptors without certificate, either flag *)
  Lemma accept_sound (x : input cert msg sig) : sound cert_of sign blank x (accept verify readable blank x).
  Proof.
    unfold sound. split; [|split].
    - intros c Hc. apply candidates_trusted. exact (accept_handed _ _ Hc).
    - intros H. apply accept_true in H as [c [_ Hv]]. apply verify_spec in Hv as [k [_ Hs]].
      exists k. exact Hs.
    - intros H k Hk. apply accept_true in H as [c [Hin Hv]]. apply verify_spec in Hv as [k' [-> Hs]].
      unfold made_by in Hk. rewrite Hk in Hs. apply sign_inj in Hs. subst k'. apply candidates_trusted; exact Hin.
  Qed.

  (* ---- messages with several signed elements ---- *)
  Lemma accept_parts_true (xs : list (bool * input cert msg sig)) :
    fst (accept_parts verify readable blank xs) = true <->
    forall x, In x (map snd xs) -> fst (accept verify readable blank x) = true.
  Proof.
    induction xs as [|[req x] r IH]; cbn [accept_parts map snd].
    - split; [intros _ x []|reflexivity].
    - destruct (fst (accept verify readable blank x)) eqn:E.
      + destruct (accept_parts verify readable blank r) as [ok hs]. cbn [fst] in *. rewrite IH. split.
        * intros H y [<-|Hy]; [exact E|exact (H y Hy)].
        * intros H y Hy. apply H. right; exact Hy.
      + cbn [fst]. split; [discriminate|]. intros H. rewrite <- E. apply H. left; reflexivity.
  Qed.

  Lemma accept_parts_handed (xs : list (bool * input cert msg sig)) :
    Forall2 (fun x h => forall c, In c h -> In c (candidates blank x)) (map snd xs)
            (snd (accept_parts verify readable blank xs)).
  Proof.
    induction xs as [|[req x] r IH]; cbn [accept_parts map snd]; [constructor|].
    destruct (fst (accept verify readable blank x)).
    - destruct (accept_parts verify readable blank r) as [ok hs]. cbn [snd] in *. constructor; [|exact IH].
      intros c Hc. exact (accept_handed _ _ Hc).
    - cbn [snd]. constructor.
      + intros c Hc. destruct req; [exact (accept_handed _ _ Hc)|].
        apply in_app_or in Hc as [Hc|Hc]; exact (accept_handed _ _ Hc).
      + clear IH. induction r as [|y r' IHr]; cbn [map]; constructor; [intros c []|exact IHr].
  Qed.

  (* every signature of an accepted message was made by a key trusted for the element it signs *)
  Lemma accept_msg_sound (xs : list (bool * input cert msg sig)) :
    msg_sound cert_of sign blank (map snd xs) (accept_msg verify readable blank xs).
  Proof.
    unfold msg_sound, accept_msg. cbn [fst snd]. split.
    - pose proof (accept_parts_handed xs) as HF.
      induction HF as [|x h l l' Hh _ IHF]; constructor; [|exact IHF].
      intros c Hc. apply candidates_trusted, Hh, Hc.
    - intros H x Hx. apply andb_true_iff in H as [H _]. pose proof (proj1 (accept_parts_true xs) H x Hx) as Hax.
      destruct (accept_sound x) as (_ & H2 & H3). split; [exact (H2 Hax)|exact (H3 Hax)].
  Qed.

  (* completeness needs one more fact about the world: a certificate that verifies something loads *)
  Hypothesis verify_readable : forall c mm ss, verify c mm ss = true -> readable c = true.

  Lemma accept_complete (x : input cert msg sig) : complete cert_of sign blank x (accept verify readable blank x).
  Proof.
    unfold complete, accept. intros k e Hk He Hp.
    assert (Hv : verify (cert_of k) (m x) (s x) = true).
    { apply verify_spec. exists k. split; [reflexivity|exact Hk]. }
    apply signing_certs_published in Hp.
    assert (Hin : In (cert_of k) (candidates blank x)).
    { unfold candidates, select. rewrite He. destruct (detached x); [exact Hp|].
      destruct (signing_certs blank (md x) (Some e)); [contradiction|exact Hp]. }
    destruct (detached x).
    - apply try_detached_true. exists (cert_of k). repeat split; [exact Hin|exact (verify_readable _ _ _ Hv)|exact Hv].
    - apply try_certs_true. exists (cert_of k). split; [exact Hin|exact Hv].
  Qed.

  Lemma trust_holds (x : input cert msg sig) : spec cert_of sign blank x (accept verify readable blank x).
  Proof. split; [apply accept_sound|apply accept_complete]. Qed.

  Lemma accept_msg_complete (xs : list (bool * input cert msg sig)) :
    msg_complete cert_of sign blank (map snd xs) (accept_msg verify readable blank xs).
  Proof.
    unfold msg_complete, accept_msg. cbn [fst]. intros [e H]. apply andb_true_iff. split.
    - apply accept_parts_true. intros x Hx. destruct (H x Hx) as (k & Hk & He & Hp).
      exact (accept_complete x k e Hk He Hp).
    - destruct (map snd xs) as [|x r]; [reflexivity|]. cbn [head_issuer_ok].
      destruct (H x (or_introl eq_refl)) as (_ & _ & He & _). rewrite He.
      apply forallb_forall. intros y Hy. destruct (H y (or_intror Hy)) as (_ & _ & Hey & _).
      unfold issuer_is. rewrite Hey. apply String.eqb_refl.
  Qed.

  Lemma message_trust (xs : list (bool * input cert msg sig)) :
    msg_spec cert_of sign blank (map snd xs) (accept_msg verify readable blank xs).
  Proof. split; [apply accept_msg_sound|apply accept_msg_complete]. Qed.

  (* corollaries named in the property text (defaults: only_md = true) *)
  Lemma unknown_issuer_rejected (x : input cert msg sig) :
    only_md x = true -> (forall e, claimed x = Some e -> lookup_md e (md x) = None) ->
    fst (accept verify readable blank x) = false.
  Proof.
    intros Ho Hu. unfold accept, candidates, select. assert (E : signing_certs blank (md x) (claimed x) = []).
    { unfold signing_certs. destruct (claimed x) as [e|]; [|reflexivity]. rewrite (Hu e eq_refl). reflexivity. }
    rewrite E, Ho. destruct (detached x); reflexivity.
  Qed.

  (* ---- the long-lived receiver: every verification is judged against the metadata loaded by the last
     successful (re)load before it, whatever was verified or loaded earlier ---- *)
  Lemma run_ops_length init only ops :
    length (run_ops verify readable blank init only ops) = nchecks ops.
  Proof.
    revert init. induction ops as [|o r IH]; intros init; [reflexivity|].
    destruct o as [m'| |q|e u|v]; cbn [run_ops]; unfold nchecks in *; cbn [filter is_check length]; auto.
  Qed.

  Lemma run_ops_spec (P : list (input cert msg sig) -> mout cert -> Prop) :
    (forall xs, P (map snd xs) (accept_msg verify readable blank xs)) ->
    forall ops init only, seq_spec P init only ops (run_ops verify readable blank init only ops).
  Proof.
    intros HP ops. induction ops as [|o r IH]; intros init only; split; try apply run_ops_length.
    - intros pre q post E. destruct pre; discriminate.
    - intros pre q post E. destruct o as [m'| |q0|e u|v]; cbn [run_ops].
      + destruct pre as [|p pre']; [discriminate|]. cbn in E. injection E as <- ->.
        destruct (IH m' only) as [_ H]. destruct (H pre' q post eq_refl) as [o [Hn Ho]].
        exists o. split; [exact Hn|exact Ho].
      + destruct pre as [|p pre']; [discriminate|]. cbn in E. injection E as <- ->.
        destruct (IH init only) as [_ H]. destruct (H pre' q post eq_refl) as [o [Hn Ho]].
        exists o. split; [exact Hn|exact Ho].
      + (* a message is verified *)
        destruct pre as [|p pre'].
        * cbn in E. injection E as -> _.
          exists (accept_msg verify readable blank (map (fun q1 => (q_insist q1, at_md init only q1)) q)).
          split; [reflexivity|]. cbn [loaded fold_left].
          replace (map (at_md init only) q) with (map snd (map (fun q1 => (q_insist q1, at_md init only q1)) q));
            [apply HP|]. rewrite map_map. reflexivity.
        * cbn in E. injection E as <- ->.
          destruct (IH init only) as [_ H]. destruct (H pre' q post eq_refl) as [o [Hn Ho]].
          exists o. split; [exact Hn|exact Ho].
      + (* certificates looked up for another purpose: nothing changes *)
        destruct pre as [|p pre']; [discriminate|]. cbn in E. injection E as <- ->.
        destruct (IH init only) as [_ H]. destruct (H pre' q post eq_refl) as [o [Hn Ho]].
        exists o. split; [exact Hn|exact Ho].
      + (* the binary is replaced: nothing changes *)
        destruct pre as [|p pre']; [discriminate|]. cbn in E. injection E as <- ->.
        destruct (IH init only) as [_ H]. destruct (H pre' q post eq_refl) as [o [Hn Ho]].
        exists o. split; [exact Hn|exact Ho].
  Qed.

  Lemma receiver_trust ops init only :
    seq_spec (msg_spec cert_of sign blank) init only ops (run_ops verify readable blank init only ops).
  Proof. apply run_ops_spec. exact message_trust. Qed.

  (* the property text's "loaded metadata" made explicit: a message that carries a signature made by a key
     which the set loaded now does not publish for the issuer named in the signed element is rejected,
     whatever an earlier set published, whatever was verified before the reload and whatever other (good)
     signatures the message carries *)
  Definition parts_at (mdx : metadata cert) (only : bool) (qs : list (query cert msg sig)) :=
    map (fun q => (q_insist q, at_md mdx only q)) qs.

  Lemma withdrawn_key_rejected pre mdx post qs q k e init only :
    In q qs -> q_s q = sign k (q_m q) -> q_claimed q = Some e -> only = true ->
    ~ published_for_signing blank mdx e (cert_of k) ->
    nth_error (run_ops verify readable blank init only (pre ++ Reload mdx :: Check qs :: post)) (nchecks pre) =
      Some (accept_msg verify readable blank (parts_at mdx only qs))
    /\ fst (accept_msg verify readable blank (parts_at mdx only qs)) = false.
  Proof.
    intros Hq Hs Hc Ho Hn. split.
    - revert init. induction pre as [|o pre' IH]; intros init; [reflexivity|].
      destruct o as [m'| |q0|e0 u0|v0]; cbn [app run_ops]; unfold nchecks in *; cbn [filter is_check length nth_error]; apply IH.
    - destruct (fst (accept_msg verify readable blank (parts_at mdx only qs))) eqn:Ea; [|reflexivity]. exfalso.
      destruct (accept_msg_sound (parts_at mdx only qs)) as (_ & H2).
      assert (Hin : In (at_md mdx only q) (map snd (parts_at mdx only qs))).
      { unfold parts_at. rewrite map_map. cbn [snd]. exact (in_map _ _ _ Hq). }
      destruct (H2 Ea (at_md mdx only q) Hin) as [_ H3].
      specialize (H3 k Hs). destruct H3 as [[e' [He' Hp]]|[Hf _]].
      + cbn in He'. rewrite Hc in He'. injection He' as <-. exact (Hn Hp).
      + cbn in Hf. congruence.
  Qed.
  (* operations that are neither a verification nor a reload leave no trace: inserted anywhere they change no
     outcome (a memo of looked-up certificates keyed without the use, a remembered version, ... would) *)
  Lemma readonly_ops_vanish (pre post : list (op cert msg sig)) (o : op cert msg sig) init only :
    (match o with Lookup _ _ | Engine _ => True | _ => False end) ->
    run_ops verify readable blank init only (pre ++ o :: post) = run_ops verify readable blank init only (pre ++ post).
  Proof.
    intros Ho. revert init. induction pre as [|p pre' IH]; intros init.
    - destruct o; try contradiction; reflexivity.
    - destruct p as [m'| |q|e u|v]; cbn [app run_ops]; rewrite IH; reflexivity.
  Qed.

  (* ---- the verifier: with the command line the code builds, xmlsec1 of EVERY version decides exactly
     `verify c` for the certificate file c it is handed, whatever key material the message carries: every theorem
     above holds with the real binary (any version) in the place of `verify` ---- *)
  Lemma engine_as_invoked v carried c mm ss :
    engine verify v (verify_cmdline v) carried c mm ss = verify c mm ss.
  Proof.
    unfold engine, verify_cmdline. cbn [key_data_confined lax_key_search]. rewrite andb_negb_r. reflexivity.
  Qed.

  Lemma try_certs_ext (v2 : cert -> msg -> sig -> bool) :
    (forall c mm ss, v2 c mm ss = verify c mm ss) ->
    forall cs mm ss, try_certs v2 cs mm ss = try_certs verify cs mm ss.
  Proof.
    intros E cs mm ss. induction cs as [|c r IH]; cbn [try_certs]; [reflexivity|]. rewrite E, IH. reflexivity.
  Qed.

  Lemma try_detached_ext (v2 : cert -> msg -> sig -> bool) :
    (forall c mm ss, v2 c mm ss = verify c mm ss) ->
    forall cs mm ss, try_detached v2 readable cs mm ss = try_detached verify readable cs mm ss.
  Proof.
    intros E cs mm ss. induction cs as [|c r IH]; cbn [try_detached]; [reflexivity|]. rewrite E, IH. reflexivity.
  Qed.

  Lemma accept_engine v carried (x : input cert msg sig) :
    accept (engine verify v (verify_cmdline v) carried) readable blank x = accept verify readable blank x.
  Proof.
    unfold accept. destruct (detached x).
    - apply try_detached_ext. intros c mm ss. apply engine_as_invoked.
    - apply try_certs_ext. intros c mm ss. apply engine_as_invoked.
  Qed.

  (* the full requirement with the real verifier in the place of `verify`: any version, any key material carried
     in the message *)
  Lemma trust_holds_engine v carried (x : input cert msg sig) :
    spec cert_of sign blank x (accept (engine verify v (verify_cmdline v) carried) readable blank x).
  Proof. rewrite accept_engine. apply trust_holds. Qed.

  (* a command line that does not confine the verifier hands the decision to the message: the carried key decides *)
  Lemma engine_unconfined v lax k carried c mm ss :
    engine verify v {| key_data_confined := false; lax_key_search := lax |} (k :: carried) c mm ss = verify k mm ss.
  Proof. reflexivity. Qed.

  (* from 1.3 on the binary does not fall back to the file's key unless told to: without --lax-key-search a
     confined verifier refuses everything (why _run_xmlsec adds the option) *)
  Lemma engine_strict_refuses v carried c mm ss :
    ge_1_3 v = true ->
    engine verify v {| key_data_confined := true; lax_key_search := false |} carried c mm ss = false.
  Proof. intros H. unfold engine. cbn [key_data_confined lax_key_search]. rewrite H. reflexivity. Qed.
End Proofs.

(* a message with ONE signed element: the message requirement is the per-signature requirement *)
Lemma msg_spec_single (key cert msg sig : Type) (cert_of : key -> cert) (sign : key -> msg -> sig) (blank : cert -> bool)
  (x : input cert msg sig) (b : bool) (h : list cert) :
  msg_spec cert_of sign blank [x] (b, [h]) <-> spec cert_of sign blank x (b, h).
Proof.
  unfold msg_spec, msg_sound, msg_complete, spec, sound, complete. cbn [fst snd]. split.
  - intros [[HF HS] HC]. inversion HF as [|x0 h0 l l' Hh _]; subst. repeat split.
    + exact Hh.
    + intros Hb. exact (proj1 (HS Hb x (or_introl eq_refl))).
    + intros Hb. exact (proj2 (HS Hb x (or_introl eq_refl))).
    + intros k e Hk He Hp. apply HC. exists e. intros y [<-|[]]. exists k. auto.
  - intros [(Hh & H2 & H3) HC]. split; [split|].
    + constructor; [exact Hh|constructor].
    + intros Hb y [<-|[]]. split; [exact (H2 Hb)|exact (H3 Hb)].
    + intros [e He]. destruct (He x (or_introl eq_refl)) as (k & Hk & Hc & Hp). exact (HC k e Hk Hc Hp).
Qed.

(* ---- term-algebra instance: the hypotheses are satisfiable, and the model runs ---- *)
Definition ikey := nat.
(* a certificate of the instance: the certificate of key k, published octets that are no certificate, or
   the place of the certificate in a KeyDescriptor that carries none *)
Inductive icert := Gd (k : nat) | Jk (n : nat) | Bl (n : nat).
Definition imsg := nat.
Definition isig := (nat * nat)%type.
Definition icert_of (k : ikey) : icert := Gd k.
Definition isign (k : ikey) (mm : imsg) : isig := (k, mm).
Definition iverify (c : icert) (mm : imsg) (ss : isig) : bool :=
  match c with Gd k => Nat.eqb k (fst ss) && Nat.eqb mm (snd ss) | _ => false end.
Definition ireadable (c : icert) : bool := match c with Gd _ => true | _ => false end.
Definition iblank (c : icert) : bool := match c with Bl _ => true | _ => false end.

Lemma iverify_spec c mm ss : iverify c mm ss = true <-> exists k, c = icert_of k /\ ss = isign k mm.
Proof.
  unfold iverify, icert_of, isign. destruct ss as [a b]. cbn [fst snd]. destruct c as [k0|n|n].
  - rewrite andb_true_iff, !Nat.eqb_eq. split.
    + intros [-> ->]. exists a. auto.
    + intros [k [[= ->] [= -> ->]]]. auto.
  - split; [discriminate|]. intros [k [[=] _]].
  - split; [discriminate|]. intros [k [[=] _]].
Qed.

Lemma isign_inj k k' mm : isign k mm = isign k' mm -> k = k'.
Proof. intros [= ->]. reflexivity. Qed.

Lemma iverify_readable c mm ss : iverify c mm ss = true -> ireadable c = true.
Proof. destruct c; cbn; [reflexivity|discriminate|discriminate]. Qed.

Lemma instance_trust (x : input icert imsg isig) :
  spec icert_of isign iblank x (accept iverify ireadable iblank x).
Proof. apply trust_holds; [exact iverify_spec|exact isign_inj|exact iverify_readable]. Qed.

Lemma instance_message (xs : list (bool * input icert imsg isig)) :
  msg_spec icert_of isign iblank (map snd xs) (accept_msg iverify ireadable iblank xs).
Proof. apply message_trust; [exact iverify_spec|exact isign_inj|exact iverify_readable]. Qed.

Lemma instance_receiver ops init only :
  seq_spec (msg_spec icert_of isign iblank) init only ops (run_ops iverify ireadable iblank init only ops).
Proof. apply receiver_trust; [exact iverify_spec|exact isign_inj|exact iverify_readable]. Qed.

(* non-vacuity: metadata with a signing, a rotated signing and an encryption-only key *)
Example rotated_key_accepted_encryption_key_rejected :
  let mdx : metadata icert := [("idp", [[(Some Signing, Gd 1); (Some Signing, Gd 2); (Some Encryption, Gd 3)]]); ("other", [[(None, Gd 4)]])] in
  let x k := Build_input mdx true (Some "idp") [Gd k] false 7 (isign k 7) in
  accept iverify ireadable iblank (x 2) = (true, [Gd 1; Gd 2]) /\ accept iverify ireadable iblank (x 3) = (false, [Gd 1; Gd 2])
  /\ accept iverify ireadable iblank (x 4) = (false, [Gd 1; Gd 2])
  /\ accept iverify ireadable iblank (Build_input mdx false (Some "nobody") [Gd 6] false 7 (isign 6 7)) = (true, [Gd 6])
  /\ accept iverify ireadable iblank (Build_input mdx true (Some "nobody") [Gd 6] false 7 (isign 6 7)) = (false, []).
Proof. vm_compute. repeat split; reflexivity. Qed.

(* non-vacuity of the receiver: key 1 validates while published, stops validating once the reloaded set
   publishes only key 2, key 2 validates from then on; a failed reload changes nothing; an issuer added
   by a reload validates from then on *)
Example rotation_over_reloads :
  let g1 : metadata icert := [("idp", [[(Some Signing, Gd 1)]])] in
  let g2 : metadata icert := [("idp", [[(Some Signing, Gd 2)]]); ("new", [[(None, Gd 6)]])] in
  let ck e k d := Check [Build_query (Some e) [] d 7 (isign k 7) true] in
  run_ops iverify ireadable iblank g1 true
    [ck "idp" 1 false; ck "idp" 2 false; ck "new" 6 true; ReloadFailed; ck "idp" 1 true;
     Reload g2; ck "idp" 1 false; ck "idp" 2 false; ck "idp" 1 true; ck "new" 6 true]
  = [(true, [[Gd 1]]); (false, [[Gd 1]]); (false, [[]]); (true, [[Gd 1]]);
     (false, [[Gd 2]]); (true, [[Gd 2]]); (false, [[Gd 2]]); (true, [[Gd 6]])].
Proof. vm_compute. reflexivity. Qed.

(* 2dad6239: an unreadable certificate ahead of the signer's one is passed over on both paths (the XML path
   hands it to xmlsec1, which fails on it); before the repair the detached loop ended there *)
Example unreadable_certificate_first :
  let mdx : metadata icert := [("sp", [[(Some Signing, Jk 0); (Some Signing, Gd 1)]])] in
  accept iverify ireadable iblank (Build_input mdx true (Some "sp") [] true 7 (isign 1 7)) = (true, [Gd 1])
  /\ accept iverify ireadable iblank (Build_input mdx true (Some "sp") [] false 7 (isign 1 7)) = (true, [Jk 0; Gd 1])
  /\ accept_v0 iverify ireadable iblank (Build_input mdx true (Some "sp") [] true 7 (isign 1 7)) = (false, []).
Proof. vm_compute. repeat split; reflexivity. Qed.

(* a9edf887: a KeyDescriptor without certificate contributes nothing and hides nothing: the issuer's real key
   validates, the embedded certificate is not used while metadata holds a key; it IS used (fallback on) when the
   issuer publishes no key at all, a certificate-less KeyDescriptor included.  Before the repair every key of the
   issuer was lost and the fallback trusted the embedded certificate *)
Example keydescriptor_without_certificate :
  let mdx : metadata icert := [("idp", [[(Some Signing, Gd 1); (None, Bl 0)]])] in
  accept iverify ireadable iblank (Build_input mdx true (Some "idp") [] false 7 (isign 1 7)) = (true, [Gd 1])
  /\ accept iverify ireadable iblank (Build_input mdx true (Some "idp") [] true 7 (isign 1 7)) = (true, [Gd 1])
  /\ accept iverify ireadable iblank (Build_input mdx false (Some "idp") [Gd 6] false 7 (isign 6 7)) = (false, [Gd 1])
  /\ accept iverify ireadable iblank
       (Build_input [("idp", [[(None, Bl 0)]])] false (Some "idp") [Gd 6] false 7 (isign 6 7)) = (true, [Gd 6])
  /\ accept_v0 iverify ireadable iblank (Build_input mdx true (Some "idp") [] false 7 (isign 1 7)) = (false, [])
  /\ accept_v0 iverify ireadable iblank (Build_input mdx false (Some "idp") [Gd 6] false 7 (isign 6 7)) = (true, [Gd 6]).
Proof. vm_compute. repeat split; reflexivity. Qed.

(* non-vacuity of the message level: a Response signed by the issuer's key around an Assertion -- the inner
   signature counts on its own: made by an attacker key or by another member's key the message is rejected (the
   outer signature does not cover for it), made by the rotated key it is accepted; an Assertion that names another
   member as issuer is checked against THAT member's keys; a bad outer signature ends the processing (nothing of
   the Assertion reaches a verifier) *)
Example doubly_signed_message :
  let mdx : metadata icert := [("idp", [[(Some Signing, Gd 1); (Some Signing, Gd 2); (Some Encryption, Gd 3)]]); ("other", [[(None, Gd 4)]])] in
  let p e k := Build_input mdx true (Some e) [] false 7 (isign k 7) in
  let two a b := [(true, a); (false, b)] in
  accept_msg iverify ireadable iblank (two (p "idp" 1) (p "idp" 2)) = (true, [[Gd 1]; [Gd 1; Gd 2]])
  /\ accept_msg iverify ireadable iblank (two (p "idp" 1) (p "idp" 6)) = (false, [[Gd 1]; [Gd 1; Gd 2; Gd 1; Gd 2]])
  /\ accept_msg iverify ireadable iblank (two (p "idp" 1) (p "idp" 4)) = (false, [[Gd 1]; [Gd 1; Gd 2; Gd 1; Gd 2]])
  /\ accept_msg iverify ireadable iblank (two (p "idp" 1) (p "other" 1)) = (false, [[Gd 1]; [Gd 4; Gd 4]])
  /\ accept_msg iverify ireadable iblank (two (p "idp" 1) (p "other" 4)) = (false, [[Gd 1]; [Gd 4]])
  /\ accept_msg iverify ireadable iblank (two (p "idp" 6) (p "idp" 1)) = (false, [[Gd 1; Gd 2]; []]).
Proof. vm_compute. repeat split; reflexivity. Qed.

(* the command line as a function of the reported version (Python tuple comparison with (1, 3)): confined for every
   version, --lax-key-search from 1.3 on; an unparsable version text counts as (0, 0, 0) *)
Example command_line_by_version :
  map verify_cmdline [[1; 2; 37]; [1; 2; 9]; [1; 3]; [1; 3; 0]; [1; 3; 7]; [1; 10; 3]; [2; 0; 0]; [0; 0; 0]; [1]]
  = [ {| key_data_confined := true; lax_key_search := false |}; {| key_data_confined := true; lax_key_search := false |};
      {| key_data_confined := true; lax_key_search := true |}; {| key_data_confined := true; lax_key_search := true |};
      {| key_data_confined := true; lax_key_search := true |}; {| key_data_confined := true; lax_key_search := true |};
      {| key_data_confined := true; lax_key_search := true |}; {| key_data_confined := true; lax_key_search := false |};
      {| key_data_confined := true; lax_key_search := false |} ].
Proof. vm_compute. reflexivity. Qed.

(* non-vacuity of the new operations: an encryption lookup before the first verification, a lookup by another
   purpose in between and a replaced binary change nothing -- the encryption-only key 3 never validates, key 1 does *)
Example lookups_and_upgrades_change_nothing :
  let g : metadata icert := [("sp", [[(Some Signing, Gd 1); (Some Encryption, Gd 3)]])] in
  let ck k d := Check [Build_query (Some "sp"%string) [] d 7 (isign k 7) true] in
  run_ops iverify ireadable iblank g true
    [Lookup "sp" Encryption; ck 3 false; ck 3 true; ck 1 false; Engine [1; 3; 7]; Lookup "sp" Encryption; ck 3 false;
     Reload g; Lookup "sp" Encryption; ck 3 true; ck 1 true]
  = [(false, [[Gd 1]]); (false, [[Gd 1]]); (true, [[Gd 1]]); (false, [[Gd 1]]); (false, [[Gd 1]]); (true, [[Gd 1]])].
Proof. vm_compute. reflexivity. Qed.
