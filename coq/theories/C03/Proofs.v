(* C03/Proofs.v *)
From Coq Require Import String List Bool Arith.
From Verif Require Import Base.Str C03.Model C03.Spec.
Import ListNotations.

Section Proofs.
  Variables key cert msg sig : Type.
  Variable cert_of : key -> cert.
  Variable sign : key -> msg -> sig.
  Variable verify : cert -> msg -> sig -> bool.
  Variable readable : cert -> bool.
  Variable blank : cert -> bool.

  (* ideal signatures (DESIGN 3.2): verification succeeds exactly for the signer's certificate, and
     a signature identifies the key that made it *)
  Hypothesis verify_spec : forall c mm ss, verify c mm ss = true <-> exists k, c = cert_of k /\ ss = sign k mm.
  Hypothesis sign_inj : forall k k' mm, sign k mm = sign k' mm -> k = k'.

  Lemma extract_signing_in (role : list (keydesc cert)) c :
    In c (extract_signing role) <-> exists u, In (u, c) role /\ u <> Some Encryption.
  Proof.
    unfold extract_signing. rewrite in_flat_map. split.
    - intros [[u c'] [Hin Hc]]. cbn [fst snd] in Hc. destruct u as [[|]|]; cbn in Hc.
      + destruct Hc as [<-|[]]. exists (Some Signing). split; [exact Hin|discriminate].
      + contradiction.
      + destruct Hc as [<-|[]]. exists None. split; [exact Hin|discriminate].
    - intros [u [Hin Hu]]. exists (u, c). split; [exact Hin|]. cbn [fst snd].
      destruct u as [[|]|]; cbn; auto; try (contradiction Hu; reflexivity).
  Qed.

  Lemma walk_published (md : metadata cert) e c :
    In c (walk_certs md (Some e)) <-> published_for_signing md e c.
  Proof.
    unfold walk_certs, published_for_signing. destruct (lookup_md e md) as [roles|].
    - rewrite in_flat_map. split.
      + intros [role [Hr Hc]]. apply extract_signing_in in Hc as [u [Hin Hu]].
        exists roles, role, u. auto.
      + intros (roles' & role & u & [= <-] & Hr & Hin & Hu). exists role. split; [exact Hr|].
        apply extract_signing_in. exists u. auto.
    - split; [intros []|]. intros (roles & _ & _ & H & _). discriminate.
  Qed.

  Lemma blank_walk_iff (md : metadata cert) issuer :
    existsb blank (walk_certs md issuer) = true <-> blank_published blank md issuer.
  Proof.
    unfold blank_published. rewrite existsb_exists. split.
    - intros [c [Hin Hb]]. destruct issuer as [e|]; [|destruct Hin].
      exists e, c. split; [reflexivity|]. split; [apply walk_published; exact Hin|exact Hb].
    - intros (e & c & -> & Hp & Hb). exists c. split; [apply walk_published; exact Hp|exact Hb].
  Qed.

  Lemma signing_certs_walk (md : metadata cert) issuer c :
    In c (signing_certs blank md issuer) -> In c (walk_certs md issuer).
  Proof. unfold signing_certs. destruct (existsb blank (walk_certs md issuer)); [intros []|auto]. Qed.

  Lemma signing_certs_noblank (md : metadata cert) issuer :
    ~ blank_published blank md issuer -> signing_certs blank md issuer = walk_certs md issuer.
  Proof.
    intros H. unfold signing_certs. destruct (existsb blank (walk_certs md issuer)) eqn:E; [|reflexivity].
    exfalso. apply H, blank_walk_iff, E.
  Qed.

  Lemma signing_certs_published (md : metadata cert) e c :
    In c (signing_certs blank md (Some e)) -> published_for_signing md e c.
  Proof. intros H. apply walk_published, signing_certs_walk, H. Qed.

  Lemma candidates_trusted (x : input cert msg sig) c :
    sguard blank x -> In c (candidates blank x) -> trusted_for x c.
  Proof.
    unfold candidates, trusted_for. intros G.
    destruct (detached x) eqn:Ed.
    - intros H. destruct (claimed x) as [e|] eqn:Ec.
      + left. exists e. split; [reflexivity|]. apply signing_certs_published; exact H.
      + apply signing_certs_walk in H. destruct H.
    - destruct (signing_certs blank (md x) (claimed x)) as [|c0 r] eqn:Es.
      + destruct (only_md x) eqn:Eo; [intros []|]. intros H. right. repeat split; auto.
        intros e c' Hc Hp.
        assert (Hnb : ~ blank_published blank (md x) (claimed x)) by (apply G; assumption).
        rewrite (signing_certs_noblank _ _ Hnb) in Es. rewrite Hc in Es.
        apply walk_published in Hp. rewrite Es in Hp. exact Hp.
      + intros H. destruct (claimed x) as [e|] eqn:Ec.
        * left. exists e. split; [reflexivity|]. apply signing_certs_published. rewrite Es. exact H.
        * assert (Hin : In c0 (signing_certs blank (md x) None)) by (rewrite Es; left; reflexivity).
          apply signing_certs_walk in Hin. destruct Hin.
  Qed.

  Lemma try_certs_handed cs mm ss c : In c (snd (try_certs verify cs mm ss)) -> In c cs.
  Proof.
    induction cs as [|c0 r IH]; cbn [try_certs]; [intros []|].
    destruct (verify c0 mm ss).
    - cbn. intros [<-|[]]. left; reflexivity.
    - destruct (try_certs verify r mm ss) as [ok h]. cbn [snd] in *. intros [<-|H]; [left; reflexivity|right; exact (IH H)].
  Qed.

  Lemma try_certs_true cs mm ss :
    fst (try_certs verify cs mm ss) = true <-> exists c, In c cs /\ verify c mm ss = true.
  Proof.
    induction cs as [|c0 r IH]; cbn [try_certs].
    - split; [discriminate|intros [c [[] _]]].
    - destruct (verify c0 mm ss) eqn:V.
      + cbn. split; [intros _; exists c0; auto|reflexivity].
      + destruct (try_certs verify r mm ss) as [ok h]. cbn [fst] in *. rewrite IH. split.
        * intros [c [Hin Hv]]. exists c. split; [right; exact Hin|exact Hv].
        * intros [c [[<-|Hin] Hv]]; [congruence|exists c; auto].
  Qed.

  Lemma try_detached_handed cs mm ss c : In c (snd (try_detached verify readable cs mm ss)) -> In c cs.
  Proof.
    induction cs as [|c0 r IH]; cbn [try_detached]; [intros []|].
    destruct (readable c0); [|intros []].
    destruct (verify c0 mm ss).
    - cbn. intros [<-|[]]. left; reflexivity.
    - destruct (try_detached verify readable r mm ss) as [ok h]. cbn [snd] in *.
      intros [<-|H]; [left; reflexivity|right; exact (IH H)].
  Qed.

  Lemma try_detached_true cs mm ss :
    fst (try_detached verify readable cs mm ss) = true -> exists c, In c cs /\ verify c mm ss = true.
  Proof.
    induction cs as [|c0 r IH]; cbn [try_detached]; [discriminate|].
    destruct (readable c0); [|discriminate].
    destruct (verify c0 mm ss) eqn:V.
    - intros _. exists c0. split; [left; reflexivity|exact V].
    - destruct (try_detached verify readable r mm ss) as [ok h]. cbn [fst] in *. intros H.
      destruct (IH H) as [c [Hin Hv]]. exists c. split; [right; exact Hin|exact Hv].
  Qed.

  Lemma hits_unreadable_iff cs mm ss :
    hits_unreadable verify readable cs mm ss = true <-> unreadable_first verify readable cs mm ss.
  Proof.
    unfold unreadable_first. induction cs as [|c0 r IH]; cbn [hits_unreadable].
    - split; [discriminate|]. intros (pre & c & post & E & _). destruct pre; discriminate.
    - destruct (readable c0) eqn:R.
      + destruct (verify c0 mm ss) eqn:V.
        * split; [discriminate|]. intros (pre & c & post & E & Rc & Hpre). destruct pre as [|p pre'].
          -- cbn in E. injection E as E1 E2. subst c. congruence.
          -- cbn in E. injection E as E1 E2. subst p. rewrite (Hpre c0 (or_introl eq_refl)) in V. discriminate.
        * rewrite IH. split.
          -- intros (pre & c & post & E & Rc & Hpre). subst r. exists (c0 :: pre), c, post. split; [reflexivity|].
             split; [exact Rc|]. intros c' [E'|Hin]; [subst c'; exact V|exact (Hpre c' Hin)].
          -- intros (pre & c & post & E & Rc & Hpre). destruct pre as [|p pre'].
             ++ cbn in E. injection E as E1 E2. subst c. congruence.
             ++ cbn in E. injection E as E1 E2. subst p r. exists pre', c, post. split; [reflexivity|]. split; [exact Rc|].
                intros c' Hin. apply Hpre. right; exact Hin.
      + split; [intros _|reflexivity]. exists [], c0, r. split; [reflexivity|]. split; [exact R|intros c' []].
  Qed.

  Lemma try_detached_complete cs mm ss :
    hits_unreadable verify readable cs mm ss = false ->
    (exists c, In c cs /\ verify c mm ss = true) -> fst (try_detached verify readable cs mm ss) = true.
  Proof.
    induction cs as [|c0 r IH]; cbn [hits_unreadable try_detached].
    - intros _ [c [[] _]].
    - destruct (readable c0); [|discriminate].
      destruct (verify c0 mm ss) eqn:V; [reflexivity|].
      intros Hh [c [[<-|Hin] Hv]]; [congruence|].
      destruct (try_detached verify readable r mm ss) as [ok h]. cbn [fst] in *. apply IH; [exact Hh|].
      exists c. auto.
  Qed.

  Lemma accept_true (x : input cert msg sig) :
    fst (accept verify readable blank x) = true -> exists c, In c (candidates blank x) /\ verify c (m x) (s x) = true.
  Proof.
    unfold accept. destruct (detached x); [apply try_detached_true|apply try_certs_true].
  Qed.

  Lemma accept_handed (x : input cert msg sig) c :
    In c (snd (accept verify readable blank x)) -> In c (candidates blank x).
  Proof.
    unfold accept. destruct (detached x); [apply try_detached_handed|apply try_certs_handed].
  Qed.

  (* soundness: readable certificates or not; outside finding C03-F2 *)
  Lemma accept_sound (x : input cert msg sig) :
    sguard blank x -> sound cert_of sign x (accept verify readable blank x).
  Proof.
    intros G. unfold sound. split; [|split].
    - intros c Hc. apply candidates_trusted; [exact G|]. exact (accept_handed _ _ Hc).
    - intros H. apply accept_true in H as [c [_ Hv]]. apply verify_spec in Hv as [k [_ Hs]].
      exists k. exact Hs.
    - intros H k Hk. apply accept_true in H as [c [Hin Hv]]. apply verify_spec in Hv as [k' [-> Hs]].
      unfold made_by in Hk. rewrite Hk in Hs. apply sign_inj in Hs. subst k'.
      apply candidates_trusted; [exact G|exact Hin].
  Qed.

  (* with the default only_use_keys_in_metadata = true soundness has no exception at all *)
  Lemma accept_sound_default (x : input cert msg sig) :
    only_md x = true -> sound cert_of sign x (accept verify readable blank x).
  Proof. intros Ho. apply accept_sound. intros Hf. congruence. Qed.

  (* detached signatures never use the embedded certificate: no exception either *)
  Lemma accept_sound_detached (x : input cert msg sig) :
    detached x = true -> sound cert_of sign x (accept verify readable blank x).
  Proof. intros Hd. apply accept_sound. intros _ Hf. congruence. Qed.

  (* completeness: outside the finding classes *)
  Lemma accept_complete (x : input cert msg sig) :
    guard verify readable blank x -> complete cert_of sign x (accept verify readable blank x).
  Proof.
    unfold complete, accept, guard. intros [Gb G] k e Hk He Hp.
    assert (Hv : verify (cert_of k) (m x) (s x) = true).
    { apply verify_spec. exists k. split; [reflexivity|exact Hk]. }
    apply walk_published in Hp. rewrite <- He in Hp.
    pose proof (signing_certs_noblank _ _ Gb) as Es.
    destruct (detached x) eqn:Ed.
    - apply try_detached_complete.
      + unfold candidates. rewrite Ed, Es.
        destruct (hits_unreadable verify readable _ (m x) (s x)) eqn:Hh; [|reflexivity].
        exfalso. apply (G eq_refl). apply hits_unreadable_iff. exact Hh.
      + exists (cert_of k). split; [|exact Hv]. unfold candidates. rewrite Ed, Es. exact Hp.
    - apply try_certs_true. exists (cert_of k). split; [|exact Hv].
      unfold candidates. rewrite Ed, Es. destruct (walk_certs (md x) (claimed x)); [contradiction|exact Hp].
  Qed.

  Lemma trust_holds (x : input cert msg sig) :
    gspec cert_of sign verify readable blank x (accept verify readable blank x).
  Proof. split; [apply accept_sound|apply accept_complete]. Qed.

  (* both guards hold whenever every KeyDescriptor the issuer publishes for signing carries a certificate
     that loads (stated on the metadata, not on the walk order) *)
  Lemma usable_md_guards (x : input cert msg sig) :
    (forall e c, claimed x = Some e -> published_for_signing (md x) e c -> readable c = true /\ blank c = false) ->
    sguard blank x /\ guard verify readable blank x.
  Proof.
    intros H. assert (Hnb : ~ blank_published blank (md x) (claimed x)).
    { intros (e & c & He & Hp & Hb). destruct (H e c He Hp) as [_ Hb']. congruence. }
    split; [intros _ _; exact Hnb|]. split; [exact Hnb|].
    intros _ (pre & c & post & E & Rc & _).
    destruct (claimed x) as [e|] eqn:Ec.
    - assert (Hin : In c (walk_certs (md x) (Some e))) by (rewrite E; apply in_or_app; right; left; reflexivity).
      apply walk_published in Hin. destruct (H e c eq_refl Hin) as [Hr _]. congruence.
    - cbn [walk_certs] in E. destruct pre; discriminate.
  Qed.

  Lemma trust_usable_md (x : input cert msg sig) :
    (forall e c, claimed x = Some e -> published_for_signing (md x) e c -> readable c = true /\ blank c = false) ->
    spec cert_of sign x (accept verify readable blank x).
  Proof.
    intros H. destruct (usable_md_guards x H) as [G1 G2].
    split; [apply accept_sound, G1|apply accept_complete, G2].
  Qed.

  (* enveloped (XML) signatures are outside finding class C03-F1 altogether *)
  Lemma trust_enveloped (x : input cert msg sig) :
    detached x = false -> ~ blank_published blank (md x) (claimed x) ->
    spec cert_of sign x (accept verify readable blank x).
  Proof.
    intros Hd Hnb. split; [apply accept_sound; intros _ _; exact Hnb|apply accept_complete].
    split; [exact Hnb|]. intros Hd'. congruence.
  Qed.

  (* corollaries named in the property text (defaults: only_md = true) *)
  Lemma unknown_issuer_rejected (x : input cert msg sig) :
    only_md x = true -> (forall e, claimed x = Some e -> lookup_md e (md x) = None) ->
    fst (accept verify readable blank x) = false.
  Proof.
    intros Ho Hu. unfold accept, candidates. assert (E : signing_certs blank (md x) (claimed x) = []).
    { unfold signing_certs, walk_certs. destruct (claimed x) as [e|]; [|reflexivity]. rewrite (Hu e eq_refl). reflexivity. }
    rewrite E, Ho. destruct (detached x); reflexivity.
  Qed.

  (* ---- the long-lived receiver: every verification is judged against the metadata loaded by the last
     successful (re)load before it, whatever was verified or loaded earlier ---- *)
  Lemma run_ops_length init only ops :
    length (run_ops verify readable blank init only ops) = nchecks ops.
  Proof.
    revert init. induction ops as [|o r IH]; intros init; [reflexivity|].
    destruct o as [m'| |q]; cbn [run_ops]; unfold nchecks in *; cbn [filter is_check length]; auto.
  Qed.

  Lemma run_ops_spec (P : input cert msg sig -> bool * list cert -> Prop) :
    (forall x, P x (accept verify readable blank x)) ->
    forall ops init only, seq_spec P init only ops (run_ops verify readable blank init only ops).
  Proof.
    intros HP ops. induction ops as [|o r IH]; intros init only; split; try apply run_ops_length.
    - intros pre q post E. destruct pre; discriminate.
    - intros pre q post E. destruct o as [m'| |q0]; cbn [run_ops].
      + destruct pre as [|p pre']; [discriminate|]. cbn in E. injection E as <- ->.
        destruct (IH m' only) as [_ H]. destruct (H pre' q post eq_refl) as [o [Hn Ho]].
        exists o. split; [exact Hn|exact Ho].
      + destruct pre as [|p pre']; [discriminate|]. cbn in E. injection E as <- ->.
        destruct (IH init only) as [_ H]. destruct (H pre' q post eq_refl) as [o [Hn Ho]].
        exists o. split; [exact Hn|exact Ho].
      + destruct pre as [|p pre'].
        * cbn in E. injection E as -> _. exists (accept verify readable blank (at_md init only q)).
          split; [reflexivity|apply HP].
        * cbn in E. injection E as <- ->.
          destruct (IH init only) as [_ H]. destruct (H pre' q post eq_refl) as [o [Hn Ho]].
          exists o. split; [exact Hn|exact Ho].
  Qed.

  Lemma receiver_trust ops init only :
    seq_spec (gspec cert_of sign verify readable blank) init only ops (run_ops verify readable blank init only ops).
  Proof. apply run_ops_spec. exact trust_holds. Qed.

  (* with the default flag every verification of every life is sound, no exception *)
  Lemma receiver_sound_default ops init :
    seq_spec (sound cert_of sign) init true ops (run_ops verify readable blank init true ops).
  Proof.
    assert (H : seq_spec (fun x o => only_md x = true -> sound cert_of sign x o) init true ops
                  (run_ops verify readable blank init true ops)).
    { apply run_ops_spec. intros x. apply accept_sound_default. }
    destruct H as [L H]. split; [exact L|]. intros pre q post E. destruct (H pre q post E) as [o [Hn Ho]].
    exists o. split; [exact Hn|apply Ho; reflexivity].
  Qed.

  (* the property text's "loaded metadata" made explicit: a key that the set loaded now does not
     publish for the claimed issuer does not validate, whatever an earlier set published and whatever
     was verified before the reload *)
  Lemma withdrawn_key_rejected pre mdx post q k e init only :
    q_s q = sign k (q_m q) -> q_claimed q = Some e -> only = true ->
    ~ published_for_signing mdx e (cert_of k) ->
    nth_error (run_ops verify readable blank init only (pre ++ Reload mdx :: Check q :: post)) (nchecks pre) =
      Some (accept verify readable blank (at_md mdx only q))
    /\ fst (accept verify readable blank (at_md mdx only q)) = false.
  Proof.
    intros Hs Hc Ho Hn. split.
    - revert init. induction pre as [|o pre' IH]; intros init; [reflexivity|].
      destruct o as [m'| |q0]; cbn [app run_ops]; unfold nchecks in *; cbn [filter is_check length nth_error]; apply IH.
    - destruct (fst (accept verify readable blank (at_md mdx only q))) eqn:Ea; [|reflexivity]. exfalso.
      destruct (accept_sound_default (at_md mdx only q)) as (_ & _ & H3); [exact Ho|].
      specialize (H3 Ea k Hs). destruct H3 as [[e' [He' Hp]]|[Hf _]].
      + cbn in He'. rewrite Hc in He'. injection He' as <-. exact (Hn Hp).
      + cbn in Hf. congruence.
  Qed.
End Proofs.

(* ---- term-algebra instance: the hypotheses are satisfiable, and the model runs ---- *)
Definition ikey := nat.
(* a certificate of the instance: the certificate of key k, published octets that are no certificate, or
   the place of the certificate in a KeyDescriptor that carries none *)
Inductive icert := Gd (k : nat) | Jk (n : nat) | Bl (n : nat).
Definition imsg := nat.
Definition isig := (nat * nat)%type.
Definition icert_of (k : ikey) : icert := Gd k.
Definition isign (k : ikey) (mm : imsg) : isig := (k, mm).
Definition iverify (c : icert) (mm : imsg) (ss : isig) : bool :=
  match c with Gd k => Nat.eqb k (fst ss) && Nat.eqb mm (snd ss) | _ => false end.
Definition ireadable (c : icert) : bool := match c with Gd _ => true | _ => false end.
Definition iblank (c : icert) : bool := match c with Bl _ => true | _ => false end.

Lemma iverify_spec c mm ss : iverify c mm ss = true <-> exists k, c = icert_of k /\ ss = isign k mm.
Proof.
  unfold iverify, icert_of, isign. destruct ss as [a b]. cbn [fst snd]. destruct c as [k0|n|n].
  - rewrite andb_true_iff, !Nat.eqb_eq. split.
    + intros [-> ->]. exists a. auto.
    + intros [k [[= ->] [= -> ->]]]. auto.
  - split; [discriminate|]. intros [k [[=] _]].
  - split; [discriminate|]. intros [k [[=] _]].
Qed.

Lemma isign_inj k k' mm : isign k mm = isign k' mm -> k = k'.
Proof. intros [= ->]. reflexivity. Qed.

Lemma instance_trust (x : input icert imsg isig) :
  gspec icert_of isign iverify ireadable iblank x (accept iverify ireadable iblank x).
Proof. apply trust_holds; [exact iverify_spec|exact isign_inj]. Qed.

Lemma instance_receiver ops init only :
  seq_spec (gspec icert_of isign iverify ireadable iblank) init only ops (run_ops iverify ireadable iblank init only ops).
Proof. apply receiver_trust; [exact iverify_spec|exact isign_inj]. Qed.

(* non-vacuity: metadata with a signing, a rotated signing and an encryption-only key *)
Example rotated_key_accepted_encryption_key_rejected :
  let mdx : metadata icert := [("idp", [[(Some Signing, Gd 1); (Some Signing, Gd 2); (Some Encryption, Gd 3)]]); ("other", [[(None, Gd 4)]])] in
  let x k := Build_input mdx true (Some "idp") [Gd k] false 7 (isign k 7) in
  accept iverify ireadable iblank (x 2) = (true, [Gd 1; Gd 2]) /\ accept iverify ireadable iblank (x 3) = (false, [Gd 1; Gd 2])
  /\ accept iverify ireadable iblank (x 4) = (false, [Gd 1; Gd 2])
  /\ accept iverify ireadable iblank (Build_input mdx false (Some "nobody") [Gd 6] false 7 (isign 6 7)) = (true, [Gd 6])
  /\ accept iverify ireadable iblank (Build_input mdx true (Some "nobody") [Gd 6] false 7 (isign 6 7)) = (false, []).
Proof. vm_compute. repeat split; reflexivity. Qed.

(* non-vacuity of the receiver: key 1 validates while published, stops validating once the reloaded set
   publishes only key 2, key 2 validates from then on; a failed reload changes nothing; an issuer added
   by a reload validates from then on *)
Example rotation_over_reloads :
  let g1 : metadata icert := [("idp", [[(Some Signing, Gd 1)]])] in
  let g2 : metadata icert := [("idp", [[(Some Signing, Gd 2)]]); ("new", [[(None, Gd 6)]])] in
  let ck e k d := Check (Build_query (Some e) [] d 7 (isign k 7)) in
  run_ops iverify ireadable iblank g1 true
    [ck "idp" 1 false; ck "idp" 2 false; ck "new" 6 true; ReloadFailed; ck "idp" 1 true;
     Reload g2; ck "idp" 1 false; ck "idp" 2 false; ck "idp" 1 true; ck "new" 6 true]
  = [(true, [Gd 1]); (false, [Gd 1]); (false, []); (true, [Gd 1]);
     (false, [Gd 2]); (true, [Gd 2]); (false, [Gd 2]); (true, [Gd 6])].
Proof. vm_compute. reflexivity. Qed.

(* the finding class is inhabited only by detached signatures: an unreadable certificate ahead of the
   signer's one ends the loop; the XML path goes on to the next certificate *)
Example unreadable_certificate_first :
  let mdx : metadata icert := [("sp", [[(Some Signing, Jk 0); (Some Signing, Gd 1)]])] in
  accept iverify ireadable iblank (Build_input mdx true (Some "sp") [] true 7 (isign 1 7)) = (false, [])
  /\ accept iverify ireadable iblank (Build_input mdx true (Some "sp") [] false 7 (isign 1 7)) = (true, [Jk 0; Gd 1]).
Proof. vm_compute. split; reflexivity. Qed.

(* a KeyDescriptor without certificate hides every key of the issuer; with the opt-in fallback on, the
   embedded certificate is then used although metadata does publish a key for that issuer (C03-F2) *)
Example keydescriptor_without_certificate :
  let mdx : metadata icert := [("idp", [[(Some Signing, Gd 1); (None, Bl 0)]])] in
  accept iverify ireadable iblank (Build_input mdx true (Some "idp") [] false 7 (isign 1 7)) = (false, [])
  /\ accept iverify ireadable iblank (Build_input mdx true (Some "idp") [] true 7 (isign 1 7)) = (false, [])
  /\ accept iverify ireadable iblank (Build_input mdx false (Some "idp") [Gd 6] false 7 (isign 6 7)) = (true, [Gd 6])
  /\ accept iverify ireadable iblank
       (Build_input [("idp", [[(Some Signing, Gd 1); (Some Encryption, Bl 0)]])] false (Some "idp") [Gd 6] false 7 (isign 6 7))
     = (false, [Gd 1]).
Proof. vm_compute. repeat split; reflexivity. Qed.
