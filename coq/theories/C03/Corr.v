(* C03/Corr.v — correspondence on the term-algebra instance: certificates and keys are small
   numbers (which key pair signed / which certificate file the verifier was handed). *)
From Coq Require Import String List Bool Arith.
From Verif Require Import Base.Str Base.Run C03.Model C03.Spec C03.Proofs.
Import ListNotations.

Definition iinput := input icert imsg isig.
Definition case := (iinput * (bool * list nat))%type.

Definition use_is_enc (u : option use) : bool := match u with Some Encryption => true | _ => false end.

Definition published_b (md : metadata nat) (e : string) (c : nat) : bool :=
  match lookup_md e md with
  | Some roles => existsb (fun role => existsb (fun kd => Nat.eqb (snd kd) c && negb (use_is_enc (fst kd))) role) roles
  | None => false
  end.

Definition no_signing_key_b (md : metadata nat) (issuer : option string) : bool :=
  match issuer with
  | Some e => match lookup_md e md with
              | Some roles => forallb (fun role => forallb (fun kd => use_is_enc (fst kd)) role) roles
              | None => true
              end
  | None => true
  end.

Definition claimed_published_b (x : iinput) (c : nat) : bool :=
  match claimed x with Some e => published_b (md x) e c | None => false end.

Definition trusted_b (x : iinput) (c : nat) : bool :=
  claimed_published_b x c
  || (negb (only_md x) && negb (detached x) && no_signing_key_b (md x) (claimed x) && existsb (Nat.eqb c) (embedded x)).

Definition genuine_b (x : iinput) : bool := Nat.eqb (snd (s x)) (m x).

Definition spec_b (x : iinput) (out : bool * list nat) : bool :=
  forallb (trusted_b x) (snd out)
  && (if fst out then genuine_b x && trusted_b x (fst (s x)) else true)
  && (if genuine_b x && claimed_published_b x (fst (s x)) then fst out else true).

(* mk md only_md claimed embedded detached signer tampered obs: the signature was made by `signer`
   over message 7; `tampered` = the received octets differ from the signed ones *)
Definition mk (mdx : metadata nat) (only_mdx : bool) (claimedx : option string) (embeddedx : list nat)
  (detachedx : bool) (signer : nat) (tampered : bool) (obs : bool * list nat) : case :=
  (Build_input mdx only_mdx claimedx embeddedx detachedx (if tampered then 8 else 7) (isign signer 7), obs).

Definition out_eqb (a b : bool * list nat) : bool :=
  Bool.eqb (fst a) (fst b) && list_eqb Nat.eqb (snd a) (snd b).

(* for detached (query-string) signatures the certificates tried are not observable: the
   verification happens in-process, not through the xmlsec1 stand-in *)
Definition agrees (c : case) : bool :=
  if detached (fst c) then Bool.eqb (fst (accept iverify (fst c))) (fst (snd c))
  else out_eqb (accept iverify (fst c)) (snd c).
Definition holds (c : case) : bool := spec_b (fst c) (snd c).
Definition cls (c : case) : nat := 0.
Definition run := run_cases agrees holds cls.
Definition explain (c : case) := (accept iverify (fst c), candidates (fst c), spec_b (fst c) (snd c)).

(* ---- the boolean spec is the stated spec (on the instance) ---- *)
Lemma published_b_iff mdx e c : published_b mdx e c = true <-> published_for_signing mdx e c.
Proof.
  unfold published_b, published_for_signing. destruct (lookup_md e mdx) as [roles|].
  - rewrite existsb_exists. split.
    + intros [role [Hr H]]. apply existsb_exists in H as [[u c'] [Hin H]]. cbn [fst snd] in H.
      apply andb_true_iff in H as [Hc Hu]. apply Nat.eqb_eq in Hc. subst c'.
      exists roles, role, u. repeat split; auto. intros ->. discriminate.
    + intros (roles' & role & u & [= <-] & Hr & Hin & Hu). exists role. split; [exact Hr|].
      apply existsb_exists. exists (u, c). split; [exact Hin|]. cbn [fst snd]. rewrite Nat.eqb_refl.
      destruct u as [[|]|]; cbn; auto; try (contradiction Hu; reflexivity).
  - split; [discriminate|]. intros (roles & _ & _ & H & _). discriminate.
Qed.

Lemma no_signing_key_b_iff mdx issuer : no_signing_key_b mdx issuer = true <-> no_signing_key mdx issuer.
Proof.
  unfold no_signing_key_b, no_signing_key. destruct issuer as [e|].
  - split.
    + intros H e' c [= <-] Hp. apply published_b_iff in Hp. unfold published_b in Hp.
      destruct (lookup_md e mdx) as [roles|]; [|discriminate].
      apply existsb_exists in Hp as [role [Hr Hp]]. apply existsb_exists in Hp as [kd [Hin Hp]].
      apply andb_true_iff in Hp as [_ Hu]. rewrite forallb_forall in H. specialize (H role Hr).
      rewrite forallb_forall in H. specialize (H kd Hin). rewrite H in Hu. discriminate.
    + intros H. destruct (lookup_md e mdx) as [roles|] eqn:L; [|reflexivity].
      apply forallb_forall. intros role Hr. apply forallb_forall. intros [u c] Hin. cbn [fst].
      destruct (use_is_enc u) eqn:Eu; [reflexivity|]. exfalso. apply (H e c eq_refl).
      exists roles, role, u. repeat split; auto. intros ->. discriminate.
  - split; [intros _ e c [=]|reflexivity].
Qed.

Lemma trusted_b_iff x c : trusted_b x c = true <-> trusted_for x c.
Proof.
  unfold trusted_b, trusted_for, claimed_published_b. rewrite orb_true_iff, !andb_true_iff, !negb_true_iff.
  rewrite no_signing_key_b_iff. split.
  - intros [H|[[[Ho Hd] Hn] He]].
    + left. destruct (claimed x) as [e|]; [|discriminate]. exists e. split; [reflexivity|apply published_b_iff; exact H].
    + right. repeat split; auto. apply existsb_exists in He as [c' [Hin Hc]]. apply Nat.eqb_eq in Hc. subst; exact Hin.
  - intros [[e [-> Hp]]|(Ho & Hd & Hn & He)].
    + left. apply published_b_iff; exact Hp.
    + right. repeat split; auto. apply existsb_exists. exists c. split; [exact He|apply Nat.eqb_refl].
Qed.

Lemma made_by_iff (x : iinput) k : made_by isign x k <-> k = fst (s x) /\ genuine_b x = true.
Proof.
  unfold made_by, isign, genuine_b. destruct (s x) as [a b]. cbn [fst snd]. rewrite Nat.eqb_eq. split.
  - intros [= -> ->]. auto.
  - intros [-> ->]. reflexivity.
Qed.

Lemma spec_b_iff x out : spec_b x out = true <-> spec icert_of isign x out.
Proof.
  destruct out as [o h]. unfold spec_b, spec, sound, complete. cbn [fst snd]. rewrite !andb_true_iff, forallb_forall. split.
  - intros [[H1 H2] H3]. repeat split.
    + intros c Hc. apply trusted_b_iff, H1, Hc.
    + intros Hf. rewrite Hf in H2. apply andb_true_iff in H2 as [Hg _]. exists (fst (s x)). apply made_by_iff. auto.
    + intros Hf k Hk. rewrite Hf in H2. apply andb_true_iff in H2 as [_ Ht]. apply made_by_iff in Hk as [-> _].
      apply trusted_b_iff. exact Ht.
    + intros k e Hk He Hp. apply made_by_iff in Hk as [-> Hg]. unfold claimed_published_b in H3. rewrite He, Hg in H3.
      apply published_b_iff in Hp. unfold icert_of in Hp. rewrite Hp in H3. exact H3.
  - intros [(H1 & H2 & H3) H4]. repeat split.
    + intros c Hc. apply trusted_b_iff, H1, Hc.
    + destruct o eqn:Hf; [|reflexivity]. destruct (H2 eq_refl) as [k Hk].
      pose proof (H3 eq_refl k Hk) as Ht. apply made_by_iff in Hk as [-> Hg]. rewrite Hg. cbn [andb].
      apply trusted_b_iff. exact Ht.
    + destruct (genuine_b x) eqn:Hg; [|reflexivity]. cbn [andb]. unfold claimed_published_b.
      destruct (claimed x) as [e|] eqn:He; [|reflexivity].
      destruct (published_b (md x) e (fst (s x))) eqn:Hp; [|reflexivity].
      apply (H4 (fst (s x)) e); [apply made_by_iff; auto|reflexivity|apply published_b_iff; exact Hp].
Qed.
