(* C03/Corr.v — correspondence on the term-algebra instance: keys are small numbers (which key pair
   signed), certificates are Gd k (the certificate of key k), Jk n (published octets that are no
   certificate) or Bl n (a KeyDescriptor that carries no certificate); a case is a whole life of one receiver: the metadata it starts with, the operations
   (verifications, reloads) in order and the output observed on the real code for every message
   (accept/reject + per signed element of the message which certificates were handed to the verifier). *)
From Coq Require Import String List Bool Arith.
From Verif Require Import Base.Str Base.Run C03.Model C03.Spec C03.Proofs.
Import ListNotations.

Definition iinput := input icert imsg isig.
Definition iout := (bool * list icert)%type.
Definition iop := op icert imsg isig.
Definition imout := mout icert.
(* + every run of xmlsec1 --verify seen in that life (without repetitions): the version the binary reported, was the
   command line confined to the certificate file, did it carry --lax-key-search *)
Definition case := (metadata icert * bool * list iop * list imout * list call)%type.

Definition icert_eqb (a b : icert) : bool :=
  match a, b with
  | Gd x, Gd y => Nat.eqb x y
  | Jk x, Jk y => Nat.eqb x y
  | Bl x, Bl y => Nat.eqb x y
  | _, _ => false
  end.

Lemma icert_eqb_eq a b : icert_eqb a b = true <-> a = b.
Proof.
  destruct a as [x|x|x], b as [y|y|y]; cbn [icert_eqb]; try (split; discriminate);
    rewrite Nat.eqb_eq; split; try (intros ->; reflexivity); intros [= ->]; reflexivity.
Qed.

Definition use_is_enc (u : option use) : bool := match u with Some Encryption => true | _ => false end.

Definition published_b (md : metadata icert) (e : string) (c : icert) : bool :=
  match lookup_md e md with
  | Some roles => existsb (fun role => existsb (fun kd => icert_eqb (snd kd) c && negb (use_is_enc (fst kd))) role) roles
                  && negb (iblank c)
  | None => false
  end.

Definition no_signing_key_b (md : metadata icert) (issuer : option string) : bool :=
  match issuer with
  | Some e => match lookup_md e md with
              | Some roles => forallb (fun role => forallb (fun kd => use_is_enc (fst kd) || iblank (snd kd)) role) roles
              | None => true
              end
  | None => true
  end.

Definition claimed_published_b (x : iinput) (c : icert) : bool :=
  match claimed x with Some e => published_b (md x) e c | None => false end.

Definition trusted_b (x : iinput) (c : icert) : bool :=
  claimed_published_b x c
  || (negb (only_md x) && negb (detached x) && no_signing_key_b (md x) (claimed x) && existsb (icert_eqb c) (embedded x)).

Definition genuine_b (x : iinput) : bool := Nat.eqb (snd (s x)) (m x).

Definition spec_b (x : iinput) (out : iout) : bool :=
  forallb (trusted_b x) (snd out)
  && (if fst out then genuine_b x && trusted_b x (Gd (fst (s x))) else true)
  && (if genuine_b x && claimed_published_b x (Gd (fst (s x))) then fst out else true).

(* ---- the message level: per signed element the handed certificates, every signature of an accepted message,
   completeness when all elements name one issuer that publishes every signing key ---- *)
Fixpoint handed_ok (xs : list iinput) (hs : list (list icert)) : bool :=
  match xs, hs with
  | [], [] => true
  | x :: r, h :: hr => forallb (trusted_b x) h && handed_ok r hr
  | _, _ => false
  end.

Definition part_sound_b (x : iinput) : bool := genuine_b x && trusted_b x (Gd (fst (s x))).

Definition part_pub_b (e : string) (x : iinput) : bool :=
  genuine_b x && issuer_is e x && published_b (md x) e (Gd (fst (s x))).

Definition all_pub_b (xs : list iinput) : bool :=
  match xs with
  | [] => true
  | x :: _ => match claimed x with Some e => forallb (part_pub_b e) xs | None => false end
  end.

Definition msg_spec_b (xs : list iinput) (out : imout) : bool :=
  handed_ok xs (snd out)
  && (if fst out then forallb part_sound_b xs else true)
  && (if all_pub_b xs then fst out else true).

(* a per-signature test lifted to messages that carry exactly one signature *)
Definition lift1 (pb : iinput -> iout -> bool) (xs : list iinput) (out : imout) : bool :=
  match xs, snd out with
  | [x], [h] => pb x (fst out, h)
  | _, _ => false
  end.

(* ---- the classes of the two repaired findings: a failure inside them is a regression of the repair (the
   findings are "fixed": a fixed entry suppresses nothing, the failure is reported as a VIOLATION) ---- *)

(* class 2 (C03-F2, repaired by a9edf887): the claimed issuer declares, for signing or with no use, a
   KeyDescriptor without certificate; the failure is a rejection (every key of the issuer lost) or -- fallback
   on, enveloped signature -- use of the embedded certificates although metadata holds a key *)
Definition blank_pub_b (x : iinput) : bool := existsb iblank (walk_certs_v0 (md x) (claimed x)).
Definition fallback_cfg (x : iinput) : bool := negb (only_md x) && negb (detached x).
Definition in_f2 (x : iinput) (out : iout) : bool :=
  blank_pub_b x
  && forallb (fun c => claimed_published_b x c || (fallback_cfg x && existsb (icert_eqb c) (embedded x))) (snd out)
  && (negb (fst out) || (fallback_cfg x && genuine_b x && existsb (icert_eqb (Gd (fst (s x)))) (embedded x))).

(* class 1 (C03-F1, repaired by 2dad6239): a detached signature is REJECTED, and the walk over the issuer's
   published signing certificates meets one that is no certificate before one that verifies *)
Definition in_f1 (x : iinput) (out : iout) : bool :=
  detached x && negb (fst out)
  && hits_unreadable iverify ireadable (signing_certs iblank (md x) (claimed x)) (m x) (s x).

(* walk the life of the receiver with a per-message test *)
Fixpoint seq_b (pb : list iinput -> imout -> bool) (cur : metadata icert) (only : bool) (ops : list iop) (outs : list imout) : bool :=
  match ops with
  | [] => match outs with [] => true | _ => false end
  | Reload m' :: r => seq_b pb m' only r outs
  | ReloadFailed :: r => seq_b pb cur only r outs
  | Lookup _ _ :: r => seq_b pb cur only r outs
  | Engine _ :: r => seq_b pb cur only r outs
  | Check qs :: r => match outs with
                     | o :: outs' => pb (map (at_md cur only) qs) o && seq_b pb cur only r outs'
                     | [] => false
                     end
  end.

(* pt insist claimed embedded detached signer tampered: one signed element; the signature was made by `signer`
   over message 7; `tampered` = the received octets differ from the signed ones; `insist` = the receiver's
   configuration demands a signature on this element *)
Definition pt (insist : bool) (claimedx : option string) (embeddedx : list icert) (detachedx : bool) (signer : nat)
  (tampered : bool) : query icert imsg isig :=
  Build_query claimedx embeddedx detachedx (if tampered then 8 else 7) (isign signer 7) insist.

(* a message with one signature / with several (Response, then Assertion) *)
Definition ck (claimedx : option string) (embeddedx : list icert) (detachedx : bool) (signer : nat) (tampered : bool) : iop :=
  Check [pt true claimedx embeddedx detachedx signer tampered].
Definition ckm (qs : list (query icert imsg isig)) : iop := Check qs.

Definition mkseq (mdx : metadata icert) (only_mdx : bool) (ops : list iop) (outs : list imout) (calls : list call) : case :=
  (mdx, only_mdx, ops, outs, calls).

(* one verification by a fresh receiver *)
Definition mk (mdx : metadata icert) (only_mdx : bool) (claimedx : option string) (embeddedx : list icert)
  (detachedx : bool) (signer : nat) (tampered : bool) (obs : iout) : case :=
  mkseq mdx only_mdx [ck claimedx embeddedx detachedx signer tampered] [(fst obs, [snd obs])] [].

Definition out_eqb (a b : imout) : bool :=
  Bool.eqb (fst a) (fst b) && list_eqb (list_eqb icert_eqb) (snd a) (snd b).

Definition c_md (c : case) := fst (fst (fst (fst c))).
Definition c_only (c : case) := snd (fst (fst (fst c))).
Definition c_ops (c : case) := snd (fst (fst c)).
Definition c_outs (c : case) := snd (fst c).
Definition c_calls (c : case) := snd c.

(* the command line seen on the real code is the one Model.verify_cmdline gives for the reported version *)
Definition call_agrees (k : call) : bool :=
  let '(v, conf, lax) := k in
  Bool.eqb conf (key_data_confined (verify_cmdline v)) && Bool.eqb lax (lax_key_search (verify_cmdline v)).
(* Spec.confined_calls *)
Definition call_confined (k : call) : bool := snd (fst k).

Definition agrees (c : case) : bool :=
  list_eqb out_eqb (run_ops iverify ireadable iblank (c_md c) (c_only c) (c_ops c)) (c_outs c)
  && forallb call_agrees (c_calls c).
Definition holds (c : case) : bool :=
  seq_b msg_spec_b (c_md c) (c_only c) (c_ops c) (c_outs c) && forallb call_confined (c_calls c).
(* class 1 only if EVERY message that fails the spec lies in finding class 1; class 2 only if every
   one lies in class 1 or 2; otherwise no class: a plain violation (the classes are per-signature: only
   messages with one signature can be in them).  A verifier that was not confined is in no class. *)
Definition cls (c : case) : nat :=
  if negb (forallb call_confined (c_calls c)) then 0
  else if seq_b (fun x o => msg_spec_b x o || lift1 in_f1 x o) (c_md c) (c_only c) (c_ops c) (c_outs c) then 1
  else if seq_b (fun x o => msg_spec_b x o || lift1 in_f1 x o || lift1 in_f2 x o) (c_md c) (c_only c) (c_ops c) (c_outs c) then 2
  else 0.
Definition run := run_cases agrees holds cls.
Definition explain (c : case) :=
  (run_ops iverify ireadable iblank (c_md c) (c_only c) (c_ops c), c_outs c, holds c, cls c,
   map (fun k => (k, verify_cmdline (fst (fst k)))) (c_calls c)).

(* ---- the boolean spec is the stated spec (on the instance) ---- *)
Lemma published_b_iff mdx e c : published_b mdx e c = true <-> published_for_signing iblank mdx e c.
Proof.
  unfold published_b, published_for_signing. destruct (lookup_md e mdx) as [roles|].
  - rewrite andb_true_iff, negb_true_iff, existsb_exists. split.
    + intros [[role [Hr H]] Hb]. apply existsb_exists in H as [[u c'] [Hin H]]. cbn [fst snd] in H.
      apply andb_true_iff in H as [Hc Hu]. apply icert_eqb_eq in Hc. subst c'.
      exists roles, role, u. repeat split; auto. intros ->. discriminate.
    + intros (roles' & role & u & [= <-] & Hr & Hin & Hu & Hb). split; [|exact Hb]. exists role. split; [exact Hr|].
      apply existsb_exists. exists (u, c). split; [exact Hin|]. cbn [fst snd]. rewrite (proj2 (icert_eqb_eq c c) eq_refl).
      destruct u as [[|]|]; cbn; auto; try (contradiction Hu; reflexivity).
  - split; [discriminate|]. intros (roles & _ & _ & H & _). discriminate.
Qed.

Lemma no_signing_key_b_iff mdx issuer : no_signing_key_b mdx issuer = true <-> no_signing_key iblank mdx issuer.
Proof.
  unfold no_signing_key_b, no_signing_key. destruct issuer as [e|].
  - split.
    + intros H e' c [= <-] Hp. apply published_b_iff in Hp. unfold published_b in Hp.
      destruct (lookup_md e mdx) as [roles|]; [|discriminate].
      apply andb_true_iff in Hp as [Hp Hb]. apply negb_true_iff in Hb.
      apply existsb_exists in Hp as [role [Hr Hp]]. apply existsb_exists in Hp as [[u c'] [Hin Hp]].
      cbn [fst snd] in Hp. apply andb_true_iff in Hp as [Hc Hu]. apply icert_eqb_eq in Hc. subst c'.
      rewrite forallb_forall in H. specialize (H role Hr).
      rewrite forallb_forall in H. specialize (H (u, c) Hin). cbn [fst snd] in H. rewrite Hb in H.
      destruct (use_is_enc u); discriminate.
    + intros H. destruct (lookup_md e mdx) as [roles|] eqn:L; [|reflexivity].
      apply forallb_forall. intros role Hr. apply forallb_forall. intros [u c] Hin. cbn [fst snd].
      destruct (use_is_enc u) eqn:Eu; [reflexivity|]. destruct (iblank c) eqn:Eb; [reflexivity|].
      exfalso. apply (H e c eq_refl).
      exists roles, role, u. repeat split; auto. intros ->. discriminate.
  - split; [intros _ e c [=]|reflexivity].
Qed.

Lemma trusted_b_iff x c : trusted_b x c = true <-> trusted_for iblank x c.
Proof.
  unfold trusted_b, trusted_for, claimed_published_b. rewrite orb_true_iff, !andb_true_iff, !negb_true_iff.
  rewrite no_signing_key_b_iff. split.
  - intros [H|[[[Ho Hd] Hn] He]].
    + left. destruct (claimed x) as [e|]; [|discriminate]. exists e. split; [reflexivity|apply published_b_iff; exact H].
    + right. repeat split; auto. apply existsb_exists in He as [c' [Hin Hc]]. apply icert_eqb_eq in Hc. subst; exact Hin.
  - intros [[e [-> Hp]]|(Ho & Hd & Hn & He)].
    + left. apply published_b_iff; exact Hp.
    + right. repeat split; auto. apply existsb_exists. exists c. split; [exact He|apply icert_eqb_eq; reflexivity].
Qed.

Lemma made_by_iff (x : iinput) k : made_by isign x k <-> k = fst (s x) /\ genuine_b x = true.
Proof.
  unfold made_by, isign, genuine_b. destruct (s x) as [a b]. cbn [fst snd]. rewrite Nat.eqb_eq. split.
  - intros [= -> ->]. auto.
  - intros [-> ->]. reflexivity.
Qed.

Lemma spec_b_iff x out : spec_b x out = true <-> spec icert_of isign iblank x out.
Proof.
  destruct out as [o h]. unfold spec_b, spec, sound, complete. cbn [fst snd]. rewrite !andb_true_iff, forallb_forall. split.
  - intros [[H1 H2] H3]. repeat split.
    + intros c Hc. apply trusted_b_iff, H1, Hc.
    + intros Hf. rewrite Hf in H2. apply andb_true_iff in H2 as [Hg _]. exists (fst (s x)). apply made_by_iff. auto.
    + intros Hf k Hk. rewrite Hf in H2. apply andb_true_iff in H2 as [_ Ht]. apply made_by_iff in Hk as [-> _].
      apply trusted_b_iff. exact Ht.
    + intros k e Hk He Hp. apply made_by_iff in Hk as [-> Hg]. unfold claimed_published_b in H3. rewrite He, Hg in H3.
      apply published_b_iff in Hp. unfold icert_of in Hp. rewrite Hp in H3. exact H3.
  - intros [(H1 & H2 & H3) H4]. repeat split.
    + intros c Hc. apply trusted_b_iff, H1, Hc.
    + destruct o eqn:Hf; [|reflexivity]. destruct (H2 eq_refl) as [k Hk].
      pose proof (H3 eq_refl k Hk) as Ht. apply made_by_iff in Hk as [-> Hg]. rewrite Hg. cbn [andb].
      apply trusted_b_iff. exact Ht.
    + destruct (genuine_b x) eqn:Hg; [|reflexivity]. cbn [andb]. unfold claimed_published_b.
      destruct (claimed x) as [e|] eqn:He; [|reflexivity].
      destruct (published_b (md x) e (Gd (fst (s x)))) eqn:Hp; [|reflexivity].
      apply (H4 (fst (s x)) e); [apply made_by_iff; auto|reflexivity|apply published_b_iff; exact Hp].
Qed.


Lemma handed_ok_iff xs hs :
  handed_ok xs hs = true <-> Forall2 (fun x h => forall c, In c h -> trusted_for iblank x c) xs hs.
Proof.
  revert hs. induction xs as [|x r IH]; intros [|h hr]; cbn [handed_ok].
  - split; [constructor|reflexivity].
  - split; [discriminate|intros H; inversion H].
  - split; [discriminate|intros H; inversion H].
  - rewrite andb_true_iff, forallb_forall, IH. split.
    + intros [Hh Hr]. constructor; [|exact Hr]. intros c Hc. apply trusted_b_iff, Hh, Hc.
    + intros H. inversion H as [|x0 h0 l l' Hh Hr]; subst. split; [|exact Hr].
      intros c Hc. apply trusted_b_iff, Hh, Hc.
Qed.

Lemma part_sound_b_iff x :
  part_sound_b x = true <->
  (exists k, made_by isign x k) /\ (forall k, made_by isign x k -> trusted_for iblank x (icert_of k)).
Proof.
  unfold part_sound_b. rewrite andb_true_iff. split.
  - intros [Hg Ht]. split.
    + exists (fst (s x)). apply made_by_iff. auto.
    + intros k Hk. apply made_by_iff in Hk as [-> _]. apply trusted_b_iff. exact Ht.
  - intros [[k Hk] H]. pose proof (H k Hk) as Ht. apply made_by_iff in Hk as [-> Hg]. split; [exact Hg|].
    apply trusted_b_iff. exact Ht.
Qed.

Lemma part_pub_b_iff e x :
  part_pub_b e x = true <->
  exists k, made_by isign x k /\ claimed x = Some e /\ published_for_signing iblank (md x) e (icert_of k).
Proof.
  unfold part_pub_b, issuer_is. rewrite !andb_true_iff. split.
  - intros [[Hg He] Hp]. exists (fst (s x)). split; [apply made_by_iff; auto|]. split.
    + destruct (claimed x) as [e'|]; [|discriminate]. apply String.eqb_eq in He. subst. reflexivity.
    + apply published_b_iff. exact Hp.
  - intros (k & Hk & He & Hp). apply made_by_iff in Hk as [-> Hg]. rewrite He, String.eqb_refl.
    apply published_b_iff in Hp. auto.
Qed.

Lemma all_pub_b_iff xs :
  all_pub_b xs = true <->
  exists e, forall x, In x xs ->
    exists k, made_by isign x k /\ claimed x = Some e /\ published_for_signing iblank (md x) e (icert_of k).
Proof.
  destruct xs as [|x r]; cbn [all_pub_b].
  - split; [intros _; exists ""%string; intros x []|reflexivity].
  - split.
    + destruct (claimed x) as [e|]; [|discriminate]. intros H. exists e. intros y Hy.
      apply part_pub_b_iff. exact (proj1 (forallb_forall _ _) H y Hy).
    + intros [e H]. destruct (H x (or_introl eq_refl)) as (_ & _ & He & _). rewrite He.
      apply forallb_forall. intros y Hy. apply part_pub_b_iff. exact (H y Hy).
Qed.

Lemma msg_spec_b_iff xs out : msg_spec_b xs out = true <-> msg_spec icert_of isign iblank xs out.
Proof.
  destruct out as [o hs]. unfold msg_spec_b, msg_spec, msg_sound, msg_complete. cbn [fst snd].
  rewrite !andb_true_iff, handed_ok_iff. split.
  - intros [[H1 H2] H3]. split; [split|].
    + exact H1.
    + intros ->. intros x Hx. apply part_sound_b_iff. exact (proj1 (forallb_forall _ _) H2 x Hx).
    + intros He. apply all_pub_b_iff in He. rewrite He in H3. exact H3.
  - intros [[H1 H2] H3]. split; [split|].
    + exact H1.
    + destruct o; [|reflexivity]. apply forallb_forall. intros x Hx. apply part_sound_b_iff. exact (H2 eq_refl x Hx).
    + destruct (all_pub_b xs) eqn:E; [|reflexivity]. apply H3, all_pub_b_iff, E.
Qed.

(* on a message with one signature the message test is the per-signature test *)
Lemma msg_spec_b_single x b h : msg_spec_b [x] (b, [h]) = spec_b x (b, h).
Proof.
  apply Bool.eq_true_iff_eq. rewrite msg_spec_b_iff, spec_b_iff. apply msg_spec_single.
Qed.

(* ---- the walk is the stated sequence requirement ---- *)
Lemma seq_b_iff (pb : list iinput -> imout -> bool) (P : list iinput -> imout -> Prop) :
  (forall x o, pb x o = true <-> P x o) ->
  forall ops cur only outs, seq_b pb cur only ops outs = true <-> seq_spec P cur only ops outs.
Proof.
  intros HP ops. induction ops as [|o r IH]; intros cur only outs.
  - cbn [seq_b]. unfold seq_spec, nchecks. cbn [filter length]. split.
    + destruct outs; [|discriminate]. intros _. split; [reflexivity|]. intros pre q post E. destruct pre; discriminate.
    + intros [L _]. destruct outs; [reflexivity|discriminate].
  - destruct o as [m'| |q0|e0 u0|v0]; cbn [seq_b].
    + rewrite IH. unfold seq_spec, nchecks. cbn [filter is_check]. split.
      * intros [L H]. split; [exact L|]. intros pre q post E. destruct pre as [|p pre']; [discriminate|].
        cbn in E. injection E as E1 E2. subst p r. cbn [filter is_check loaded fold_left]. apply (H pre' q post eq_refl).
      * intros [L H]. split; [exact L|]. intros pre q post E. subst r.
        apply (H (Reload m' :: pre) q post eq_refl).
    + rewrite IH. unfold seq_spec, nchecks. cbn [filter is_check]. split.
      * intros [L H]. split; [exact L|]. intros pre q post E. destruct pre as [|p pre']; [discriminate|].
        cbn in E. injection E as E1 E2. subst p r. cbn [filter is_check loaded fold_left]. apply (H pre' q post eq_refl).
      * intros [L H]. split; [exact L|]. intros pre q post E. subst r.
        apply (H (ReloadFailed :: pre) q post eq_refl).
    + (* Check *)
      destruct outs as [|o outs'].
      * split; [discriminate|]. intros [L _]. unfold nchecks in L. cbn [filter is_check length] in L. discriminate.
      * rewrite andb_true_iff, IH, HP. unfold seq_spec, nchecks. cbn [filter is_check length]. split.
        -- intros [Ho [L H]]. split; [rewrite L; reflexivity|]. intros pre q post E. destruct pre as [|p pre'].
           ++ cbn in E. injection E as E1 E2. subst q0 r. exists o. split; [reflexivity|exact Ho].
           ++ cbn in E. injection E as E1 E2. subst p r. cbn [filter is_check length nth_error loaded fold_left].
              apply (H pre' q post eq_refl).
        -- intros [L H]. split; [|split].
           ++ destruct (H [] q0 r eq_refl) as [o' [Hn Ho]]. cbn in Hn. injection Hn as <-. exact Ho.
           ++ injection L as L. exact L.
           ++ intros pre q post E. subst r. apply (H (Check q0 :: pre) q post eq_refl).
    + (* Lookup *)
      rewrite IH. unfold seq_spec, nchecks. cbn [filter is_check]. split.
      * intros [L H]. split; [exact L|]. intros pre q post E. destruct pre as [|p pre']; [discriminate|].
        cbn in E. injection E as E1 E2. subst p r. cbn [filter is_check loaded fold_left]. apply (H pre' q post eq_refl).
      * intros [L H]. split; [exact L|]. intros pre q post E. subst r.
        apply (H (Lookup e0 u0 :: pre) q post eq_refl).
    + (* Engine *)
      rewrite IH. unfold seq_spec, nchecks. cbn [filter is_check]. split.
      * intros [L H]. split; [exact L|]. intros pre q post E. destruct pre as [|p pre']; [discriminate|].
        cbn in E. injection E as E1 E2. subst p r. cbn [filter is_check loaded fold_left]. apply (H pre' q post eq_refl).
      * intros [L H]. split; [exact L|]. intros pre q post E. subst r.
        apply (H (Engine v0 :: pre) q post eq_refl).
Qed.

Lemma calls_confined_iff calls : forallb call_confined calls = true <-> confined_calls calls.
Proof.
  unfold confined_calls. rewrite forallb_forall. split.
  - intros H v c l Hin. exact (H (v, c, l) Hin).
  - intros H [[v c] l] Hin. exact (H v c l Hin).
Qed.

Lemma holds_iff c :
  holds c = true <->
  seq_spec (msg_spec icert_of isign iblank) (c_md c) (c_only c) (c_ops c) (c_outs c) /\ confined_calls (c_calls c).
Proof. unfold holds. rewrite andb_true_iff, calls_confined_iff, (seq_b_iff _ _ msg_spec_b_iff). reflexivity. Qed.

(* every command line the model builds is confined, for every version: the model's own runs pass the test *)
Lemma model_calls_confined vs :
  confined_calls (map (fun v => (v, key_data_confined (verify_cmdline v), lax_key_search (verify_cmdline v))) vs).
Proof. intros v c l Hin. apply in_map_iff in Hin as [v' [[= _ <- _] _]]. reflexivity. Qed.

(* ---- the code before the repairs (accept_v0) breaks the specification, inside the two classes ---- *)
Definition f1_witness : iinput :=
  Build_input [("sp", [[(Some Signing, Jk 0); (Some Signing, Gd 1)]])] true (Some "sp") [] true 7 (isign 1 7).
Definition f2_witness : iinput :=
  Build_input [("idp", [[(Some Signing, Gd 1); (None, Bl 0)]])] false (Some "idp") [Gd 6] false 7 (isign 6 7).
Definition f2_witness_default : iinput :=
  Build_input [("idp", [[(Some Signing, Gd 1); (None, Bl 0)]])] true (Some "idp") [] false 7 (isign 1 7).

(* C03-F1: a correctly signed Redirect request was rejected *)
Lemma v0_complete_refuted :
  exists x, ~ complete icert_of isign iblank x (accept_v0 iverify ireadable iblank x).
Proof.
  exists f1_witness. intros H.
  assert (Hp : published_for_signing iblank (md f1_witness) "sp" (icert_of 1)) by (apply published_b_iff; vm_compute; reflexivity).
  specialize (H 1 "sp"%string eq_refl eq_refl Hp). vm_compute in H. discriminate.
Qed.

(* C03-F2: the embedded certificate was trusted although metadata holds a key for the issuer; and with the
   default flag the issuer's own key was lost *)
Lemma v0_sound_refuted :
  exists x, ~ sound icert_of isign iblank x (accept_v0 iverify ireadable iblank x).
Proof.
  exists f2_witness. intros (H1 & _ & _).
  assert (Hin : In (Gd 6) (snd (accept_v0 iverify ireadable iblank f2_witness))) by (vm_compute; left; reflexivity).
  apply H1, trusted_b_iff in Hin. vm_compute in Hin. discriminate.
Qed.

Lemma v0_complete_refuted_f2 :
  exists x, only_md x = true /\ ~ complete icert_of isign iblank x (accept_v0 iverify ireadable iblank x).
Proof.
  exists f2_witness_default. split; [reflexivity|]. intros H.
  assert (Hp : published_for_signing iblank (md f2_witness_default) "idp" (icert_of 1)) by (apply published_b_iff; vm_compute; reflexivity).
  specialize (H 1 "idp"%string eq_refl eq_refl Hp). vm_compute in H. discriminate.
Qed.

(* the pre-fix outputs fail the boolean spec inside their classes (what Corr.cls reports for a regression),
   the repaired model passes on the same inputs *)
Lemma v0_refutations_classified :
  let a0 := accept_v0 iverify ireadable iblank in
  let a := accept iverify ireadable iblank in
  (spec_b f1_witness (a0 f1_witness) = false /\ in_f1 f1_witness (a0 f1_witness) = true /\ spec_b f1_witness (a f1_witness) = true)
  /\ (spec_b f2_witness (a0 f2_witness) = false /\ in_f2 f2_witness (a0 f2_witness) = true /\ spec_b f2_witness (a f2_witness) = true)
  /\ (spec_b f2_witness_default (a0 f2_witness_default) = false /\ in_f2 f2_witness_default (a0 f2_witness_default) = true
      /\ spec_b f2_witness_default (a f2_witness_default) = true).
Proof. vm_compute. repeat split; reflexivity. Qed.

(* ---- why every run must be confined: xmlsec1 on a command line without --enabled-key-data raw-x509-cert takes the
   key from the message.  A Response in the issuer's name, signed with the unknown key 6 that it carries as a bare
   RSAKeyValue, is accepted under the default flag although the certificate selection handed over the issuer's
   metadata certificate only (the seeded change C03-7 under xmlsec1 >= 1.3; CVE-2021-21239) ---- *)
Definition unconfined_cmdline : cmdline := {| key_data_confined := false; lax_key_search := true |}.
Definition unconfined_witness : iinput :=
  Build_input [("idp", [[(Some Signing, Gd 1)]])] true (Some "idp") [] false 7 (isign 6 7).

Lemma unconfined_engine_unsound :
  exists v x carried,
    only_md x = true /\
    accept (engine iverify v unconfined_cmdline carried) ireadable iblank x = (true, [Gd 1]) /\
    ~ sound icert_of isign iblank x (accept (engine iverify v unconfined_cmdline carried) ireadable iblank x).
Proof.
  exists [1; 3; 7], unconfined_witness, [Gd 6]. split; [reflexivity|]. split; [vm_compute; reflexivity|].
  intros (_ & _ & H3).
  assert (Ha : fst (accept (engine iverify [1; 3; 7] unconfined_cmdline [Gd 6]) ireadable iblank unconfined_witness) = true)
    by (vm_compute; reflexivity).
  specialize (H3 Ha 6 eq_refl). apply trusted_b_iff in H3. vm_compute in H3. discriminate.
Qed.
