(* C03/Property.v — property theorems only. *)
From Coq Require Import String List Bool.
From Verif Require Import Base.Str C03.Model C03.Spec C03.Proofs C03.Corr.

(* C03, soundness with the default only_use_keys_in_metadata = true, NO guard: for every metadata shape
   (certificates that do not load and KeyDescriptors without certificate included), claimed issuer,
   embedded KeyInfo, message kind (enveloped / detached) and ideal signature scheme: acceptance needs a
   certificate that metadata publishes for signing (or with no use) under the claimed issuer; the verifier
   is only ever handed such certificates. *)
Theorem c03_sound_default :
  forall (key cert msg sig : Type) (cert_of : key -> cert) (sign : key -> msg -> sig) (verify : cert -> msg -> sig -> bool)
         (readable blank : cert -> bool),
    (forall c mm ss, verify c mm ss = true <-> exists k, c = cert_of k /\ ss = sign k mm) ->
    (forall k k' mm, sign k mm = sign k' mm -> k = k') ->
    forall x : input cert msg sig, only_md x = true -> sound cert_of sign x (accept verify readable blank x).
Proof. exact accept_sound_default. Qed.
Print Assumptions c03_sound_default.

(* detached signatures: sound whatever the flag *)
Theorem c03_sound_detached :
  forall (key cert msg sig : Type) (cert_of : key -> cert) (sign : key -> msg -> sig) (verify : cert -> msg -> sig -> bool)
         (readable blank : cert -> bool),
    (forall c mm ss, verify c mm ss = true <-> exists k, c = cert_of k /\ ss = sign k mm) ->
    (forall k k' mm, sign k mm = sign k' mm -> k = k') ->
    forall x : input cert msg sig, detached x = true -> sound cert_of sign x (accept verify readable blank x).
Proof. exact accept_sound_detached. Qed.
Print Assumptions c03_sound_detached.

(* C03 in full: soundness (the embedded certificate only as the explicit opt-in fallback when metadata has no
   signing key for that issuer) outside finding class C03-F2, completeness (a signature by a published
   signing key is accepted) outside C03-F1 and C03-F2 *)
Theorem c03_trust :
  forall (key cert msg sig : Type) (cert_of : key -> cert) (sign : key -> msg -> sig) (verify : cert -> msg -> sig -> bool)
         (readable blank : cert -> bool),
    (forall c mm ss, verify c mm ss = true <-> exists k, c = cert_of k /\ ss = sign k mm) ->
    (forall k k' mm, sign k mm = sign k' mm -> k = k') ->
    forall x : input cert msg sig, gspec cert_of sign verify readable blank x (accept verify readable blank x).
Proof. exact trust_holds. Qed.
Print Assumptions c03_trust.

(* the unguarded specification holds whenever every KeyDescriptor that the claimed issuer publishes for
   signing carries a certificate that loads; and for enveloped signatures whenever none is without certificate *)
Theorem c03_trust_usable_md :
  forall (key cert msg sig : Type) (cert_of : key -> cert) (sign : key -> msg -> sig) (verify : cert -> msg -> sig -> bool)
         (readable blank : cert -> bool),
    (forall c mm ss, verify c mm ss = true <-> exists k, c = cert_of k /\ ss = sign k mm) ->
    (forall k k' mm, sign k mm = sign k' mm -> k = k') ->
    forall x : input cert msg sig,
      (forall e c, claimed x = Some e -> published_for_signing (md x) e c -> readable c = true /\ blank c = false) ->
      spec cert_of sign x (accept verify readable blank x).
Proof. exact trust_usable_md. Qed.
Print Assumptions c03_trust_usable_md.

Theorem c03_trust_enveloped :
  forall (key cert msg sig : Type) (cert_of : key -> cert) (sign : key -> msg -> sig) (verify : cert -> msg -> sig -> bool)
         (readable blank : cert -> bool),
    (forall c mm ss, verify c mm ss = true <-> exists k, c = cert_of k /\ ss = sign k mm) ->
    (forall k k' mm, sign k mm = sign k' mm -> k = k') ->
    forall x : input cert msg sig,
      detached x = false -> ~ blank_published blank (md x) (claimed x) -> spec cert_of sign x (accept verify readable blank x).
Proof. exact trust_enveloped. Qed.
Print Assumptions c03_trust_enveloped.

(* the guards are needed (the faithful model breaks completeness: C03-F1, C03-F2; and soundness: C03-F2), and
   every failure of the model lies inside the classes as computed by Corr.in_f1 / Corr.in_f2 *)
Theorem c03_complete_refuted : exists x, ~ complete icert_of isign x (accept iverify ireadable iblank x).
Proof. exact complete_refuted. Qed.
Print Assumptions c03_complete_refuted.

Theorem c03_sound_refuted : exists x, ~ sound icert_of isign x (accept iverify ireadable iblank x).
Proof. exact sound_refuted. Qed.
Print Assumptions c03_sound_refuted.

Theorem c03_failures_classified :
  forall x, spec_b x (accept iverify ireadable iblank x) = false ->
            in_f1 x (accept iverify ireadable iblank x) || in_f2 x (accept iverify ireadable iblank x) = true.
Proof. exact model_failures_classified. Qed.
Print Assumptions c03_failures_classified.

Theorem c03_unknown_issuer :
  forall (cert msg sig : Type) (verify : cert -> msg -> sig -> bool) (readable blank : cert -> bool) (x : input cert msg sig),
    only_md x = true -> (forall e, claimed x = Some e -> lookup_md e (md x) = None) ->
    fst (accept verify readable blank x) = false.
Proof. exact unknown_issuer_rejected. Qed.
Print Assumptions c03_unknown_issuer.

(* the long-lived receiver: for every initial metadata and every interleaving of verifications, reloads
   and failed reloads, each verification meets the requirement against the metadata loaded by the last
   successful (re)load before it *)
Theorem c03_receiver :
  forall (key cert msg sig : Type) (cert_of : key -> cert) (sign : key -> msg -> sig) (verify : cert -> msg -> sig -> bool)
         (readable blank : cert -> bool),
    (forall c mm ss, verify c mm ss = true <-> exists k, c = cert_of k /\ ss = sign k mm) ->
    (forall k k' mm, sign k mm = sign k' mm -> k = k') ->
    forall (ops : list (op cert msg sig)) (init : metadata cert) (only : bool),
      seq_spec (gspec cert_of sign verify readable blank) init only ops (run_ops verify readable blank init only ops).
Proof. exact receiver_trust. Qed.
Print Assumptions c03_receiver.

Theorem c03_receiver_sound_default :
  forall (key cert msg sig : Type) (cert_of : key -> cert) (sign : key -> msg -> sig) (verify : cert -> msg -> sig -> bool)
         (readable blank : cert -> bool),
    (forall c mm ss, verify c mm ss = true <-> exists k, c = cert_of k /\ ss = sign k mm) ->
    (forall k k' mm, sign k mm = sign k' mm -> k = k') ->
    forall (ops : list (op cert msg sig)) (init : metadata cert),
      seq_spec (sound cert_of sign) init true ops (run_ops verify readable blank init true ops).
Proof. exact receiver_sound_default. Qed.
Print Assumptions c03_receiver_sound_default.

(* a key withdrawn by a reload stops validating at once, whatever was verified before the reload *)
Theorem c03_withdrawn_key :
  forall (key cert msg sig : Type) (cert_of : key -> cert) (sign : key -> msg -> sig) (verify : cert -> msg -> sig -> bool)
         (readable blank : cert -> bool),
    (forall c mm ss, verify c mm ss = true <-> exists k, c = cert_of k /\ ss = sign k mm) ->
    (forall k k' mm, sign k mm = sign k' mm -> k = k') ->
    forall (pre : list (op cert msg sig)) (mdx : metadata cert) (post : list (op cert msg sig)) (q : query cert msg sig)
           (k : key) (e : string) (init : metadata cert) (only : bool),
      q_s q = sign k (q_m q) -> q_claimed q = Some e -> only = true ->
      ~ published_for_signing mdx e (cert_of k) ->
      nth_error (run_ops verify readable blank init only (pre ++ Reload mdx :: Check q :: post)) (nchecks pre) =
        Some (accept verify readable blank (at_md mdx only q))
      /\ fst (accept verify readable blank (at_md mdx only q)) = false.
Proof. exact withdrawn_key_rejected. Qed.
Print Assumptions c03_withdrawn_key.

(* the hypotheses of c03_trust / c03_receiver are satisfiable (term algebra) *)
Theorem c03_instance :
  forall x : input icert imsg isig, gspec icert_of isign iverify ireadable iblank x (accept iverify ireadable iblank x).
Proof. exact instance_trust. Qed.
Print Assumptions c03_instance.

(* the boolean spec evaluated on the implementation's observations is the stated spec, per verification
   and over the whole life of a receiver *)
Theorem c03_spec_reflect : forall x out, spec_b x out = true <-> spec icert_of isign x out.
Proof. exact spec_b_iff. Qed.
Print Assumptions c03_spec_reflect.

Theorem c03_holds_reflect :
  forall c, holds c = true <-> seq_spec (spec icert_of isign) (c_md c) (c_only c) (c_ops c) (c_outs c).
Proof. exact holds_iff. Qed.
Print Assumptions c03_holds_reflect.
