(* C03/Property.v — property theorems only. *)
From Coq Require Import String List Bool.
From Verif Require Import Base.Str C03.Model C03.Spec C03.Proofs C03.Corr.

(* C03, soundness: for every metadata shape (certificates that do not load and KeyDescriptors without
   certificate included), claimed issuer, embedded KeyInfo, flag setting, message kind (enveloped / detached)
   and ideal signature scheme: acceptance needs a certificate that metadata publishes for signing (or with no
   use) under the claimed issuer, the embedded certificate only as the explicit opt-in fallback when metadata
   holds no signing key for that issuer; the verifier is only ever handed such certificates.  No guard. *)
Theorem c03_sound :
  forall (key cert msg sig : Type) (cert_of : key -> cert) (sign : key -> msg -> sig) (verify : cert -> msg -> sig -> bool)
         (readable blank : cert -> bool),
    (forall c mm ss, verify c mm ss = true <-> exists k, c = cert_of k /\ ss = sign k mm) ->
    (forall k k' mm, sign k mm = sign k' mm -> k = k') ->
    forall x : input cert msg sig, sound cert_of sign blank x (accept verify readable blank x).
Proof. exact accept_sound. Qed.
Print Assumptions c03_sound.

(* C03 in full, no guard (the model follows the code repaired by 2dad6239 and a9edf887): soundness as above and
   completeness -- a signature by a key published for signing under the claimed issuer is accepted, whatever
   else that issuer publishes.  A certificate that verifies a signature loads. *)
Theorem c03_trust :
  forall (key cert msg sig : Type) (cert_of : key -> cert) (sign : key -> msg -> sig) (verify : cert -> msg -> sig -> bool)
         (readable blank : cert -> bool),
    (forall c mm ss, verify c mm ss = true <-> exists k, c = cert_of k /\ ss = sign k mm) ->
    (forall k k' mm, sign k mm = sign k' mm -> k = k') ->
    (forall c mm ss, verify c mm ss = true -> readable c = true) ->
    forall x : input cert msg sig, spec cert_of sign blank x (accept verify readable blank x).
Proof. exact trust_holds. Qed.
Print Assumptions c03_trust.

Theorem c03_unknown_issuer :
  forall (cert msg sig : Type) (verify : cert -> msg -> sig -> bool) (readable blank : cert -> bool) (x : input cert msg sig),
    only_md x = true -> (forall e, claimed x = Some e -> lookup_md e (md x) = None) ->
    fst (accept verify readable blank x) = false.
Proof. exact unknown_issuer_rejected. Qed.
Print Assumptions c03_unknown_issuer.

(* the long-lived receiver: for every initial metadata and every interleaving of verifications, reloads
   and failed reloads, each verification meets the full requirement against the metadata loaded by the last
   successful (re)load before it *)
Theorem c03_receiver :
  forall (key cert msg sig : Type) (cert_of : key -> cert) (sign : key -> msg -> sig) (verify : cert -> msg -> sig -> bool)
         (readable blank : cert -> bool),
    (forall c mm ss, verify c mm ss = true <-> exists k, c = cert_of k /\ ss = sign k mm) ->
    (forall k k' mm, sign k mm = sign k' mm -> k = k') ->
    (forall c mm ss, verify c mm ss = true -> readable c = true) ->
    forall (ops : list (op cert msg sig)) (init : metadata cert) (only : bool),
      seq_spec (spec cert_of sign blank) init only ops (run_ops verify readable blank init only ops).
Proof. exact receiver_trust. Qed.
Print Assumptions c03_receiver.

(* a key withdrawn by a reload stops validating at once, whatever was verified before the reload *)
Theorem c03_withdrawn_key :
  forall (key cert msg sig : Type) (cert_of : key -> cert) (sign : key -> msg -> sig) (verify : cert -> msg -> sig -> bool)
         (readable blank : cert -> bool),
    (forall c mm ss, verify c mm ss = true <-> exists k, c = cert_of k /\ ss = sign k mm) ->
    (forall k k' mm, sign k mm = sign k' mm -> k = k') ->
    forall (pre : list (op cert msg sig)) (mdx : metadata cert) (post : list (op cert msg sig)) (q : query cert msg sig)
           (k : key) (e : string) (init : metadata cert) (only : bool),
      q_s q = sign k (q_m q) -> q_claimed q = Some e -> only = true ->
      ~ published_for_signing blank mdx e (cert_of k) ->
      nth_error (run_ops verify readable blank init only (pre ++ Reload mdx :: Check q :: post)) (nchecks pre) =
        Some (accept verify readable blank (at_md mdx only q))
      /\ fst (accept verify readable blank (at_md mdx only q)) = false.
Proof. exact withdrawn_key_rejected. Qed.
Print Assumptions c03_withdrawn_key.

(* the hypotheses of c03_trust / c03_receiver are satisfiable (term algebra) *)
Theorem c03_instance :
  forall x : input icert imsg isig, spec icert_of isign iblank x (accept iverify ireadable iblank x).
Proof. exact instance_trust. Qed.
Print Assumptions c03_instance.

(* ---- the code before the repairs (Model.accept_v0) ---- *)
(* C03-F1 (repaired by 2dad6239): an unreadable certificate ahead of the signer's one made a correctly signed
   Redirect request fail *)
Theorem c03_v0_complete_refuted :
  exists x, ~ complete icert_of isign iblank x (accept_v0 iverify ireadable iblank x).
Proof. exact v0_complete_refuted. Qed.
Print Assumptions c03_v0_complete_refuted.

(* C03-F2 (repaired by a9edf887): a KeyDescriptor without certificate made the fallback trust the embedded
   certificate although metadata holds a key for the issuer, and lost the issuer's keys under the default flag *)
Theorem c03_v0_sound_refuted :
  exists x, ~ sound icert_of isign iblank x (accept_v0 iverify ireadable iblank x).
Proof. exact v0_sound_refuted. Qed.
Print Assumptions c03_v0_sound_refuted.

Theorem c03_v0_complete_refuted_f2 :
  exists x, only_md x = true /\ ~ complete icert_of isign iblank x (accept_v0 iverify ireadable iblank x).
Proof. exact v0_complete_refuted_f2. Qed.
Print Assumptions c03_v0_complete_refuted_f2.

(* Corr.cls puts the pre-fix outputs into classes 1 / 2 (a regression is reported with its class); the repaired
   model meets the specification on the same inputs *)
Theorem c03_v0_classified :
  let a0 := accept_v0 iverify ireadable iblank in
  let a := accept iverify ireadable iblank in
  (spec_b f1_witness (a0 f1_witness) = false /\ in_f1 f1_witness (a0 f1_witness) = true /\ spec_b f1_witness (a f1_witness) = true)
  /\ (spec_b f2_witness (a0 f2_witness) = false /\ in_f2 f2_witness (a0 f2_witness) = true /\ spec_b f2_witness (a f2_witness) = true)
  /\ (spec_b f2_witness_default (a0 f2_witness_default) = false /\ in_f2 f2_witness_default (a0 f2_witness_default) = true
      /\ spec_b f2_witness_default (a f2_witness_default) = true).
Proof. exact v0_refutations_classified. Qed.
Print Assumptions c03_v0_classified.

(* the boolean spec evaluated on the implementation's observations is the stated spec, per verification
   and over the whole life of a receiver *)
Theorem c03_spec_reflect : forall x out, spec_b x out = true <-> spec icert_of isign iblank x out.
Proof. exact spec_b_iff. Qed.
Print Assumptions c03_spec_reflect.

Theorem c03_holds_reflect :
  forall c, holds c = true <-> seq_spec (spec icert_of isign iblank) (c_md c) (c_only c) (c_ops c) (c_outs c).
Proof. exact holds_iff. Qed.
Print Assumptions c03_holds_reflect.
