(* C03/Property.v — property theorems only. *)
From Coq Require Import String List Bool.
From Verif Require Import Base.Str Base.Py Base.Py2 C03.Model C03.Spec C03.Proofs C03.Corr C03.Source2.
From VerifGen Require Import C03Src2.
Import ListNotations.

(* C03, soundness: for every metadata shape (certificates that do not load and KeyDescriptors without
   certificate included), claimed issuer, embedded KeyInfo, flag setting, message kind (enveloped / detached)
   and ideal signature scheme: acceptance needs a certificate that metadata publishes for signing (or with no
   use) under the claimed issuer, the embedded certificate only as the explicit opt-in fallback when metadata
   holds no signing key for that issuer; the verifier is only ever handed such certificates.  No guard. *)
Theorem c03_sound :
  forall (key cert msg sig : Type) (cert_of : key -> cert) (sign : key -> msg -> sig) (verify : cert -> msg -> sig -> bool)
         (readable blank : cert -> bool),
    (forall c mm ss, verify c mm ss = true <-> exists k, c = cert_of k /\ ss = sign k mm) ->
    (forall k k' mm, sign k mm = sign k' mm -> k = k') ->
    forall x : input cert msg sig, sound cert_of sign blank x (accept verify readable blank x).
Proof. exact accept_sound. Qed.
Print Assumptions c03_sound.

(* C03 in full, no guard (the model follows the code repaired by 2dad6239 and a9edf887): soundness as above and
   completeness -- a signature by a key published for signing under the claimed issuer is accepted, whatever
   else that issuer publishes.  A certificate that verifies a signature loads. *)
Theorem c03_trust :
  forall (key cert msg sig : Type) (cert_of : key -> cert) (sign : key -> msg -> sig) (verify : cert -> msg -> sig -> bool)
         (readable blank : cert -> bool),
    (forall c mm ss, verify c mm ss = true <-> exists k, c = cert_of k /\ ss = sign k mm) ->
    (forall k k' mm, sign k mm = sign k' mm -> k = k') ->
    (forall c mm ss, verify c mm ss = true -> readable c = true) ->
    forall x : input cert msg sig, spec cert_of sign blank x (accept verify readable blank x).
Proof. exact trust_holds. Qed.
Print Assumptions c03_trust.

Theorem c03_unknown_issuer :
  forall (cert msg sig : Type) (verify : cert -> msg -> sig -> bool) (readable blank : cert -> bool) (x : input cert msg sig),
    only_md x = true -> (forall e, claimed x = Some e -> lookup_md e (md x) = None) ->
    fst (accept verify readable blank x) = false.
Proof. exact unknown_issuer_rejected. Qed.
Print Assumptions c03_unknown_issuer.

(* a message with several signed elements (a signed Response around a signed Assertion; the elements in the order
   they are verified): it is accepted only if EVERY signature it carries was made by a key trusted for the issuer
   named in the element it signs (one good signature never covers for another), per element the verifier is only
   handed certificates trusted for that element, and it is accepted when all elements name one issuer that
   publishes every signing key.  For every list of signed elements (the flag paired with an element: the receiver's
   configuration insists on that signature -- it only decides whether a failed verification is repeated). *)
Theorem c03_message :
  forall (key cert msg sig : Type) (cert_of : key -> cert) (sign : key -> msg -> sig) (verify : cert -> msg -> sig -> bool)
         (readable blank : cert -> bool),
    (forall c mm ss, verify c mm ss = true <-> exists k, c = cert_of k /\ ss = sign k mm) ->
    (forall k k' mm, sign k mm = sign k' mm -> k = k') ->
    (forall c mm ss, verify c mm ss = true -> readable c = true) ->
    forall xs : list (bool * input cert msg sig),
      msg_spec cert_of sign blank (map snd xs) (accept_msg verify readable blank xs).
Proof. exact message_trust. Qed.
Print Assumptions c03_message.

(* soundness of messages needs no assumption beyond ideal signatures *)
Theorem c03_message_sound :
  forall (key cert msg sig : Type) (cert_of : key -> cert) (sign : key -> msg -> sig) (verify : cert -> msg -> sig -> bool)
         (readable blank : cert -> bool),
    (forall c mm ss, verify c mm ss = true <-> exists k, c = cert_of k /\ ss = sign k mm) ->
    (forall k k' mm, sign k mm = sign k' mm -> k = k') ->
    forall xs : list (bool * input cert msg sig),
      msg_sound cert_of sign blank (map snd xs) (accept_msg verify readable blank xs).
Proof. exact accept_msg_sound. Qed.
Print Assumptions c03_message_sound.

(* with one signed element the message requirement IS the per-signature requirement of c03_trust *)
Theorem c03_message_single :
  forall (key cert msg sig : Type) (cert_of : key -> cert) (sign : key -> msg -> sig) (blank : cert -> bool)
         (x : input cert msg sig) (b : bool) (h : list cert),
    msg_spec cert_of sign blank [x] (b, [h]) <-> spec cert_of sign blank x (b, h).
Proof. exact msg_spec_single. Qed.
Print Assumptions c03_message_single.

(* the long-lived receiver: for every initial metadata and every interleaving of messages, reloads
   and failed reloads, each message meets the full requirement against the metadata loaded by the last
   successful (re)load before it *)
Theorem c03_receiver :
  forall (key cert msg sig : Type) (cert_of : key -> cert) (sign : key -> msg -> sig) (verify : cert -> msg -> sig -> bool)
         (readable blank : cert -> bool),
    (forall c mm ss, verify c mm ss = true <-> exists k, c = cert_of k /\ ss = sign k mm) ->
    (forall k k' mm, sign k mm = sign k' mm -> k = k') ->
    (forall c mm ss, verify c mm ss = true -> readable c = true) ->
    forall (ops : list (op cert msg sig)) (init : metadata cert) (only : bool),
      seq_spec (msg_spec cert_of sign blank) init only ops (run_ops verify readable blank init only ops).
Proof. exact receiver_trust. Qed.
Print Assumptions c03_receiver.

(* a key withdrawn by a reload stops validating at once, whatever was verified before the reload and whatever
   other (good) signatures the message carries *)
Theorem c03_withdrawn_key :
  forall (key cert msg sig : Type) (cert_of : key -> cert) (sign : key -> msg -> sig) (verify : cert -> msg -> sig -> bool)
         (readable blank : cert -> bool),
    (forall c mm ss, verify c mm ss = true <-> exists k, c = cert_of k /\ ss = sign k mm) ->
    (forall k k' mm, sign k mm = sign k' mm -> k = k') ->
    forall (pre : list (op cert msg sig)) (mdx : metadata cert) (post : list (op cert msg sig))
           (qs : list (query cert msg sig)) (q : query cert msg sig)
           (k : key) (e : string) (init : metadata cert) (only : bool),
      In q qs -> q_s q = sign k (q_m q) -> q_claimed q = Some e -> only = true ->
      ~ published_for_signing blank mdx e (cert_of k) ->
      nth_error (run_ops verify readable blank init only (pre ++ Reload mdx :: Check qs :: post)) (nchecks pre) =
        Some (accept_msg verify readable blank (map (fun q => (q_insist q, at_md mdx only q)) qs))
      /\ fst (accept_msg verify readable blank (map (fun q => (q_insist q, at_md mdx only q)) qs)) = false.
Proof. exact withdrawn_key_rejected. Qed.
Print Assumptions c03_withdrawn_key.

(* the hypotheses of c03_trust / c03_receiver are satisfiable (term algebra) *)
Theorem c03_instance :
  forall x : input icert imsg isig, spec icert_of isign iblank x (accept iverify ireadable iblank x).
Proof. exact instance_trust. Qed.
Print Assumptions c03_instance.

(* ---- the code before the repairs (Model.accept_v0) ---- *)
(* C03-F1 (repaired by 2dad6239): an unreadable certificate ahead of the signer's one made a correctly signed
   Redirect request fail *)
Theorem c03_v0_complete_refuted :
  exists x, ~ complete icert_of isign iblank x (accept_v0 iverify ireadable iblank x).
Proof. exact v0_complete_refuted. Qed.
Print Assumptions c03_v0_complete_refuted.

(* C03-F2 (repaired by a9edf887): a KeyDescriptor without certificate made the fallback trust the embedded
   certificate although metadata holds a key for the issuer, and lost the issuer's keys under the default flag *)
Theorem c03_v0_sound_refuted :
  exists x, ~ sound icert_of isign iblank x (accept_v0 iverify ireadable iblank x).
Proof. exact v0_sound_refuted. Qed.
Print Assumptions c03_v0_sound_refuted.

Theorem c03_v0_complete_refuted_f2 :
  exists x, only_md x = true /\ ~ complete icert_of isign iblank x (accept_v0 iverify ireadable iblank x).
Proof. exact v0_complete_refuted_f2. Qed.
Print Assumptions c03_v0_complete_refuted_f2.

(* Corr.cls puts the pre-fix outputs into classes 1 / 2 (a regression is reported with its class); the repaired
   model meets the specification on the same inputs *)
Theorem c03_v0_classified :
  let a0 := accept_v0 iverify ireadable iblank in
  let a := accept iverify ireadable iblank in
  (spec_b f1_witness (a0 f1_witness) = false /\ in_f1 f1_witness (a0 f1_witness) = true /\ spec_b f1_witness (a f1_witness) = true)
  /\ (spec_b f2_witness (a0 f2_witness) = false /\ in_f2 f2_witness (a0 f2_witness) = true /\ spec_b f2_witness (a f2_witness) = true)
  /\ (spec_b f2_witness_default (a0 f2_witness_default) = false /\ in_f2 f2_witness_default (a0 f2_witness_default) = true
      /\ spec_b f2_witness_default (a f2_witness_default) = true).
Proof. exact v0_refutations_classified. Qed.
Print Assumptions c03_v0_classified.

(* the boolean spec evaluated on the implementation's observations is the stated spec, per verification
   and over the whole life of a receiver *)
Theorem c03_spec_reflect : forall x out, spec_b x out = true <-> spec icert_of isign iblank x out.
Proof. exact spec_b_iff. Qed.
Print Assumptions c03_spec_reflect.

Theorem c03_message_reflect : forall xs out, msg_spec_b xs out = true <-> msg_spec icert_of isign iblank xs out.
Proof. exact msg_spec_b_iff. Qed.
Print Assumptions c03_message_reflect.

Theorem c03_holds_reflect :
  forall c, holds c = true <->
            seq_spec (msg_spec icert_of isign iblank) (c_md c) (c_only c) (c_ops c) (c_outs c) /\ confined_calls (c_calls c).
Proof. exact holds_iff. Qed.
Print Assumptions c03_holds_reflect.

(* ---- the verifier (xmlsec1 as invoked by CryptoBackendXmlSec1.validate_signature / _run_xmlsec) ---- *)
(* with the command line the code builds -- confined to the certificate file for EVERY version, --lax-key-search
   from 1.3 on -- the binary of any version decides exactly `verify c` for the file c it is handed, whatever key
   material (X509Certificate, bare RSAKeyValue) the message carries: c03_trust holds with the real verifier *)
Theorem c03_engine_as_invoked :
  forall (cert msg sig : Type) (verify : cert -> msg -> sig -> bool) (v : version) (carried : list cert)
         (c : cert) (mm : msg) (ss : sig),
    engine verify v (verify_cmdline v) carried c mm ss = verify c mm ss.
Proof. exact engine_as_invoked. Qed.
Print Assumptions c03_engine_as_invoked.

Theorem c03_trust_any_xmlsec1 :
  forall (key cert msg sig : Type) (cert_of : key -> cert) (sign : key -> msg -> sig) (verify : cert -> msg -> sig -> bool)
         (readable blank : cert -> bool),
    (forall c mm ss, verify c mm ss = true <-> exists k, c = cert_of k /\ ss = sign k mm) ->
    (forall k k' mm, sign k mm = sign k' mm -> k = k') ->
    (forall c mm ss, verify c mm ss = true -> readable c = true) ->
    forall (v : version) (carried : list cert) (x : input cert msg sig),
      spec cert_of sign blank x (accept (engine verify v (verify_cmdline v) carried) readable blank x).
Proof. exact trust_holds_engine. Qed.
Print Assumptions c03_trust_any_xmlsec1.

(* the confinement is necessary: on a command line without it a message signed with an unknown key that it
   carries as a bare RSAKeyValue is accepted in the issuer's name under the default flag, although the certificate
   selection handed over the issuer's metadata certificate only *)
Theorem c03_unconfined_unsound :
  exists v x carried,
    only_md x = true /\
    accept (engine iverify v unconfined_cmdline carried) ireadable iblank x = (true, [Gd 1]) /\
    ~ sound icert_of isign iblank x (accept (engine iverify v unconfined_cmdline carried) ireadable iblank x).
Proof. exact unconfined_engine_unsound. Qed.
Print Assumptions c03_unconfined_unsound.

(* from 1.3 on a confined verifier without --lax-key-search refuses everything (the binary does not fall back to
   the file's key): the option _run_xmlsec adds is needed for completeness *)
Theorem c03_engine_strict_refuses :
  forall (cert msg sig : Type) (verify : cert -> msg -> sig -> bool) (v : version) (carried : list cert)
         (c : cert) (mm : msg) (ss : sig),
    ge_1_3 v = true ->
    engine verify v {| key_data_confined := true; lax_key_search := false |} carried c mm ss = false.
Proof. exact engine_strict_refuses. Qed.
Print Assumptions c03_engine_strict_refuses.

(* the long-lived receiver remembers nothing but the loaded metadata: operations that are no verification and no
   reload -- certificates looked up for another purpose (any entity, any use), a replaced xmlsec1 binary -- can be
   inserted anywhere in a life without changing the outcome of any verification *)
Theorem c03_receiver_readonly_ops :
  forall (cert msg sig : Type) (verify : cert -> msg -> sig -> bool) (readable blank : cert -> bool)
         (pre post : list (op cert msg sig)) (o : op cert msg sig) (init : metadata cert) (only : bool),
    (match o with Lookup _ _ | Engine _ => True | _ => False end) ->
    run_ops verify readable blank init only (pre ++ o :: post) = run_ops verify readable blank init only (pre ++ post).
Proof. exact readonly_ops_vanish. Qed.
Print Assumptions c03_receiver_readonly_ops.

(* ---- source tie, translator v2: coq/gen/C03Src2.v is re-translated from the CURRENT source text on every run;
   each theorem: the translated function on the encoding of the model's input = the encoding of the model's
   answer, for all inputs (external calls are the quantified functions with their hypotheses) ---- *)
Open Scope string_scope.

(* MetaData.certs.extract_certs: the KeyDescriptor use filter <-> flat_map Model.extract_signing *)
Theorem c03_source2_extract_certs :
  forall (rp : string -> string) (repack : pyval -> pyval),
    (forall t : string, repack (PStr t) = PStr (rp t)) ->
    forall roles : list (list (keydesc kcert)),
      forallb (forallb kd_ok) roles = true ->
      src2_extract_certs repack (PStr "signing") (PList (map enc_role roles)) =
      PList (map (enc_out rp) (flat_map (extract_signing kblank) roles)).
Proof. exact src2_extract_certs_is_model. Qed.
Print Assumptions c03_source2_extract_certs.

(* MetaData.certs, lookup of the entity + walk over its role descriptors <-> Model.signing_certs *)
Theorem c03_source2_certs_outer :
  forall (rp : string -> string) (repack : pyval -> pyval),
    (forall t : string, repack (PStr t) = PStr (rp t)) ->
    forall (mdx : list (string * edict)) (e : string),
      keys_ok mdx = true ->
      forallb (fun ex : string * edict => edict_ok (snd ex)) mdx = true ->
      src2_certs_outer repack (enc_md mdx) (PStr e) (PStr "any") (PStr "signing") =
      match lookup_md e (to_model mdx) with
      | Some _ => PList (map (enc_out rp) (signing_certs kblank (to_model mdx) (Some e)))
      | None => PExc "KeyError"
      end.
Proof. exact src2_certs_outer_is_model. Qed.
Print Assumptions c03_source2_certs_outer.

(* SecurityContext._check_signature, certificate selection <-> Model.candidates, MissingKey *)
Theorem c03_source2_select :
  forall (cert msg sig : Type) (blank : cert -> bool) (cert_text : cert -> string) (pemf namef : string -> string)
         (md_certs pem mk_temp instance_certs : pyval -> pyval),
    (forall t : string, pem (PStr t) = PStr (pemf t)) ->
    (forall p : string, mk_temp (PStr p) = PObj [("__class__", PStr "TempFile"); ("name", PStr (namef p))]) ->
    forall x : input cert msg sig,
      detached x = false ->
      (forall e : string, claimed x = Some e -> strip e = e /\ end_ascii e = true) ->
      (forall e : string,
         md_certs (PStr e) =
         match lookup_md e (md x) with
         | Some _ => PList (map (enc_mdpair cert cert_text) (signing_certs blank (md x) (Some e)))
         | None => PExc "KeyError"
         end) ->
      md_certs PNone = PExc "KeyError" ->
      instance_certs (enc_signed_item cert msg sig x) = PList (map (fun c : cert => PStr (cert_text c)) (embedded x)) ->
      src2_select md_certs pem mk_temp instance_certs (enc_sec (only_md x)) (enc_signed_item cert msg sig x) PNone =
      match candidates blank x with
      | [] => PExc "MissingKey"
      | cs => PList (map (enc_tmpfile cert cert_text pemf namef) cs)
      end.
Proof. exact src2_select_is_model. Qed.
Print Assumptions c03_source2_select.

(* SecurityContext._check_signature, verification loop <-> fst . Model.try_certs *)
Theorem c03_source2_verify_loop :
  forall (cert msg sig : Type) (verify : cert -> msg -> sig -> bool) (readable : cert -> bool) (mm : msg) (ss : sig),
    (forall c : cert, readable c = false -> verify c mm ss = false) ->
    forall enc_name : cert -> pyval,
      (forall c : cert, is_bad (enc_name c) = false) ->
      forall xmlv nodev idv : pyval,
        is_bad xmlv = false -> is_bad nodev = false -> is_bad idv = false ->
        forall verify_sig : pyval -> pyval -> pyval -> pyval -> pyval,
          (forall c : cert,
             verify_sig xmlv (enc_name c) nodev idv = (if readable c then PBool (verify c mm ss) else PExc "XmlsecError")) ->
          forall verify_cert : pyval -> pyval,
            (forall c : cert, verify_cert (enc_name c) = PBool true) ->
            forall (self : pyval) (cs : list cert),
              src2_verify_loop verify_sig verify_cert self xmlv (enc_item idv) nodev
                (PList (map (enc_tmp cert enc_name) cs)) (PBool false)
              = (if fst (try_certs verify cs mm ss) then enc_item idv else PExc "SignatureError").
Proof. exact src2_verify_loop_is_model. Qed.
Print Assumptions c03_source2_verify_loop.

(* Request._do_redirect_sig_check <-> fst . Model.accept on a detached signature (try_detached over signing_certs) *)
Theorem c03_source2_redirect_sig_check :
  forall (cert msg sig : Type) (verify : cert -> msg -> sig -> bool) (readable blank : cert -> bool)
         (enc_cert : cert -> pyval),
    (forall c : cert, is_bad (enc_cert c) = false) ->
    forall (mdx : metadata cert) (mm : msg) (ss : sig) (msgv : pyval),
      is_bad msgv = false ->
      forall (sender md_certs : pyval -> pyval) (verify_sig : pyval -> pyval -> pyval),
        (forall e : string,
           md_certs (PStr e) =
           match lookup_md e mdx with
           | Some _ => PList (map (enc_pair cert enc_cert) (signing_certs blank mdx (Some e)))
           | None => PExc "KeyError"
           end) ->
        (forall c : cert, verify_sig msgv (enc_cert c) = (if readable c then PBool (verify c mm ss) else PExc "ValueError")) ->
        forall (e : string) (only : bool) (emb : list cert),
          sender enc_request = PStr e ->
          src2_redirect_sig_check sender md_certs verify_sig enc_request msgv =
          match lookup_md e mdx with
          | Some _ => PBool (fst (accept verify readable blank (Build_input mdx only (Some e) emb true mm ss)))
          | None => PExc "KeyError"
          end.
Proof. exact src2_redirect_sig_check_is_model. Qed.
Print Assumptions c03_source2_redirect_sig_check.

(* CryptoBackendXmlSec1.validate_signature, the statements that build the --verify command line <-> the command line
   of Model.verify_cmdline: for every backend object (whatever version its binary reports), certificate file and
   type, node name and node id, --enabled-key-data is there with exactly raw-x509-cert *)
Theorem c03_source2_verify_cmdline :
  forall (bin cf ct nn : string) (nid : option string) (rest : list (string * pyval)) (tmp : pyval) (v : version),
    src2_verify_cmdline (enc_backend bin rest) (PStr cf) (PStr ct) (PStr nn)
      (match nid with Some i => PStr i | None => PNone end) tmp
    = PList (verify_argv bin cf ct nn nid)
    /\ cmd_confined (verify_argv bin cf ct nn nid) = key_data_confined (verify_cmdline v).
Proof. exact src2_verify_cmdline_confined. Qed.
Print Assumptions c03_source2_verify_cmdline.

(* AuthnResponse._assertion, the signature step <-> fst . Model.accept for one signed element *)
Theorem c03_source2_assertion_sig :
  forall (cert msg sig : Type) (verify : cert -> msg -> sig -> bool) (readable blank : cert -> bool)
         (enc_id : input cert msg sig -> pyval) (node xml : string) (check_sig : pyval -> pyval -> pyval -> pyval),
    (forall x : input cert msg sig,
       check_sig (enc_assertion cert msg sig enc_id node true x) (PStr node) (PStr xml) =
       (if fst (accept verify readable blank x) then enc_assertion cert msg sig enc_id node true x else PExc (exc_of blank x))) ->
    forall (rs : bool) (x : input cert msg sig) (verified : bool),
      src2_assertion_sig check_sig (enc_authn_response xml rs) (enc_assertion cert msg sig enc_id node true x) (PBool verified) =
      (if verified then PBool true else if fst (accept verify readable blank x) then PBool true else PExc (exc_of blank x)).
Proof. exact src2_assertion_sig_is_model. Qed.
Print Assumptions c03_source2_assertion_sig.

Theorem c03_source2_assertion_sig_unsigned :
  forall (cert msg sig : Type) (enc_id : input cert msg sig -> pyval) (node xml : string)
         (check_sig : pyval -> pyval -> pyval -> pyval) (rs : bool) (x : input cert msg sig) (v : pyval),
    src2_assertion_sig check_sig (enc_authn_response xml rs) (enc_assertion cert msg sig enc_id node false x) v =
    (if rs then PExc "SignatureError" else PBool true).
Proof. exact src2_assertion_sig_unsigned. Qed.
Print Assumptions c03_source2_assertion_sig_unsigned.

(* AuthnResponse.parse_assertion, the plain assertions <-> fst . Model.accept_parts *)
Theorem c03_source2_plain_assertions :
  forall (cert msg sig : Type) (verify : cert -> msg -> sig -> bool) (readable blank : cert -> bool)
         (enc_part : bool * input cert msg sig -> pyval),
    (forall p : bool * input cert msg sig, is_bad (enc_part p) = false) ->
    forall assertion_ok : pyval -> pyval -> pyval,
      (forall p : bool * input cert msg sig,
         assertion_ok (enc_part p) (PBool false) =
         (if fst (accept verify readable blank (snd p)) then PBool true else PExc "SignatureError")) ->
      forall (ps : list (bool * input cert msg sig)) (keys : pyval),
        src2_plain_assertions assertion_ok (enc_response_self cert msg sig enc_part ps) keys =
        (if fst (accept_parts verify readable blank ps) then PBool true else PExc "SignatureError").
Proof. exact src2_plain_assertions_is_model. Qed.
Print Assumptions c03_source2_plain_assertions.
