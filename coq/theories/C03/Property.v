(* C03/Property.v — property theorems only. *)
From Coq Require Import String List Bool.
From Verif Require Import Base.Str C03.Model C03.Spec C03.Proofs C03.Corr.

(* C03: for every metadata shape, claimed issuer, embedded KeyInfo, flag setting, message kind
   (enveloped / detached) and ideal signature scheme: acceptance needs a certificate that metadata
   publishes for signing (or with no use) under the claimed issuer, the embedded certificate only as
   the explicit opt-in fallback when metadata has no signing key for that issuer; the verifier is
   only ever handed such certificates; a signature by a published signing key is accepted. *)
Theorem c03_trust :
  forall (key cert msg sig : Type) (cert_of : key -> cert) (sign : key -> msg -> sig) (verify : cert -> msg -> sig -> bool),
    (forall c mm ss, verify c mm ss = true <-> exists k, c = cert_of k /\ ss = sign k mm) ->
    (forall k k' mm, sign k mm = sign k' mm -> k = k') ->
    forall x : input cert msg sig, spec cert_of sign x (accept verify x).
Proof. exact trust_holds. Qed.
Print Assumptions c03_trust.

Theorem c03_unknown_issuer :
  forall (cert msg sig : Type) (verify : cert -> msg -> sig -> bool) (x : input cert msg sig),
    only_md x = true -> (forall e, claimed x = Some e -> lookup_md e (md x) = None) -> fst (accept verify x) = false.
Proof. exact unknown_issuer_rejected. Qed.
Print Assumptions c03_unknown_issuer.

(* the hypotheses of c03_trust are satisfiable (term algebra) *)
Theorem c03_instance : forall x : input icert imsg isig, spec icert_of isign x (accept iverify x).
Proof. exact instance_trust. Qed.
Print Assumptions c03_instance.

(* the boolean spec evaluated on the implementation's observations is the stated spec *)
Theorem c03_spec_reflect : forall x out, spec_b x out = true <-> spec icert_of isign x out.
Proof. exact spec_b_iff. Qed.
Print Assumptions c03_spec_reflect.
