(* C03/Model.v — which certificates a signature is checked against, as coded (after the repairs
   2dad6239 and a9edf887; the pre-fix behaviour is kept as the _v0 definitions).
   Mirrors: MetaData.certs (mdstore.py 479-519: KeyDescriptor use filter over all role descriptors; a
   KeyDescriptor without certificate text contributes no certificate), SecurityContext._check_signature
   certificate selection (sigver.py 1365-1407: metadata first, embedded X509 certificates only if that
   list is empty and only_use_keys_in_metadata is false, empty => MissingKey) and its verification loop
   (1504-1525: xmlsec1 restricted to the supplied certificate, first success wins),
   Request._do_redirect_sig_check (request.py 109-124): a loop over the issuer's certificates calling
   sigver.verify_redirect_signature (566-599), which first loads the certificate
   (extract_rsa_key_from_x509_cert: ValueError on octets that are no X.509 certificate -- the loop goes on
   to the next certificate, no other key is tried in its place) and then calls the RSA primitive.
   The receiver is long-lived: Entity.reload_metadata / MetadataStore.reload (entity.py 200-223,
   mdstore.py 1128-1138) replace the loaded metadata between verifications (a failed reload restores the
   previous set); every verification looks the issuer up in the set loaded at that moment.
   A message carries a LIST of signed elements (a signed Response around a signed Assertion): sigver.
   correctly_signed_response verifies the Response when the message is loaded, response.py AuthnResponse.
   parse_assertion / _assertion / decrypt_assertions verify every Assertion (plain or decrypted) on its own;
   entity.py _parse_response repeats a failed verification once when the configuration does not insist on
   that signature.  accept_msg = all of them, in that order.
   Besides verifying and reloading, the receiver has certificates looked up for other purposes (the encryption
   certificates of the peer for every Response it produces, entity.py 635-665) and its xmlsec1 binary may be
   replaced by another version: both leave no trace (op Lookup / Engine).  The verifier itself: sigver.py
   CryptoBackendXmlSec1.validate_signature builds the --verify command line -- confined to the certificate file
   (--enabled-key-data raw-x509-cert) for every version, --lax-key-search from 1.3 on (_run_xmlsec) --:
   verify_cmdline; `engine` is xmlsec1's key selection under a command line.
   Signatures are ideal: Section variables with the usual symbolic hypotheses. *)
From Coq Require Import String List Bool Arith.
From Verif Require Import Base.Str.
Import ListNotations.

Inductive use := Signing | Encryption.

(* ---- the xmlsec1 command line (sigver.py CryptoBackendXmlSec1.validate_signature + _run_xmlsec) as a function of
   the version the binary reports.  CryptoBackend.version_nums: "1.3.7" -> [1;3;7] (a text that is not dotted
   numbers -> [0;0;0]); the code compares it with (1, 3) as Python tuples.  What matters for C03 on a --verify
   command line: is the verifier CONFINED to the certificate file it is handed (--enabled-key-data raw-x509-cert:
   nothing in the ds:KeyInfo of the message is read), and -- from 1.3 on, where the binary looks keys up strictly --
   is it told to fall back to the keys it was given (--lax-key-search).  As coded: confined for EVERY version, lax
   exactly from 1.3 on. ---- *)
Definition version := list nat.

Fixpoint vlt (a b : version) : bool :=       (* Python: tuple(a) < tuple(b) *)
  match a, b with
  | _, [] => false
  | [], _ :: _ => true
  | x :: a', y :: b' => if Nat.ltb x y then true else if Nat.ltb y x then false else vlt a' b'
  end.

Definition ge_1_3 (v : version) : bool := negb (vlt v [1; 3]).

Record cmdline := { key_data_confined : bool; lax_key_search : bool }.

Definition verify_cmdline (v : version) : cmdline :=
  {| key_data_confined := true; lax_key_search := ge_1_3 v |}.

Section Model.
  Variables key cert msg sig : Type.
  Variable cert_of : key -> cert.
  Variable sign : key -> msg -> sig.
  Variable verify : cert -> msg -> sig -> bool.
  (* the published octets load as an X.509 certificate (a truncated / garbage ds:X509Certificate does not) *)
  Variable readable : cert -> bool.
  (* a KeyDescriptor that carries no certificate text (empty ds:X509Certificate, ds:X509Data with other
     children only, ds:KeyName only); in the model it is a keydesc whose "certificate" is blank *)
  Variable blank : cert -> bool.

  (* a KeyDescriptor: optional use + certificate; a role descriptor = its key descriptors; an
     entity = its role descriptors (in the order certs() walks them) *)
  Definition keydesc := (option use * cert)%type.
  Definition entity_md := list (list keydesc).
  Definition metadata := list (string * entity_md).

  Fixpoint lookup_md (e : string) (md : metadata) : option entity_md :=
    match md with
    | [] => None
    | (e', m) :: r => if String.eqb e e' then Some m else lookup_md e r
    end.

  (* MetaData.certs(entity, "any", "signing"): "use" absent or == signing; a KeyDescriptor without certificate
     text is passed over (a9edf887) *)
  Definition extract_signing (role : list keydesc) : list cert :=
    flat_map (fun kd => if blank (snd kd) then []
                        else match fst kd with
                             | None => [snd kd]
                             | Some Signing => [snd kd]
                             | Some Encryption => []
                             end) role.

  Definition signing_certs (md : metadata) (issuer : option string) : list cert :=
    match issuer with
    | None => []                                   (* certs(None): KeyError -> [] *)
    | Some e => match lookup_md e md with
                | None => []                       (* unknown entity: KeyError -> [] *)
                | Some roles => flat_map extract_signing roles
                end
    end.

  (* ---- before a9edf887 (finding C03-F2): extract_certs read key_info["x509_data"][..]["x509_certificate"]
     ["text"] of every KeyDescriptor whose use matches; one without certificate text raised KeyError out of
     certs() -- _check_signature turned that into "no certificates in metadata" (except KeyError: _certs = []),
     _do_redirect_sig_check let it propagate (request rejected): either way no metadata certificate was used *)
  Definition extract_signing_v0 (role : list keydesc) : list cert :=
    flat_map (fun kd => match fst kd with
                        | None => [snd kd]
                        | Some Signing => [snd kd]
                        | Some Encryption => []
                        end) role.

  Definition walk_certs_v0 (md : metadata) (issuer : option string) : list cert :=
    match issuer with
    | None => []
    | Some e => match lookup_md e md with
                | None => []
                | Some roles => flat_map extract_signing_v0 roles
                end
    end.

  Definition signing_certs_v0 (md : metadata) (issuer : option string) : list cert :=
    let cs := walk_certs_v0 md issuer in if existsb blank cs then [] else cs.

  Record input := {
    md : metadata;
    only_md : bool;               (* only_use_keys_in_metadata *)
    claimed : option string;      (* issuer named in the message *)
    embedded : list cert;         (* X509Certificate(s) in the signature's KeyInfo *)
    detached : bool;              (* redirect-binding query-string signature *)
    m : msg;                      (* the signed octets / element as received *)
    s : sig                       (* the signature as received *)
  }.

  (* the certificates the signature is checked against *)
  Definition select (certs : list cert) (x : input) : list cert :=
    if detached x then certs
    else match certs with
         | [] => if only_md x then [] else embedded x
         | _ => certs
         end.

  Definition candidates (x : input) : list cert := select (signing_certs (md x) (claimed x)) x.
  Definition candidates_v0 (x : input) : list cert := select (signing_certs_v0 (md x) (claimed x)) x.

  (* verification loop: certificates handed to the verifier, in order, up to the first success *)
  Fixpoint try_certs (cs : list cert) (mm : msg) (ss : sig) : bool * list cert :=
    match cs with
    | [] => (false, [])
    | c :: r => if verify c mm ss then (true, [c])
                else let '(ok, h) := try_certs r mm ss in (ok, c :: h)
    end.

  (* detached (query string) signatures, verified in-process: a certificate that does not load is skipped
     (2dad6239); the certificates listed are those whose public key reached the RSA primitive *)
  Fixpoint try_detached (cs : list cert) (mm : msg) (ss : sig) : bool * list cert :=
    match cs with
    | [] => (false, [])
    | c :: r => if readable c
                then if verify c mm ss then (true, [c])
                     else let '(ok, h) := try_detached r mm ss in (ok, c :: h)
                else try_detached r mm ss
    end.

  Definition accept (x : input) : bool * list cert :=
    if detached x then try_detached (candidates x) (m x) (s x) else try_certs (candidates x) (m x) (s x).

  (* ---- the verifier behind `verify`: xmlsec1 version v run with command line cl on certificate file c and a
     message whose ds:KeyInfo carries the key material `carried` (X509Certificate or bare KeyValue, in document
     order).  Key selection of the binary: key material of the message is read only when the command line does not
     confine it to the file, and then it is PREFERRED (the CVE-2021-21239 behaviour); the file's key is used
     otherwise -- from 1.3 on only under --lax-key-search.  With the command line the code builds this IS `verify c`
     for every version (Proofs.engine_as_invoked). ---- *)
  Definition engine (v : version) (cl : cmdline) (carried : list cert) (c : cert) (mm : msg) (ss : sig) : bool :=
    match (if key_data_confined cl then [] else carried) with
    | k :: _ => verify k mm ss
    | [] => if ge_1_3 v && negb (lax_key_search cl) then false else verify c mm ss
    end.

  (* ---- before 2dad6239 (finding C03-F1): any(verify_redirect_signature(..)): a certificate that does not
     load raised ValueError out of the loop => rejection, the remaining certificates were not tried *)
  Fixpoint try_detached_v0 (cs : list cert) (mm : msg) (ss : sig) : bool * list cert :=
    match cs with
    | [] => (false, [])
    | c :: r => if readable c
                then if verify c mm ss then (true, [c])
                     else let '(ok, h) := try_detached_v0 r mm ss in (ok, c :: h)
                else (false, [])
    end.

  (* did that loop end on a certificate that does not load? *)
  Fixpoint hits_unreadable (cs : list cert) (mm : msg) (ss : sig) : bool :=
    match cs with
    | [] => false
    | c :: r => if readable c then (if verify c mm ss then false else hits_unreadable r mm ss) else true
    end.

  (* the code before both repairs *)
  Definition accept_v0 (x : input) : bool * list cert :=
    if detached x then try_detached_v0 (candidates_v0 x) (m x) (s x) else try_certs (candidates_v0 x) (m x) (s x).

  (* ---- the long-lived receiver: verifications interleaved with metadata reloads ---- *)
  Record query := {
    q_claimed : option string;
    q_embedded : list cert;
    q_detached : bool;
    q_m : msg;
    q_s : sig;
    (* the receiver's configuration demands a signature on this element (want_response_signed for a Response,
       want_assertions_signed for an Assertion; requests: always) *)
    q_insist : bool
  }.

  Definition at_md (mdx : metadata) (only : bool) (q : query) : input :=
    Build_input mdx only (q_claimed q) (q_embedded q) (q_detached q) (q_m q) (q_s q).

  (* ---- a message carries a LIST of signed elements, each with a signature of its own: the Response
     (verified when the message is loaded, sigver.correctly_signed_response) and then the Assertion inside
     it (response.py AuthnResponse._assertion -> check_signature, for an EncryptedAssertion decrypt_assertions
     -> check_signature); requests and query strings carry one.  Every signed element goes through the same
     certificate selection under ITS OWN issuer; the first element that fails ends the processing (the
     rest is not handed to a verifier).  After the signatures: the Response's Issuer, if there is one, must be
     the Assertion's (response.py _assertion, "Issuer mismatch").
     Output: accept/reject of the MESSAGE + per signed element the certificates handed to the verifier. ---- *)
  Definition mout := (bool * list (list cert))%type.

  (* (the receiver insists on this signature, the signed element).  entity.py _parse_response first runs with
     the requirement forced on and, when that raises a signature error for an element the configuration does
     NOT insist on, runs the same step once more with the configured requirement: the failing verification is
     repeated (same certificates, same outcome) *)
  Fixpoint accept_parts (xs : list (bool * input)) : bool * list (list cert) :=
    match xs with
    | [] => (true, [])
    | (req, x) :: r => let o := accept x in
                       if fst o then let '(ok, hs) := accept_parts r in (ok, snd o :: hs)
                       else (false, (if req then snd o else (snd o ++ snd o)%list) :: map (fun _ => []) r)
    end.

  Definition issuer_is (e : string) (x : input) : bool :=
    match claimed x with Some e' => String.eqb e e' | None => false end.

  Definition head_issuer_ok (xs : list input) : bool :=
    match xs with
    | [] => true
    | x :: r => match claimed x with None => true | Some e => forallb (issuer_is e) r end
    end.

  Definition accept_msg (xs : list (bool * input)) : mout :=
    let o := accept_parts xs in (fst o && head_issuer_ok (map snd xs), snd o).

  Inductive op :=
  | Reload (mdx : metadata)       (* reload_metadata / MetadataStore.reload succeeded *)
  | ReloadFailed                  (* reload raised: the previous set is restored *)
  | Check (qs : list query)       (* one message is verified: its signed elements in the order they are verified *)
  (* the certificates that entity e publishes for use u are asked for, for another purpose than a verification:
     Entity._response -> has_encrypt_cert_in_metadata (every Response an IdP produces asks for the ENCRYPTION
     certificates of the SP), an application that reads MetadataStore.certs(e, descriptor, u), another entity
     instance in the same process.  Read-only: MetaData.certs computes its answer from the loaded set each time *)
  | Lookup (e : string) (u : use)
  (* the xmlsec1 binary is replaced (package upgrade): it reports version v from now on.  CryptoBackendXmlSec1.version
     asks the binary on every use; certificate selection does not depend on it *)
  | Engine (v : version).

  (* state = the metadata loaded now; nothing else is remembered between verifications: neither what was
     verified, nor which certificates were looked up for which use, nor which binary verified *)
  Fixpoint run_ops (cur : metadata) (only : bool) (ops : list op) : list mout :=
    match ops with
    | [] => []
    | Reload m' :: r => run_ops m' only r
    | ReloadFailed :: r => run_ops cur only r
    | Check qs :: r => accept_msg (map (fun q => (q_insist q, at_md cur only q)) qs) :: run_ops cur only r
    | Lookup _ _ :: r => run_ops cur only r
    | Engine _ :: r => run_ops cur only r
    end.
End Model.


Arguments md {cert msg sig}.
Arguments only_md {cert msg sig}.
Arguments claimed {cert msg sig}.
Arguments embedded {cert msg sig}.
Arguments detached {cert msg sig}.
Arguments m {cert msg sig}.
Arguments s {cert msg sig}.
Arguments Build_input {cert msg sig}.
Arguments accept {cert msg sig}.
Arguments candidates {cert msg sig}.
Arguments try_certs {cert msg sig}.
Arguments signing_certs {cert}.
Arguments walk_certs_v0 {cert}.
Arguments signing_certs_v0 {cert}.
Arguments extract_signing_v0 {cert}.
Arguments select {cert msg sig}.
Arguments candidates_v0 {cert msg sig}.
Arguments try_detached_v0 {cert msg sig}.
Arguments accept_v0 {cert msg sig}.
Arguments extract_signing {cert}.
Arguments lookup_md {cert}.
Arguments try_detached {cert msg sig}.
Arguments hits_unreadable {cert msg sig}.
Arguments q_claimed {cert msg sig}.
Arguments q_embedded {cert msg sig}.
Arguments q_detached {cert msg sig}.
Arguments q_m {cert msg sig}.
Arguments q_s {cert msg sig}.
Arguments q_insist {cert msg sig}.
Arguments Build_query {cert msg sig}.
Arguments at_md {cert msg sig}.
Arguments Reload {cert msg sig}.
Arguments ReloadFailed {cert msg sig}.
Arguments Check {cert msg sig}.
Arguments Lookup {cert msg sig}.
Arguments Engine {cert msg sig}.
Arguments engine {cert msg sig}.
Arguments run_ops {cert msg sig}.
Arguments mout : clear implicits.
Arguments accept_parts {cert msg sig}.
Arguments issuer_is {cert msg sig}.
Arguments head_issuer_ok {cert msg sig}.
Arguments accept_msg {cert msg sig}.
