(* C03/Model.v — which certificates a signature is checked against, as coded.
   Mirrors: MetaData.certs (mdstore.py 479-514: KeyDescriptor use filter over all role
   descriptors), SecurityContext._check_signature certificate selection (sigver.py 1365-1407:
   metadata first, embedded X509 certificates only if that list is empty and
   only_use_keys_in_metadata is false, empty => MissingKey) and its verification loop (1504-1525:
   xmlsec1 restricted to the supplied certificate, first success wins),
   Request._do_redirect_sig_check (request.py 109-115).
   Signatures are ideal: Section variables with the usual symbolic hypotheses. *)
From Coq Require Import String List Bool.
From Verif Require Import Base.Str.
Import ListNotations.

Inductive use := Signing | Encryption.

Section Model.
  Variables key cert msg sig : Type.
  Variable cert_of : key -> cert.
  Variable sign : key -> msg -> sig.
  Variable verify : cert -> msg -> sig -> bool.

  (* a KeyDescriptor: optional use + certificate; a role descriptor = its key descriptors; an
     entity = its role descriptors (in the order certs() walks them) *)
  Definition keydesc := (option use * cert)%type.
  Definition entity_md := list (list keydesc).
  Definition metadata := list (string * entity_md).

  Fixpoint lookup_md (e : string) (md : metadata) : option entity_md :=
    match md with
    | [] => None
    | (e', m) :: r => if String.eqb e e' then Some m else lookup_md e r
    end.

  (* MetaData.certs(entity, "any", "signing"): "use" absent or == signing *)
  Definition extract_signing (role : list keydesc) : list cert :=
    flat_map (fun kd => match fst kd with
                        | None => [snd kd]
                        | Some Signing => [snd kd]
                        | Some Encryption => []
                        end) role.

  Definition signing_certs (md : metadata) (issuer : option string) : list cert :=
    match issuer with
    | None => []                                   (* certs(None): KeyError -> [] *)
    | Some e => match lookup_md e md with
                | None => []                       (* unknown entity: KeyError -> [] *)
                | Some roles => flat_map extract_signing roles
                end
    end.

  Record input := {
    md : metadata;
    only_md : bool;               (* only_use_keys_in_metadata *)
    claimed : option string;      (* issuer named in the message *)
    embedded : list cert;         (* X509Certificate(s) in the signature's KeyInfo *)
    detached : bool;              (* redirect-binding query-string signature *)
    m : msg;                      (* the signed octets / element as received *)
    s : sig                       (* the signature as received *)
  }.

  (* the certificates the signature is checked against *)
  Definition candidates (x : input) : list cert :=
    let certs := signing_certs (md x) (claimed x) in
    if detached x then certs
    else match certs with
         | [] => if only_md x then [] else embedded x
         | _ => certs
         end.

  (* verification loop: certificates handed to the verifier, in order, up to the first success *)
  Fixpoint try_certs (cs : list cert) (mm : msg) (ss : sig) : bool * list cert :=
    match cs with
    | [] => (false, [])
    | c :: r => if verify c mm ss then (true, [c])
                else let '(ok, h) := try_certs r mm ss in (ok, c :: h)
    end.

  Definition accept (x : input) : bool * list cert := try_certs (candidates x) (m x) (s x).
End Model.


Arguments md {cert msg sig}.
Arguments only_md {cert msg sig}.
Arguments claimed {cert msg sig}.
Arguments embedded {cert msg sig}.
Arguments detached {cert msg sig}.
Arguments m {cert msg sig}.
Arguments s {cert msg sig}.
Arguments Build_input {cert msg sig}.
Arguments accept {cert msg sig}.
Arguments candidates {cert msg sig}.
Arguments try_certs {cert msg sig}.
Arguments signing_certs {cert}.
Arguments extract_signing {cert}.
Arguments lookup_md {cert}.
