(* C03/Source2.v — tie of the model to the source TEXT through translator v2 (harness/py2coq2.py, Base/Py2.v).
   coq/gen/C03Src2.v is re-generated from /repo's current source on every run (functions, and statement blocks cut
   out of long methods by harness/c03.py: work/C03/slices/); each theorem here says: the translated function,
   applied to the encoding of the model's input, is the encoding of what the model function it mirrors answers --
   for ALL inputs.  External calls (xmlsec1, RSA, PEM formatting, temp files, the certificates of a parsed
   ds:KeyInfo, repack_cert) are Section variables with hypotheses; every Section is followed by an Example showing
   the hypotheses satisfiable.

     MetaData.certs.extract_certs (nested)            <->  flat_map (Model.extract_signing blank)
     MetaData.certs (walk over the role descriptors)  <->  Model.signing_certs (lookup_md + the walk order)
     SecurityContext._check_signature, selection      <->  Model.candidates (= select . signing_certs), MissingKey
     SecurityContext._check_signature, verify loop    <->  fst . Model.try_certs
     Request._do_redirect_sig_check                   <->  fst . Model.try_detached over Model.signing_certs
     CryptoBackendXmlSec1.validate_signature, argv    <->  Model.verify_cmdline: confined for every version
     AuthnResponse._assertion, signature step         <->  fst . Model.accept for one signed element
     AuthnResponse.parse_assertion, plain assertions  <->  fst . Model.accept_parts *)
From Coq Require Import String Ascii List Bool ZArith Arith Lia.
From Verif Require Import Base.Str Base.Py Base.Py2 C03.Model.
From VerifGen Require Import C03Src2.
Import ListNotations.
Open Scope string_scope.
Set Default Timeout 20.

(* ================================================================== AuthnResponse.parse_assertion, plain assertions *)
Section PlainAssertions.
  Variables cert msg sig : Type.
  Variable verify : cert -> msg -> sig -> bool.
  Variables readable blank : cert -> bool.
  (* how a signed element of the model appears to the code: the parsed saml.Assertion *)
  Variable enc_part : bool * input cert msg sig -> pyval.
  Hypothesis enc_part_good : forall p, is_bad (enc_part p) = false.
  (* self._assertion(assertion, verified) with verified = False: the element's own signature decides (it raises
     when the signature does not verify).  Nothing is assumed about verified = True: a source that passes True makes
     the theorem unprovable *)
  Variable assertion_ok : pyval -> pyval -> pyval.
  Hypothesis assertion_ok_false : forall p,
    assertion_ok (enc_part p) (PBool false)
    = if fst (accept verify readable blank (snd p)) then PBool true else PExc "SignatureError".

  Definition enc_response_self (ps : list (bool * input cert msg sig)) : pyval :=
    PObj [("__class__", PStr "AuthnResponse");
          ("response", PObj [("__class__", PStr "Response"); ("assertion", PList (map enc_part ps))])].

  Definition plain_body : list pyval -> pyval -> ctl2 :=
    fun st_3 x_4 => match st_3 with [] =>
    (let v_assertion := x_4 in
    (match p2_branch (p2_not (py_bind v_assertion (fun a_7 => (assertion_ok a_7 (PBool false))))) with
    | BTrue => (RetS (PBool false))
    | BFalse => (NextS [])
    | BExc n_8 => (ExcS n_8 [])
    | BErr => (RetS PErr)
    end))
   | _ => RetS PErr end.

  Lemma plain_loop ps :
    pyfor2 (map enc_part ps) [] plain_body
    = if fst (accept_parts verify readable blank ps) then NextS [] else ExcS "SignatureError" [].
  Proof.
    induction ps as [|[req x] r IH]; [reflexivity|].
    cbn [map pyfor2 accept_parts]. unfold plain_body at 1. cbv zeta.
    rewrite (py_bind_good (enc_part (req, x))) by apply enc_part_good. rewrite assertion_ok_false. cbn [snd].
    destruct (fst (accept verify readable blank x)).
    - cbn [p2_not s1 py_bind py_truthy negb p2_branch]. rewrite IH.
      destruct (accept_parts verify readable blank r) as [ok hs]. reflexivity.
    - reflexivity.
  Qed.

  (* every plain Assertion goes through its own signature check; the first that fails ends the processing *)
  Theorem src2_plain_assertions_is_model : forall ps keys,
    src2_plain_assertions assertion_ok (enc_response_self ps) keys
    = if fst (accept_parts verify readable blank ps) then PBool true else PExc "SignatureError".
  Proof.
    intros ps keys. unfold src2_plain_assertions, enc_response_self.
    change (p2_attr_x (p2_attr_x (PObj _) "response") "assertion") with (PList (map enc_part ps)).
    destruct ps as [|p r]; [reflexivity|].
    cbn [p2_branch py_truthy map]. rewrite p2_iter_check_list. cbn [py_bind py_iter2].
    fold plain_body. change (enc_part p :: map enc_part r) with (map enc_part (p :: r)). rewrite plain_loop.
    destruct (fst (accept_parts verify readable blank (p :: r))); reflexivity.
  Qed.
End PlainAssertions.

Example plain_assertions_hyps_sat :
  let verify := fun (c m s : nat) => Nat.eqb c s in
  let readable := fun _ : nat => true in
  let blank := fun _ : nat => false in
  let mdx : metadata nat := [("idp", [[(Some Signing, 1)]])] in
  let x k := Build_input mdx true (Some "idp") [] false 7 k in
  let enc_part := fun p : bool * input nat nat nat => PInt (Z.of_nat (s (snd p))) in
  let aok := fun a v => match a, v with
                        | PInt z, PBool false => if Z.eqb z 1 then PBool true else PExc "SignatureError"
                        | _, _ => PBool true end in
  (forall p, is_bad (enc_part p) = false)
  /\ aok (enc_part (true, x 1)) (PBool false)
     = (if fst (accept verify readable blank (x 1)) then PBool true else PExc "SignatureError")
  /\ aok (enc_part (true, x 6)) (PBool false)
     = (if fst (accept verify readable blank (x 6)) then PBool true else PExc "SignatureError")
  /\ src2_plain_assertions aok (enc_response_self nat nat nat enc_part [(true, x 1); (false, x 6)]) PNone
     = PExc "SignatureError"
  /\ src2_plain_assertions aok (enc_response_self nat nat nat enc_part [(true, x 1); (false, x 1)]) PNone
     = PBool true.
Proof. cbv zeta. repeat split; vm_compute; reflexivity. Qed.

(* ================================================================== AuthnResponse._assertion, the signature step *)
(* what _check_signature raises for a signed element that is not accepted *)
Definition exc_of {cert msg sig : Type} (blank : cert -> bool) (x : input cert msg sig) : string :=
  match candidates blank x with [] => "MissingKey" | _ => "SignatureError" end.

Section AssertionSig.
  Variables cert msg sig : Type.
  Variable verify : cert -> msg -> sig -> bool.
  Variables readable blank : cert -> bool.
  Variable enc_id : input cert msg sig -> pyval.        (* what tells the parsed elements apart *)
  Variables node xml : string.

  Definition enc_assertion (signed : bool) (x : input cert msg sig) : pyval :=
    PObj [("__class__", PStr "Assertion"); ("c_node_name", PStr node);
          ("signature", if signed then PObj [("__class__", PStr "Signature")] else PNone); ("id", enc_id x)].

  Definition enc_authn_response (require_signature : bool) : pyval :=
    PObj [("__class__", PStr "AuthnResponse"); ("require_signature", PBool require_signature);
          ("do_not_verify", PBool false); ("xmlstr", PStr xml)].

  (* self.sec.check_signature(assertion, class_name(assertion), self.xmlstr) *)
  Variable check_sig : pyval -> pyval -> pyval -> pyval.
  Hypothesis check_sig_spec : forall x,
    check_sig (enc_assertion true x) (PStr node) (PStr xml)
    = if fst (accept verify readable blank x) then enc_assertion true x else PExc (exc_of blank x).

  (* a signed Assertion: unless the caller vouches for it (verified = True: the decrypted assertions, whose
     signature decrypt_assertions has checked), its own signature decides *)
  Theorem src2_assertion_sig_is_model : forall rs x (verified : bool),
    src2_assertion_sig check_sig (enc_authn_response rs) (enc_assertion true x) (PBool verified)
    = if verified then PBool true
      else if fst (accept verify readable blank x) then PBool true else PExc (exc_of blank x).
  Proof.
    intros rs x verified. unfold src2_assertion_sig.
    change (p2_hasattr (enc_assertion true x) "signature") with (PBool true).
    change (p2_attr_x (enc_assertion true x) "signature") with (PObj [("__class__", PStr "Signature")]).
    change (p2_attr_x (enc_authn_response rs) "do_not_verify") with (PBool false).
    change (p2_attr_x (enc_authn_response rs) "xmlstr") with (PStr xml).
    cbn [p2_not s1 py_bind py_truthy negb p2_or p2_branch].
    destruct verified; cbn [p2_not s1 py_bind py_truthy negb p2_and p2_is_bool Bool.eqb p2_branch]; [reflexivity|].
    change (py_bind (enc_assertion true x) (fun a_4 => p2_attr_x a_4 "c_node_name")) with (PStr node).
    cbn [py_bind]. rewrite (py_bind_good (enc_assertion true x)) by reflexivity. rewrite check_sig_spec.
    destruct (fst (accept verify readable blank x)); reflexivity.
  Qed.

  (* an unsigned Assertion is an error exactly when the receiver insists on signed assertions *)
  Theorem src2_assertion_sig_unsigned : forall rs x v,
    src2_assertion_sig check_sig (enc_authn_response rs) (enc_assertion false x) v
    = if rs then PExc "SignatureError" else PBool true.
  Proof.
    intros rs x v. unfold src2_assertion_sig.
    change (p2_hasattr (enc_assertion false x) "signature") with (PBool true).
    change (p2_attr_x (enc_assertion false x) "signature") with PNone.
    change (p2_attr_x (enc_authn_response rs) "require_signature") with (PBool rs).
    cbn [p2_not s1 py_bind py_truthy negb p2_or p2_branch]. destruct rs; reflexivity.
  Qed.
End AssertionSig.

Example assertion_sig_hyps_sat :
  let verify := fun (c m s : nat) => Nat.eqb c s in
  let readable := fun _ : nat => true in
  let blank := fun _ : nat => false in
  let mdx : metadata nat := [("idp", [[(Some Signing, 1)]])] in
  let x e k := Build_input mdx true (Some e) [] false 7 k in
  let enc_id := fun i : input nat nat nat => PList [PStr (match claimed i with Some e => e | None => "" end); PInt (Z.of_nat (s i))] in
  let cs := fun a (_ _ : pyval) =>
              match p2_attr_x a "id" with
              | PList [PStr "idp"; PInt z] => if Z.eqb z 1 then a else PExc "SignatureError"
              | _ => PExc "MissingKey" end in
  cs (enc_assertion nat nat nat enc_id "n" true (x "idp" 1)) (PStr "n") (PStr "d")
    = (if fst (accept verify readable blank (x "idp" 1)) then enc_assertion nat nat nat enc_id "n" true (x "idp" 1)
       else PExc (exc_of blank (x "idp" 1)))
  /\ cs (enc_assertion nat nat nat enc_id "n" true (x "idp" 6)) (PStr "n") (PStr "d")
    = (if fst (accept verify readable blank (x "idp" 6)) then enc_assertion nat nat nat enc_id "n" true (x "idp" 6)
       else PExc (exc_of blank (x "idp" 6)))
  /\ cs (enc_assertion nat nat nat enc_id "n" true (x "nobody" 6)) (PStr "n") (PStr "d")
    = (if fst (accept verify readable blank (x "nobody" 6)) then enc_assertion nat nat nat enc_id "n" true (x "nobody" 6)
       else PExc (exc_of blank (x "nobody" 6)))
  /\ src2_assertion_sig cs (enc_authn_response "d" false) (enc_assertion nat nat nat enc_id "n" true (x "idp" 6)) (PBool false)
     = PExc "SignatureError"
  /\ src2_assertion_sig cs (enc_authn_response "d" false) (enc_assertion nat nat nat enc_id "n" true (x "nobody" 6)) (PBool false)
     = PExc "MissingKey"
  /\ src2_assertion_sig cs (enc_authn_response "d" false) (enc_assertion nat nat nat enc_id "n" true (x "idp" 1)) (PBool false)
     = PBool true.
Proof. cbv zeta. repeat split; vm_compute; reflexivity. Qed.

(* ================================================================== Request._do_redirect_sig_check *)
Section Redirect.
  Variables cert msg sig : Type.
  Variable verify : cert -> msg -> sig -> bool.
  Variables readable blank : cert -> bool.
  (* the certificate text metadata.certs hands out *)
  Variable enc_cert : cert -> pyval.
  Hypothesis enc_cert_good : forall c, is_bad (enc_cert c) = false.
  Variable mdx : metadata cert.
  Variable mm : msg.
  Variable ss : sig.
  Variable msgv : pyval.                                 (* the query-string dictionary *)
  Hypothesis msgv_good : is_bad msgv = false.

  Definition enc_pair (c : cert) : pyval := PList [PNone; enc_cert c].

  (* externals *)
  Variable sender : pyval -> pyval.                      (* self.sender() *)
  Variable md_certs : pyval -> pyval.                    (* self.sec.metadata.certs(issuer, "any", "signing") *)
  Variable verify_sig : pyval -> pyval -> pyval.         (* verify_redirect_signature(_saml_msg, backend, cert) *)
  Hypothesis md_certs_spec : forall e,
    md_certs (PStr e) = match lookup_md e mdx with
                        | None => PExc "KeyError"
                        | Some _ => PList (map enc_pair (signing_certs blank mdx (Some e)))
                        end.
  (* octets that are no X.509 certificate: ValueError from the loader, the RSA primitive is not reached *)
  Hypothesis verify_sig_spec : forall c,
    verify_sig msgv (enc_cert c) = if readable c then PBool (verify c mm ss) else PExc "ValueError".

  Definition enc_request : pyval :=
    PObj [("__class__", PStr "Request");
          ("sec", PObj [("__class__", PStr "SecurityContext"); ("sec_backend", PNone)])].

  Definition redirect_body (self : pyval) : list pyval -> pyval -> ctl2 :=
    fun st_4 x_5 => match st_4 with [v_verified; v_exc] =>
    (match p2_unpack 2 x_5 with
    | PList [v_cert_name; v_cert] => (match p2_branch (py_bind msgv (fun a_9 => (py_bind (p2_attr_x (p2_attr_x self "sec") "sec_backend") (fun a_10 => (py_bind v_cert (fun a_11 => (verify_sig a_9 a_11))))))) with
    | BTrue => (let v_verified := (PBool true) in
    (BrkS [v_verified; v_exc]))
    | BFalse => (NextS [v_verified; v_exc])
    | BExc n_12 => (if exc_matches n_12 ["ValueError"; "UnicodeDecodeError"; "UnicodeEncodeError"; "UnicodeError"]
    then (let v_exc := PExc n_12 in
    (let v_exc := PErr in (NextS [v_verified; v_exc])))
    else (ExcS n_12 [v_verified; v_exc]))
    | BErr => (RetS PErr)
    end)
    | PExc n_13 => (ExcS n_13 [v_verified; v_exc])
    | _ => (RetS PErr)
    end)
   | _ => RetS PErr end.

  Lemma redirect_loop cs e0 :
    match pyfor2 (map enc_pair cs) [PBool false; e0] (redirect_body enc_request) with
    | NextS [v; _] | BrkS [v; _] => v
    | ExcS n [_; _] => PExc n
    | RetS r => r
    | _ => PErr
    end = PBool (fst (try_detached verify readable cs mm ss)).
  Proof.
    revert e0. induction cs as [|c r IH]; intros e0; [reflexivity|].
    cbn [map pyfor2 try_detached]. unfold redirect_body at 1. unfold enc_pair at 1. cbn [p2_unpack length Nat.eqb].
    rewrite (py_bind_good msgv) by exact msgv_good.
    change (p2_attr_x (p2_attr_x enc_request "sec") "sec_backend") with PNone. cbn [py_bind].
    rewrite (py_bind_good (enc_cert c)) by apply enc_cert_good. rewrite verify_sig_spec.
    destruct (readable c).
    - destruct (verify c mm ss); cbn [p2_branch py_truthy].
      + reflexivity.
      + rewrite IH. destruct (try_detached verify readable r mm ss) as [ok h]. reflexivity.
    - cbn [p2_branch exc_matches mem String.eqb Ascii.eqb Bool.eqb orb]. apply IH.
  Qed.

  (* a detached signature is accepted exactly when SOME certificate that metadata publishes for signing under the
     sender's entityID loads and verifies it; a sender without metadata: KeyError (the request is refused) *)
  Theorem src2_redirect_sig_check_is_model : forall e only emb,
    sender enc_request = PStr e ->
    src2_redirect_sig_check sender md_certs verify_sig enc_request msgv
    = match lookup_md e mdx with
      | None => PExc "KeyError"
      | Some _ => PBool (fst (accept verify readable blank (Build_input mdx only (Some e) emb true mm ss)))
      end.
  Proof.
    intros e only emb Hs. unfold src2_redirect_sig_check. rewrite Hs. cbn [py_bind]. rewrite md_certs_spec.
    unfold accept, candidates, select. cbn [detached md claimed m s].
    destruct (lookup_md e mdx) as [roles|] eqn:L; [|reflexivity].
    cbn [py_bind]. rewrite p2_iter_check_list. cbn [py_bind py_iter2]. fold (redirect_body enc_request).
    rewrite <- (redirect_loop (signing_certs blank mdx (Some e)) PErr).
    destruct (pyfor2 _ _ _) as [[|v [|w [|]]]|[|v [|w [|]]]|r|n [|v [|w [|]]]]; reflexivity.
  Qed.
End Redirect.

Example redirect_hyps_sat :
  let verify := fun (c m s : nat) => Nat.eqb c s in
  let readable := fun c : nat => negb (Nat.eqb c 9) in
  let blank := fun _ : nat => false in
  let mdx : metadata nat := [("sp", [[(Some Signing, 9); (None, 2); (Some Encryption, 3)]])] in
  let enc_cert := fun c : nat => PInt (Z.of_nat c) in
  let msgv := PObj [("SAMLRequest", PStr "x")] in
  let sender := fun _ : pyval => PStr "sp" in
  let md_certs := fun v => match v with
                           | PStr "sp" => PList (map (enc_pair nat enc_cert) [9; 2])
                           | _ => PExc "KeyError" end in
  let verify_sig := fun (_ c : pyval) => match c with
                                         | PInt z => if Z.eqb z 9 then PExc "ValueError" else PBool (Z.eqb z 2)
                                         | _ => PErr end in
  (forall c, is_bad (enc_cert c) = false)
  /\ md_certs (PStr "sp") = PList (map (enc_pair nat enc_cert) (signing_certs blank mdx (Some "sp")))
  /\ (forall c, c <= 9 -> verify_sig msgv (enc_cert c) = if readable c then PBool (verify c 7 2) else PExc "ValueError")
  /\ src2_redirect_sig_check sender md_certs verify_sig enc_request msgv = PBool true.
Proof.
  cbv zeta. split; [reflexivity|]. split; [reflexivity|]. split; [|vm_compute; reflexivity].
  intros c Hc. do 10 (destruct c as [|c]; [vm_compute; reflexivity|]). lia.
Qed.

(* ================================================================== SecurityContext._check_signature, verification loop *)
Section VerifyLoop.
  Variables cert msg sig : Type.
  Variable verify : cert -> msg -> sig -> bool.
  Variable readable : cert -> bool.
  Variable mm : msg.
  Variable ss : sig.
  (* a certificate file that xmlsec1 cannot load verifies nothing *)
  Hypothesis unreadable_verifies_nothing : forall c, readable c = false -> verify c mm ss = false.
  (* the name of the temporary file that holds the PEM text of a certificate *)
  Variable enc_name : cert -> pyval.
  Hypothesis enc_name_good : forall c, is_bad (enc_name c) = false.
  Variables xmlv nodev idv : pyval.
  Hypothesis xmlv_good : is_bad xmlv = false.
  Hypothesis nodev_good : is_bad nodev = false.
  Hypothesis idv_good : is_bad idv = false.

  Definition enc_tmp (c : cert) : pyval := PObj [("__class__", PStr "TempFile"); ("name", enc_name c)].
  Definition enc_item : pyval := PObj [("__class__", PStr "Item"); ("id", idv)].

  (* externals *)
  (* self.verify_signature(decoded_xml, pem_fd.name, node_name=, node_id=): xmlsec1 with exactly that certificate;
     a certificate file it cannot load: XmlsecError *)
  Variable verify_sig : pyval -> pyval -> pyval -> pyval -> pyval.
  Hypothesis verify_sig_spec : forall c,
    verify_sig xmlv (enc_name c) nodev idv = if readable c then PBool (verify c mm ss) else PExc "XmlsecError".
  Variable verify_cert : pyval -> pyval.                 (* self.cert_handler.verify_cert(file): no extra validation *)
  Hypothesis verify_cert_spec : forall c, verify_cert (enc_name c) = PBool true.

  Definition verify_body : list pyval -> pyval -> ctl2 :=
    fun st_7 x_8 => match st_7 with [v_last_pem_file; v_verified; v_exc] =>
    (let v_pem_fd := x_8 in
    (let h_11 := fun n_11 v_last_pem_file v_verified =>
     (if exc_matches n_11 ["XmlsecError"]
     then (let v_exc := PExc n_11 in
     (let v_exc := PErr in (NextS [v_last_pem_file; v_verified; v_exc])))
     else (let v_exc := PExc n_11 in
     (ExcS n_11 [v_last_pem_file; v_verified; v_exc]))) in
    (py_bindS (fun n_17 => (h_11 n_17 v_last_pem_file v_verified)) (p2_attr_x v_pem_fd "name") (fun v_last_pem_file =>
    (match p2_branch (py_bind xmlv (fun a_12 => (py_bind (p2_attr_x v_pem_fd "name") (fun a_13 => (py_bind nodev (fun a_14 => (py_bind (p2_attr_x enc_item "id") (fun a_15 => (verify_sig a_12 a_13 a_14 a_15))))))))) with
    | BTrue => (let v_verified := (PBool true) in
    (BrkS [v_last_pem_file; v_verified; v_exc]))
    | BFalse => (NextS [v_last_pem_file; v_verified; v_exc])
    | BExc n_16 => (h_11 n_16 v_last_pem_file v_verified)
    | BErr => (RetS PErr)
    end)))))
   | _ => RetS PErr end.

  (* the last file handed to xmlsec1 and whether it verified *)
  Fixpoint vloop (cs : list cert) (l0 : pyval) : pyval * bool :=
    match cs with
    | [] => (l0, false)
    | c :: r => if verify c mm ss then (enc_name c, true) else vloop r (enc_name c)
    end.

  Lemma vloop_try cs l0 : snd (vloop cs l0) = fst (try_certs verify cs mm ss).
  Proof.
    revert l0. induction cs as [|c r IH]; intros l0; [reflexivity|]. cbn [vloop try_certs].
    destruct (verify c mm ss); [reflexivity|]. rewrite IH. destruct (try_certs verify r mm ss); reflexivity.
  Qed.

  Lemma vloop_hit cs l0 : snd (vloop cs l0) = true -> exists c, fst (vloop cs l0) = enc_name c.
  Proof.
    revert l0. induction cs as [|c r IH]; intros l0; cbn [vloop]; [discriminate|].
    destruct (verify c mm ss); [intros _; exists c; reflexivity|apply IH].
  Qed.

  Lemma verify_loop_run cs l0 e0 :
    match pyfor2 (map enc_tmp cs) [l0; PBool false; e0] verify_body with
    | NextS [l; v; _] | BrkS [l; v; _] => Some (l, v)
    | _ => None
    end = Some (fst (vloop cs l0), PBool (snd (vloop cs l0))).
  Proof.
    revert l0 e0. induction cs as [|c r IH]; intros l0 e0; [reflexivity|].
    cbn [map pyfor2 vloop]. unfold verify_body at 1. cbv zeta.
    change (p2_attr_x (enc_tmp c) "name") with (enc_name c).
    rewrite (py_bindS_good _ (enc_name c)) by apply enc_name_good.
    rewrite (py_bind_good xmlv) by exact xmlv_good. rewrite (py_bind_good (enc_name c)) by apply enc_name_good.
    rewrite (py_bind_good nodev) by exact nodev_good. change (p2_attr_x enc_item "id") with idv.
    rewrite (py_bind_good idv) by exact idv_good. rewrite verify_sig_spec.
    destruct (readable c) eqn:R.
    - destruct (verify c mm ss); cbn [p2_branch py_truthy]; [reflexivity|apply IH].
    - rewrite (unreadable_verifies_nothing c R).
      cbn [p2_branch exc_matches mem String.eqb Ascii.eqb Bool.eqb orb]. apply IH.
  Qed.

  (* the first certificate of the list under which the signature verifies wins; none: SignatureError *)
  Theorem src2_verify_loop_is_model : forall self cs,
    src2_verify_loop verify_sig verify_cert self xmlv enc_item nodev (PList (map enc_tmp cs)) (PBool false)
    = if fst (try_certs verify cs mm ss) then enc_item else PExc "SignatureError".
  Proof.
    intros self cs. unfold src2_verify_loop. cbv zeta. rewrite p2_iter_check_list. cbn [py_bind py_iter2].
    fold verify_body. pose proof (verify_loop_run cs PNone PErr) as H. rewrite <- (vloop_try cs PNone).
    destruct (pyfor2 (map enc_tmp cs) [PNone; PBool false; PErr] verify_body)
      as [[|l [|v [|w [|]]]]|[|l [|v [|w [|]]]]|r|n st]; try discriminate H; injection H as -> ->;
      (destruct (snd (vloop cs PNone)) eqn:E; cbn [p2_or py_truthy p2_branch]; [|reflexivity];
       destruct (vloop_hit cs PNone E) as [c ->]; rewrite (py_bind_good (enc_name c)) by apply enc_name_good;
       rewrite verify_cert_spec; reflexivity).
  Qed.
End VerifyLoop.

Example verify_loop_hyps_sat :
  let verify := fun (c m s : nat) => Nat.eqb c s && negb (Nat.eqb c 9) in
  let readable := fun c : nat => negb (Nat.eqb c 9) in
  let enc_name := fun c : nat => PInt (Z.of_nat c) in
  let verify_sig := fun (_ f _ _ : pyval) => match f with
                                             | PInt z => if Z.eqb z 9 then PExc "XmlsecError" else PBool (Z.eqb z 2)
                                             | _ => PErr end in
  let verify_cert := fun _ : pyval => PBool true in
  (forall c, readable c = false -> verify c 7 2 = false)
  /\ (forall c, c <= 9 -> verify_sig (PStr "doc") (enc_name c) (PStr "node") (PStr "id")
                = if readable c then PBool (verify c 7 2) else PExc "XmlsecError")
  /\ src2_verify_loop verify_sig verify_cert PNone (PStr "doc") (enc_item (PStr "id")) (PStr "node")
       (PList (map (enc_tmp nat enc_name) [9; 1; 2; 3])) (PBool false) = enc_item (PStr "id")
  /\ src2_verify_loop verify_sig verify_cert PNone (PStr "doc") (enc_item (PStr "id")) (PStr "node")
       (PList (map (enc_tmp nat enc_name) [9; 1; 3])) (PBool false) = PExc "SignatureError".
Proof.
  cbv zeta. split; [|split; [|split; vm_compute; reflexivity]].
  - intros c H. apply negb_false_iff in H. rewrite H. apply andb_false_r.
  - intros c Hc. do 10 (destruct c as [|c]; [vm_compute; reflexivity|]). lia.
Qed.

(* ================================================================== SecurityContext._check_signature, certificate selection *)
Section Select.
  Variables cert msg sig : Type.
  Variable blank : cert -> bool.
  (* the certificate text (base64 body) as metadata.certs / cert_from_instance hand it out *)
  Variable cert_text : cert -> string.
  (* pem_format, and the name of the temporary file make_temp writes the PEM text to *)
  Variables pemf namef : string -> string.

  Definition enc_mdpair (c : cert) : pyval := PList [PNone; PStr (cert_text c)].
  Definition enc_tmpfile (c : cert) : pyval :=
    PObj [("__class__", PStr "TempFile"); ("name", PStr (namef (pemf (cert_text c))))].
  Definition enc_issuer (o : option string) : pyval :=
    match o with Some e => PObj [("__class__", PStr "Issuer"); ("text", PStr e)] | None => PNone end.
  Definition enc_signed_item (x : input cert msg sig) : pyval :=
    PObj [("__class__", PStr "Item"); ("issuer", enc_issuer (claimed x))].
  Definition enc_sec (only : bool) : pyval :=
    PObj [("__class__", PStr "SecurityContext"); ("metadata", PObj [("__class__", PStr "MetadataStore"); ("loaded", PBool true)]);
          ("only_use_keys_in_metadata", PBool only); ("delete_tmpfiles", PBool true)].

  (* externals *)
  Variable md_certs : pyval -> pyval.          (* self.metadata.certs(_issuer, "any", "signing") *)
  Variable pem : pyval -> pyval.               (* pem_format *)
  Variable mk_temp : pyval -> pyval.           (* make_temp(content, ...) *)
  Variable instance_certs : pyval -> pyval.    (* cert_from_instance(item): the X509Certificate texts of its ds:KeyInfo *)
  Hypothesis pem_spec : forall t, pem (PStr t) = PStr (pemf t).
  Hypothesis mk_temp_spec : forall p, mk_temp (PStr p) = PObj [("__class__", PStr "TempFile"); ("name", PStr (namef p))].

  Definition select_body (self : pyval) : list pyval -> pyval -> ctl2 :=
    fun st_11 x_12 => match st_11 with [v_cert; v_content; v_tmp; v_certs] =>
       (match p2_unpack 2 x_12 with
       | PList [v_cert_name; v_cert] => (match p2_branch (p2_isinstance v_cert ["str"] []) with
       | BTrue => (py_bindS (fun n_20 => (ExcS n_20 [v_cert; v_content; v_tmp; v_certs])) (py_bind v_cert (fun a_15 => (pem a_15))) (fun v_content =>
       (py_bindS (fun n_19 => (ExcS n_19 [v_cert; v_content; v_tmp; v_certs])) (py_bind v_content (fun a_16 => (py_bind (p2_attr_x self "delete_tmpfiles") (fun a_17 => (mk_temp a_16))))) (fun v_tmp =>
       (py_bindS (fun n_18 => (ExcS n_18 [v_cert; v_content; v_tmp; v_certs])) (p2_append v_certs v_tmp) (fun v_certs =>
       (NextS [v_cert; v_content; v_tmp; v_certs])))))))
       | BFalse => (py_bindS (fun n_21 => (ExcS n_21 [v_cert; v_content; v_tmp; v_certs])) (p2_append v_certs v_cert) (fun v_certs =>
       (NextS [v_cert; v_content; v_tmp; v_certs])))
       | BExc n_22 => (ExcS n_22 [v_cert; v_content; v_tmp; v_certs])
       | BErr => (RetS PErr)
       end)
       | PExc n_23 => (ExcS n_23 [v_cert; v_content; v_tmp; v_certs])
       | _ => (RetS PErr)
       end)
      | _ => RetS PErr end.

  Lemma select_loop only cs : forall acc j1 j2 j3,
    match pyfor2 (map enc_mdpair cs) [j1; j2; j3; PList (map enc_tmpfile acc)] (select_body (enc_sec only)) with
    | NextS [_; _; _; r] => Some r
    | _ => None
    end = Some (PList (map enc_tmpfile (acc ++ cs)%list)).
  Proof.
    induction cs as [|c r IH]; intros acc j1 j2 j3; [cbn [map pyfor2]; rewrite app_nil_r; reflexivity|].
    cbn [map pyfor2]. unfold select_body at 1. unfold enc_mdpair at 1. cbn [p2_unpack length Nat.eqb].
    cbn [p2_isinstance s1 py_bind kind_of existsb mem String.eqb Ascii.eqb Bool.eqb orb p2_branch py_truthy].
    rewrite pem_spec. cbn [py_bindS p2_bind py_bind].
    change (p2_attr_x (enc_sec only) "delete_tmpfiles") with (PBool true). cbn [py_bind].
    rewrite mk_temp_spec. cbn [py_bindS p2_bind p2_append s2 py_bind].
    change (PObj [("__class__", PStr "TempFile"); ("name", PStr (namef (pemf (cert_text c))))]) with (enc_tmpfile c).
    change [enc_tmpfile c] with (map enc_tmpfile [c]). rewrite <- map_app.
    rewrite IH. rewrite <- app_assoc. reflexivity.
  Qed.

  Lemma listcomp_embedded only l :
    listcomp_go (map (fun c => PStr (cert_text c)) l) ktrue
      (fun v_cert => py_bind (py_bind v_cert (fun a_5 => pem a_5))
                       (fun a_6 => py_bind (p2_attr_x (enc_sec only) "delete_tmpfiles") (fun a_7 => mk_temp a_6)))
    = PList (map enc_tmpfile l).
  Proof.
    induction l as [|c r IH]; [reflexivity|]. cbn [map listcomp_go ktrue p2_branch py_truthy py_bind].
    rewrite IH. rewrite pem_spec. cbn [py_bind]. change (p2_attr_x (enc_sec only) "delete_tmpfiles") with (PBool true).
    cbn [py_bind]. rewrite mk_temp_spec. reflexivity.
  Qed.

  (* the fallback and the MissingKey test, as a function of the certificates found in metadata *)
  Definition sel_k28 (self item v__issuer v_certs : pyval) : pyval :=
      (let k_8 := fun v_certs =>
       (match p2_branch (p2_not v_certs) with
       | BTrue => (py_bind v__issuer (fun _ =>
       (PExc "MissingKey")))
       | BFalse => v_certs
       | BExc n_2 => (PExc n_2)
       | BErr => PErr
       end) in
      (match p2_branch (p2_and (p2_not v_certs) (p2_not (p2_attr_x self "only_use_keys_in_metadata"))) with
      | BTrue => (py_bind (p2_listcomp (py_bind item (fun a_4 => (instance_certs a_4))) ktrue (fun v_cert => (py_bind (py_bind v_cert (fun a_5 => (pem a_5))) (fun a_6 => (py_bind (p2_attr_x self "delete_tmpfiles") (fun a_7 => (mk_temp a_6))))))) (fun v_certs =>
      (k_8 v_certs)))
      | BFalse => (k_8 v_certs)
      | BExc n_8 => (PExc n_8)
      | BErr => PErr
      end)).

  (* the loop over what metadata.certs answered, then the above *)
  Definition sel_k27 (self item v__issuer v__certs : pyval) : pyval :=
      (py_bind (p2_iter_check v__certs) (fun it_10 =>
      (match pyfor2 (py_iter2 it_10) [PErr; PErr; PErr; PList []] (select_body self) with
      | NextS st_11 => match st_11 with [v_cert; v_content; v_tmp; v_certs] => (sel_k28 self item v__issuer v_certs) | _ => PErr end
      | BrkS _ => PErr
      | RetS r_13 => r_13
      | ExcS n_14 st_11 => match st_11 with [v_cert; v_content; v_tmp; v_certs] => (PExc n_14) | _ => PErr end
      end))).

  Definition pick (only : bool) (emb cs : list cert) : list cert :=
    match cs with [] => if only then [] else emb | _ => cs end.

  Lemma sel_k27_run (x : input cert msg sig) iss cs :
    is_bad iss = false ->
    instance_certs (enc_signed_item x) = PList (map (fun c => PStr (cert_text c)) (embedded x)) ->
    sel_k27 (enc_sec (only_md x)) (enc_signed_item x) iss (PList (map enc_mdpair cs))
    = match pick (only_md x) (embedded x) cs with
      | [] => PExc "MissingKey"
      | cs' => PList (map enc_tmpfile cs')
      end.
  Proof.
    intros Hiss Hemb. unfold sel_k27. rewrite p2_iter_check_list. cbn [py_bind py_iter2].
    pose proof (select_loop (only_md x) cs [] PErr PErr PErr) as H. cbn [map app] in H.
    destruct (pyfor2 (map enc_mdpair cs) [PErr; PErr; PErr; PList []] (select_body (enc_sec (only_md x))))
      as [[|a [|b [|c [|d [|]]]]]|st|r|n st]; try discriminate H. injection H as ->.
    unfold sel_k28. cbv zeta.
    change (p2_attr_x (enc_sec (only_md x)) "only_use_keys_in_metadata") with (PBool (only_md x)).
    destruct cs as [|c0 r0]; cbn [map pick p2_not s1 py_bind py_truthy negb p2_and].
    - destruct (only_md x); cbn [negb p2_branch py_truthy].
      + rewrite (py_bind_good iss) by exact Hiss. reflexivity.
      + rewrite (py_bind_good (enc_signed_item x)) by reflexivity. rewrite Hemb, p2_listcomp_list, listcomp_embedded.
        destruct (embedded x) as [|c1 r1]; cbn [map py_bind p2_not s1 py_truthy negb p2_branch].
        * rewrite (py_bind_good iss) by exact Hiss. reflexivity.
        * reflexivity.
    - reflexivity.
  Qed.

  (* metadata first; the certificates embedded in the message only when metadata has none for the issuer AND
     only_use_keys_in_metadata is off; none at all: MissingKey *)
  Theorem src2_select_is_model : forall (x : input cert msg sig),
    detached x = false ->
    (forall e, claimed x = Some e -> strip e = e /\ end_ascii e = true) ->
    (forall e, md_certs (PStr e) = match lookup_md e (md x) with
                                  | None => PExc "KeyError"
                                  | Some _ => PList (map enc_mdpair (signing_certs blank (md x) (Some e)))
                                  end) ->
    md_certs PNone = PExc "KeyError" ->
    instance_certs (enc_signed_item x) = PList (map (fun c => PStr (cert_text c)) (embedded x)) ->
    src2_select md_certs pem mk_temp instance_certs (enc_sec (only_md x)) (enc_signed_item x) PNone
    = match candidates blank x with
      | [] => PExc "MissingKey"
      | cs => PList (map enc_tmpfile cs)
      end.
  Proof.
    intros x Hd Hiss Hmd Hnone Hemb. unfold src2_select. cbv zeta.
    unfold candidates, select. rewrite Hd. fold (pick (only_md x) (embedded x) (signing_certs blank (md x) (claimed x))).
    change (p2_attr_x (p2_attr_x (enc_signed_item x) "issuer") "text") with (p2_attr_x (enc_issuer (claimed x)) "text").
    destruct (claimed x) as [e|] eqn:Ec.
    - change (p2_attr_x (enc_issuer (Some e)) "text") with (PStr e).
      destruct (Hiss e eq_refl) as [Hst Hea].
      assert (Hstrip : p2_strip (PStr e) = PStr e).
      { unfold p2_strip. cbn [s1 py_bind]. rewrite Hst. unfold guard_ends. rewrite Hea. reflexivity. }
      rewrite Hstrip.
      cbn [py_bindh p2_bind p2_is_none s1 py_bind p2_branch py_truthy].
      change (p2_attr_x (enc_sec (only_md x)) "metadata") with (PObj [("__class__", PStr "MetadataStore"); ("loaded", PBool true)]).
      cbn [p2_branch py_truthy]. rewrite Hmd.
      match goal with |- py_bindh _ ?e0 _ = ?rhs =>
        change (py_bindh (fun n_27 => if exc_matches n_27 ["KeyError"]
                                      then sel_k27 (enc_sec (only_md x)) (enc_signed_item x) (PStr e) (PList [])
                                      else PExc n_27)
                         e0 (sel_k27 (enc_sec (only_md x)) (enc_signed_item x) (PStr e)) = rhs) end.
      unfold signing_certs. destruct (lookup_md e (md x)) as [roles|].
      + cbn [py_bindh p2_bind]. apply sel_k27_run; [reflexivity|exact Hemb].
      + cbn [py_bindh p2_bind exc_matches mem String.eqb Ascii.eqb Bool.eqb orb].
        apply (sel_k27_run x (PStr e) []); [reflexivity|exact Hemb].
    - cbn [enc_issuer]. rewrite !p2_attr_x_none.
      cbn [p2_strip s1 py_bind py_bindh p2_bind exc_matches mem String.eqb Ascii.eqb Bool.eqb orb p2_is_none p2_branch py_truthy].
      change (p2_attr_x (enc_sec (only_md x)) "metadata") with (PObj [("__class__", PStr "MetadataStore"); ("loaded", PBool true)]).
      cbn [p2_branch py_truthy]. rewrite Hnone.
      cbn [py_bindh p2_bind exc_matches mem String.eqb Ascii.eqb Bool.eqb orb].
      apply (sel_k27_run x PNone []); [reflexivity|exact Hemb].
  Qed.
End Select.

Example select_hyps_sat :
  let blank := fun _ : nat => false in
  let cert_text := fun c : nat => if Nat.eqb c 1 then "one" else "other" in
  let pemf := fun t => "PEM:" ++ t in
  let namef := fun p => "/tmp/" ++ p in
  let mdx : metadata nat := [("idp", [[(Some Signing, 1); (Some Encryption, 3)]])] in
  let x e only := Build_input mdx only (Some e) [6] false 7 7 in
  let md_certs := fun v => match v with
                           | PStr e => if String.eqb e "idp" then PList [enc_mdpair nat cert_text 1] else PExc "KeyError"
                           | _ => PExc "KeyError" end in
  let pem := fun v => match v with PStr t => PStr (pemf t) | _ => PErr end in
  let mk_temp := fun v => match v with
                          | PStr p => PObj [("__class__", PStr "TempFile"); ("name", PStr (namef p))] | _ => PErr end in
  let instance_certs := fun _ : pyval => PList [PStr (cert_text 6)] in
  (forall t, pem (PStr t) = PStr (pemf t))
  /\ (forall e, md_certs (PStr e) = match lookup_md e mdx with
                                   | None => PExc "KeyError"
                                   | Some _ => PList (map (enc_mdpair nat cert_text) (signing_certs blank mdx (Some e)))
                                   end)
  /\ src2_select md_certs pem mk_temp instance_certs (enc_sec true) (enc_signed_item nat nat nat (x "idp" true)) PNone
     = PList [enc_tmpfile nat cert_text pemf namef 1]
  /\ src2_select md_certs pem mk_temp instance_certs (enc_sec false) (enc_signed_item nat nat nat (x "nobody" false)) PNone
     = PList [enc_tmpfile nat cert_text pemf namef 6]
  /\ src2_select md_certs pem mk_temp instance_certs (enc_sec true) (enc_signed_item nat nat nat (x "nobody" true)) PNone
     = PExc "MissingKey".
Proof.
  cbv zeta. split; [reflexivity|]. split; [|repeat split; vm_compute; reflexivity].
  intros e. cbn [lookup_md signing_certs]. destruct (String.eqb e "idp"); reflexivity.
Qed.

(* ================================================================== MetaData.certs.extract_certs *)
(* what a KeyDescriptor carries, as the parsed metadata (to_dict) shows it *)
Inductive kshape :=
| KText (t : string)      (* ds:X509Data / ds:X509Certificate with this text *)
| KTextNone               (* ds:X509Certificate without text *)
| KNoCert                 (* ds:X509Data with other children only *)
| KNoData                 (* a ds:KeyInfo without ds:X509Data (ds:KeyName only) *)
| KNoKeyInfo.             (* no ds:KeyInfo *)
Record kcert := { kname : option string; kshape_of : kshape }.

Definition kblank (c : kcert) : bool :=
  match kshape_of c with KText t => is_empty t || is_empty (strip t) | _ => true end.
Definition ktext (c : kcert) : string := match kshape_of c with KText t => t | _ => "" end.
Definition kd_ok (kd : keydesc kcert) : bool :=
  match kshape_of (snd kd) with KText t => end_ascii (strip t) | _ => true end.

Definition enc_ostr (o : option string) : pyval := match o with Some s => PStr s | None => PNone end.

Definition use_field (u : option use) : list (string * pyval) :=
  match u with
  | None => []
  | Some Signing => [("use", PStr "signing")]
  | Some Encryption => [("use", PStr "encryption")]
  end.
Definition name_field (o : option string) : list (string * pyval) :=
  match o with Some n => [("key_name", PList [PObj [("text", PStr n)]])] | None => [] end.
Definition data_field (sh : kshape) : list (string * pyval) :=
  match sh with
  | KText t => [("x509_data", PList [PObj [("x509_certificate", PObj [("text", PStr t)])]])]
  | KTextNone => [("x509_data", PList [PObj [("x509_certificate", PObj [("text", PNone)])]])]
  | KNoCert => [("x509_data", PList [PObj [("x509_subject_name", PObj [("text", PStr "CN=x")])]])]
  | _ => []
  end.
Definition keyinfo_field (c : kcert) : list (string * pyval) :=
  match kshape_of c with
  | KNoKeyInfo => []
  | sh => [("key_info", PObj (name_field (kname c) ++ data_field sh)%list)]
  end.
Definition enc_kd (kd : keydesc kcert) : pyval := PObj (use_field (fst kd) ++ keyinfo_field (snd kd))%list.
Definition enc_role (r : list (keydesc kcert)) : pyval := PObj [("key_descriptor", PList (map enc_kd r))].

Section ExtractCerts.
  Variable rp : string -> string.
  Variable repack : pyval -> pyval.                      (* repack_cert *)
  Hypothesis repack_spec : forall t, repack (PStr t) = PStr (rp t).

  (* (key name, certificate) as certs() hands them out *)
  Definition enc_out (c : kcert) : pyval := PList [enc_ostr (kname c); PStr (rp (ktext c))].

  Definition ec_mid_body (v_use : pyval) : list pyval -> pyval -> ctl2 :=
    (fun st_8 x_9 => match st_8 with [v_key_use; v_key_info; v_key_name; v_key_name_txt; v_text; v_cert; v_res] =>
     (let v_key := x_9 in
     (py_bindS (fun n_29 => (ExcS n_29 [v_key_use; v_key_info; v_key_name; v_key_name_txt; v_text; v_cert; v_res])) (p2_get v_key (PStr "use")) (fun v_key_use =>
     (py_bindS (fun n_28 => (ExcS n_28 [v_key_use; v_key_info; v_key_name; v_key_name_txt; v_text; v_cert; v_res])) (p2_or (p2_get v_key (PStr "key_info")) (PObj [])) (fun v_key_info =>
     (py_bindS (fun n_27 => (ExcS n_27 [v_key_use; v_key_info; v_key_name; v_key_name_txt; v_text; v_cert; v_res])) (p2_getitem (p2_or (p2_get v_key_info (PStr "key_name")) (p2_mklist [(p2_mkdict [("text", PNone)])])) (PInt (0)%Z)) (fun v_key_name =>
     (py_bindS (fun n_26 => (ExcS n_26 [v_key_use; v_key_info; v_key_name; v_key_name_txt; v_text; v_cert; v_res])) (p2_get v_key_name (PStr "text")) (fun v_key_name_txt =>
     (match p2_branch (p2_or (p2_not_in (PStr "use") v_key) (p2_eq v_key_use v_use)) with
     | BTrue => (py_bindS (fun n_24 => (ExcS n_24 [v_key_use; v_key_info; v_key_name; v_key_name_txt; v_text; v_cert; v_res])) (p2_iter_check (p2_or (p2_get v_key_info (PStr "x509_data")) (PList []))) (fun it_12 =>
     (match pyfor2 (py_iter2 it_12) [v_text; v_cert; v_res] (fun st_13 x_14 => match st_13 with [v_text; v_cert; v_res] =>
      (let v_dat := x_14 in
      (py_bindS (fun n_23 => (ExcS n_23 [v_text; v_cert; v_res])) (p2_get (p2_or (p2_get v_dat (PStr "x509_certificate")) (PObj [])) (PStr "text")) (fun v_text =>
      (match p2_branch (p2_or (p2_not v_text) (p2_not (p2_strip v_text))) with
      | BTrue => (NextS [v_text; v_cert; v_res])
      | BFalse => (py_bindS (fun n_20 => (ExcS n_20 [v_text; v_cert; v_res])) (py_bind v_text (fun a_17 => (repack a_17))) (fun v_cert =>
      (match p2_branch (p2_not_in v_cert v_res) with
      | BTrue => (py_bindS (fun n_18 => (ExcS n_18 [v_text; v_cert; v_res])) (p2_append v_res (p2_mklist [v_key_name_txt; v_cert])) (fun v_res =>
      (NextS [v_text; v_cert; v_res])))
      | BFalse => (NextS [v_text; v_cert; v_res])
      | BExc n_19 => (ExcS n_19 [v_text; v_cert; v_res])
      | BErr => (RetS PErr)
      end)))
      | BExc n_22 => (ExcS n_22 [v_text; v_cert; v_res])
      | BErr => (RetS PErr)
      end))))
     | _ => RetS PErr end) with
     | NextS st_13 => match st_13 with [v_text; v_cert; v_res] => (NextS [v_key_use; v_key_info; v_key_name; v_key_name_txt; v_text; v_cert; v_res]) | _ => (RetS PErr) end
     | BrkS _ => (RetS PErr)
     | RetS r_15 => (RetS r_15)
     | ExcS n_16 st_13 => match st_13 with [v_text; v_cert; v_res] => (ExcS n_16 [v_key_use; v_key_info; v_key_name; v_key_name_txt; v_text; v_cert; v_res]) | _ => (RetS PErr) end
     end)))
     | BFalse => (NextS [v_key_use; v_key_info; v_key_name; v_key_name_txt; v_text; v_cert; v_res])
     | BExc n_25 => (ExcS n_25 [v_key_use; v_key_info; v_key_name; v_key_name_txt; v_text; v_cert; v_res])
     | BErr => (RetS PErr)
     end))))))))))
    | _ => RetS PErr end).

  Definition ec_outer_body (v_use : pyval) : list pyval -> pyval -> ctl2 :=
    (fun st_3 x_4 => match st_3 with [v_key_use; v_key_info; v_key_name; v_key_name_txt; v_text; v_cert; v_res] =>
    (let v_srv := x_4 in
    (py_bindS (fun n_30 => (ExcS n_30 [v_key_use; v_key_info; v_key_name; v_key_name_txt; v_text; v_cert; v_res])) (p2_iter_check (p2_get3 v_srv (PStr "key_descriptor") (PList []))) (fun it_7 =>
    (match pyfor2 (py_iter2 it_7) [v_key_use; v_key_info; v_key_name; v_key_name_txt; v_text; v_cert; v_res] (ec_mid_body v_use) with
    | NextS st_8 => match st_8 with [v_key_use; v_key_info; v_key_name; v_key_name_txt; v_text; v_cert; v_res] => (NextS [v_key_use; v_key_info; v_key_name; v_key_name_txt; v_text; v_cert; v_res]) | _ => (RetS PErr) end
    | BrkS _ => (RetS PErr)
    | RetS r_10 => (RetS r_10)
    | ExcS n_11 st_8 => match st_8 with [v_key_use; v_key_info; v_key_name; v_key_name_txt; v_text; v_cert; v_res] => (ExcS n_11 [v_key_use; v_key_info; v_key_name; v_key_name_txt; v_text; v_cert; v_res]) | _ => (RetS PErr) end
    end))))
   | _ => RetS PErr end).

  Lemma not_in_res t acc : p2_not_in (PStr t) (PList (map enc_out acc)) = PBool true.
  Proof.
    unfold p2_not_in, p2_in. rewrite s2_good by reflexivity.
    assert (H : list_has (PStr t) (map enc_out acc) = Some false).
    { induction acc as [|c r IH]; [reflexivity|]. cbn [map list_has]. unfold enc_out at 1.
      cbn [pv_eq cmp_ok is_bad is_object negb andb]. exact IH. }
    rewrite H. reflexivity.
  Qed.

  Definition res7 (c : ctl2) : option pyval :=
    match c with NextS [_; _; _; _; _; _; r] => Some r | _ => None end.

  (* one KeyDescriptor *)
  Lemma ec_mid_step kd acc a b c d e f :
    kd_ok kd = true ->
    res7 (ec_mid_body (PStr "signing") [a; b; c; d; e; f; PList (map enc_out acc)] (enc_kd kd))
    = Some (PList (map enc_out (acc ++ extract_signing kblank [kd])%list)).
  Proof.
    destruct kd as [u [n sh]]. unfold kd_ok, extract_signing, kblank. cbn [fst snd kshape_of flat_map app kname].
    intros Hok. rewrite app_nil_r.
    destruct sh as [t| | | |].
    2-5: (cbn [app]; rewrite app_nil_r; destruct u as [[|]|], n as [n|]; reflexivity).
    destruct u as [[|]|].
    2: (destruct (is_empty t || is_empty (strip t)); rewrite app_nil_r; destruct n; reflexivity).
    all: destruct n as [n|].
    all: unfold ec_mid_body, enc_kd;
      cbn -[strip is_empty end_ascii map enc_out p2_strip p2_not_in p2_append p2_mklist];
      match goal with |- context [p2_not_in (PStr "use") ?d] =>
        let v := eval vm_compute in (p2_not_in (PStr "use") d) in change (p2_not_in (PStr "use") d) with v end;
      cbn [p2_or py_truthy p2_branch];
      (destruct (is_empty t) eqn:E1; cbn [negb orb p2_branch py_truthy];
       [rewrite app_nil_r; reflexivity|]);
      unfold p2_strip; cbn [s1 py_bind]; unfold guard_ends; rewrite Hok; cbn [p2_not s1 py_bind py_truthy];
      (destruct (is_empty (strip t)) eqn:E2; cbn [negb p2_branch py_truthy];
       [rewrite app_nil_r; reflexivity|]);
      rewrite repack_spec; cbn [py_bindS p2_bind]; rewrite not_in_res; cbn [p2_branch py_truthy];
      cbn [p2_mklist first_bad p2_append s2 py_bind py_bindS p2_bind res7];
      rewrite map_app; reflexivity.
  Qed.

  Lemma extract_signing_cons kd (r : list (keydesc kcert)) :
    extract_signing kblank (kd :: r) = (extract_signing kblank [kd] ++ extract_signing kblank r)%list.
  Proof. unfold extract_signing. cbn [flat_map]. rewrite app_nil_r. reflexivity. Qed.

  (* the KeyDescriptors of one role descriptor *)
  Lemma ec_mid_loop r : forall acc a b c d e f,
    forallb kd_ok r = true ->
    res7 (pyfor2 (map enc_kd r) [a; b; c; d; e; f; PList (map enc_out acc)] (ec_mid_body (PStr "signing")))
    = Some (PList (map enc_out (acc ++ extract_signing kblank r)%list)).
  Proof.
    induction r as [|kd r IH]; intros acc a b c d e f Hok.
    - cbn [map pyfor2 res7]. unfold extract_signing. cbn [flat_map]. rewrite app_nil_r. reflexivity.
    - cbn [forallb] in Hok. apply andb_true_iff in Hok as [Hk Hr].
      rewrite extract_signing_cons, app_assoc.
      cbn [map pyfor2]. pose proof (ec_mid_step kd acc a b c d e f Hk) as H.
      destruct (ec_mid_body (PStr "signing") [a; b; c; d; e; f; PList (map enc_out acc)] (enc_kd kd))
        as [[|a' [|b' [|c' [|d' [|e' [|f' [|g' [|]]]]]]]]|st|v|n st]; try discriminate H.
      cbn [res7] in H. injection H as ->. apply IH. exact Hr.
  Qed.

  (* one role descriptor *)
  Lemma ec_outer_step r acc a b c d e f :
    forallb kd_ok r = true ->
    res7 (ec_outer_body (PStr "signing") [a; b; c; d; e; f; PList (map enc_out acc)] (enc_role r))
    = Some (PList (map enc_out (acc ++ extract_signing kblank r)%list)).
  Proof.
    intros Hok. unfold ec_outer_body. cbv zeta.
    change (p2_get3 (enc_role r) (PStr "key_descriptor") (PList [])) with (PList (map enc_kd r)).
    rewrite p2_iter_check_list. cbn [py_bindS p2_bind py_iter2].
    pose proof (ec_mid_loop r acc a b c d e f Hok) as H.
    destruct (pyfor2 (map enc_kd r) [a; b; c; d; e; f; PList (map enc_out acc)] (ec_mid_body (PStr "signing")))
      as [[|a' [|b' [|c' [|d' [|e' [|f' [|g' [|]]]]]]]]|st|v|n st]; try discriminate H.
    cbn [res7] in H. injection H as ->. reflexivity.
  Qed.

  Lemma ec_outer_loop roles : forall acc a b c d e f,
    forallb (forallb kd_ok) roles = true ->
    res7 (pyfor2 (map enc_role roles) [a; b; c; d; e; f; PList (map enc_out acc)] (ec_outer_body (PStr "signing")))
    = Some (PList (map enc_out (acc ++ flat_map (extract_signing kblank) roles)%list)).
  Proof.
    induction roles as [|r roles IH]; intros acc a b c d e f Hok.
    - cbn [map pyfor2 res7 flat_map]. rewrite app_nil_r. reflexivity.
    - cbn [forallb] in Hok. apply andb_true_iff in Hok as [Hk Hr].
      cbn [map pyfor2 flat_map]. rewrite app_assoc. pose proof (ec_outer_step r acc a b c d e f Hk) as H.
      destruct (ec_outer_body (PStr "signing") [a; b; c; d; e; f; PList (map enc_out acc)] (enc_role r))
        as [[|a' [|b' [|c' [|d' [|e' [|f' [|g' [|]]]]]]]]|st|v|n st]; try discriminate H.
      cbn [res7] in H. injection H as ->. apply IH. exact Hr.
  Qed.

  (* certs(entity, .., "signing") takes, from every role descriptor handed to it, the certificate of every
     KeyDescriptor whose use is absent or "signing" and that carries certificate text -- nothing else *)
  Theorem src2_extract_certs_is_model : forall roles : list (list (keydesc kcert)),
    forallb (forallb kd_ok) roles = true ->
    src2_extract_certs repack (PStr "signing") (PList (map enc_role roles))
    = PList (map enc_out (flat_map (extract_signing kblank) roles)).
  Proof.
    intros roles Hok. unfold src2_extract_certs. cbv zeta. rewrite p2_iter_check_list. cbn [py_bind py_iter2].
    match goal with |- context [pyfor2 ?l ?st ?b] => change b with (ec_outer_body (PStr "signing")) end.
    pose proof (ec_outer_loop roles [] PErr PErr PErr PErr PErr PErr Hok) as H. cbn [map app] in H.
    destruct (pyfor2 (map enc_role roles) [PErr; PErr; PErr; PErr; PErr; PErr; PList []] (ec_outer_body (PStr "signing")))
      as [[|a' [|b' [|c' [|d' [|e' [|f' [|g' [|]]]]]]]]|st|v|n st]; try discriminate H.
    cbn [res7] in H. injection H as ->. reflexivity.
  Qed.
End ExtractCerts.

Example extract_certs_hyps_sat :
  let rp := fun t => strip t in
  let repack := fun v => match v with PStr t => PStr (rp t) | _ => PErr end in
  let k n sh := Build_kcert n sh in
  let roles : list (list (keydesc kcert)) :=
    [[(Some Signing, k None (KText " AAA ")); (Some Encryption, k None (KText "BBB")); (None, k (Some "k2") (KText "CCC"));
      (Some Signing, k None (KText "  ")); (Some Signing, k (Some "named") KNoData); (None, k None KNoCert)];
     [(Some Signing, k None KTextNone); (Some Signing, k None KNoKeyInfo); (Some Signing, k None (KText "DDD"))]] in
  (forall t, repack (PStr t) = PStr (rp t))
  /\ forallb (forallb kd_ok) roles = true
  /\ src2_extract_certs repack (PStr "signing") (PList (map enc_role roles))
     = PList [PList [PNone; PStr "AAA"]; PList [PStr "k2"; PStr "CCC"]; PList [PNone; PStr "DDD"]].
Proof. cbv zeta. repeat split; vm_compute; reflexivity. Qed.

(* ================================================================== MetaData.certs, the walk over the role descriptors *)
Fixpoint lookup {A : Type} (k : string) (l : list (string * A)) : option A :=
  match l with
  | [] => None
  | (k', v) :: r => if String.eqb k k' then Some v else lookup k r
  end.

Lemma assoc_py_map {A : Type} (g : A -> pyval) k (l : list (string * A)) :
  assoc_py k (map (fun kv => (fst kv, g (snd kv))) l) = option_map g (lookup k l).
Proof.
  induction l as [|[k' v] r IH]; [reflexivity|]. cbn [map fst snd assoc_py lookup].
  destruct (String.eqb k k'); [reflexivity|exact IH].
Qed.

Lemma lookup_md_map {A cert : Type} (w : A -> entity_md cert) e (l : list (string * A)) :
  lookup_md e (map (fun kv => (fst kv, w (snd kv))) l) = option_map w (lookup e l).
Proof.
  induction l as [|[k' v] r IH]; [reflexivity|]. cbn [map fst snd lookup_md lookup].
  destruct (String.eqb e k'); [reflexivity|exact IH].
Qed.

Definition keys_ok {A : Type} (l : list (string * A)) : bool :=
  forallb (fun kv => negb (String.eqb (fst kv) "__class__")) l.

Lemma is_obj_map {A : Type} (g : A -> pyval) (l : list (string * A)) :
  keys_ok l = true -> is_obj (map (fun kv => (fst kv, g (snd kv))) l) = false.
Proof.
  destruct l as [|[k v] r]; [reflexivity|]. cbn [keys_ok forallb fst map snd is_obj].
  intros H. apply andb_true_iff in H as [H _]. apply negb_true_iff in H. exact H.
Qed.

(* an entity as the parsed metadata shows it: descriptor key ("idpsso_descriptor", ...) -> its role descriptors *)
Definition edict := list (string * list (list (keydesc kcert))).
Definition roles_at (key : string) (x : edict) : list (list (keydesc kcert)) :=
  match lookup key x with Some rs => rs | None => [] end.
Definition SIX : list string := ["spsso"; "idpsso"; "role"; "authn_authority"; "attribute_authority"; "pdp"].
(* the role descriptors in the order certs() walks them: this is Model.entity_md *)
Definition walk (x : edict) : entity_md kcert := flat_map (fun k => roles_at (k ++ "_descriptor") x) SIX.
Definition to_model (mdx : list (string * edict)) : metadata kcert := map (fun ex => (fst ex, walk (snd ex))) mdx.
Definition enc_roles (rs : list (list (keydesc kcert))) : pyval := PList (map enc_role rs).
Definition enc_entity (x : edict) : pyval := PObj (map (fun kr => (fst kr, enc_roles (snd kr))) x).
Definition enc_md (mdx : list (string * edict)) : pyval := PObj (map (fun ex => (fst ex, enc_entity (snd ex))) mdx).
Definition edict_ok (x : edict) : bool :=
  keys_ok x && forallb (fun kr => forallb (forallb kd_ok) (snd kr)) x.

Section CertsOuter.
  Variable rp : string -> string.
  Variable repack : pyval -> pyval.
  Hypothesis repack_spec : forall t, repack (PStr t) = PStr (rp t).

  Definition co_body (v_ent v_use : pyval) : list pyval -> pyval -> ctl2 :=
    (fun st_3 x_4 => match st_3 with [v_srvs; v_res] =>
    (let v_descr := x_4 in
    (py_bindS (fun n_11 => (if exc_matches n_11 ["KeyError"]
    then (NextS [v_srvs; v_res])
    else (ExcS n_11 [v_srvs; v_res]))) (p2_getitem v_ent (p2_fconcat [p2_str v_descr; PStr "_descriptor"])) (fun v_srvs =>
    (py_bindS (fun n_8 => (ExcS n_8 [v_srvs; v_res])) (p2_extend v_res (py_bind v_srvs (fun a_7 => (src2_extract_certs repack v_use a_7)))) (fun v_res =>
    (NextS [v_srvs; v_res]))))))
   | _ => RetS PErr end).

  Definition res2 (c : ctl2) : option pyval := match c with NextS [_; r] => Some r | _ => None end.

  Lemma roles_at_ok key x : edict_ok x = true -> forallb (forallb kd_ok) (roles_at key x) = true.
  Proof.
    unfold edict_ok, roles_at. intros H. apply andb_true_iff in H as [_ H].
    induction x as [|[k rs] r IH]; [reflexivity|]. cbn [lookup]. cbn [forallb snd] in H.
    apply andb_true_iff in H as [H1 H2]. destruct (String.eqb key k); [exact H1|exact (IH H2)].
  Qed.

  Lemma co_step x k acc j :
    edict_ok x = true ->
    res2 (co_body (enc_entity x) (PStr "signing") [j; PList (map (enc_out rp) acc)] (PStr k))
    = Some (PList (map (enc_out rp) (acc ++ flat_map (extract_signing kblank) (roles_at (k ++ "_descriptor") x))%list)).
  Proof.
    intros Hx. unfold co_body. cbv zeta. rewrite p2_str_str. cbn [p2_fconcat append].
    pose proof Hx as Hk. unfold edict_ok in Hk. apply andb_true_iff in Hk as [Hk _].
    unfold enc_entity. rewrite p2_getitem_dict by (apply is_obj_map; exact Hk). rewrite assoc_py_map.
    unfold roles_at. destruct (lookup (k ++ "_descriptor") x) as [rs|] eqn:L; cbn [option_map].
    - unfold enc_roles at 1. cbn [py_bindS p2_bind py_bind].
      rewrite (src2_extract_certs_is_model rp repack repack_spec rs).
      + cbn [p2_extend s2 py_bind p2_iterable py_iter2 py_bindS p2_bind res2]. rewrite <- map_app. reflexivity.
      + pose proof (roles_at_ok (k ++ "_descriptor") x Hx) as H. unfold roles_at in H. rewrite L in H. exact H.
    - cbn [py_bindS p2_bind exc_matches mem String.eqb Ascii.eqb Bool.eqb orb res2 flat_map]. rewrite app_nil_r. reflexivity.
  Qed.

  Lemma co_loop x ks : forall acc j,
    edict_ok x = true ->
    res2 (pyfor2 (map PStr ks) [j; PList (map (enc_out rp) acc)] (co_body (enc_entity x) (PStr "signing")))
    = Some (PList (map (enc_out rp)
                     (acc ++ flat_map (extract_signing kblank) (flat_map (fun k => roles_at (k ++ "_descriptor") x) ks))%list)).
  Proof.
    induction ks as [|k ks IH]; intros acc j Hx.
    - cbn [map pyfor2 res2 flat_map]. rewrite app_nil_r. reflexivity.
    - cbn [map pyfor2 flat_map]. rewrite flat_map_app, app_assoc. pose proof (co_step x k acc j Hx) as H.
      destruct (co_body (enc_entity x) (PStr "signing") [j; PList (map (enc_out rp) acc)] (PStr k))
        as [[|a' [|b' [|]]]|st|v|n st]; try discriminate H.
      cbn [res2] in H. injection H as ->. apply IH. exact Hx.
  Qed.

  (* certs(entity_id, "any", "signing"): the entity is looked up under the entityID (unknown: KeyError), its role
     descriptors are walked in the fixed order spsso, idpsso, role, authn_authority, attribute_authority, pdp *)
  Theorem src2_certs_outer_is_model : forall (mdx : list (string * edict)) e,
    keys_ok mdx = true ->
    forallb (fun ex => edict_ok (snd ex)) mdx = true ->
    src2_certs_outer repack (enc_md mdx) (PStr e) (PStr "any") (PStr "signing")
    = match lookup_md e (to_model mdx) with
      | None => PExc "KeyError"
      | Some _ => PList (map (enc_out rp) (signing_certs kblank (to_model mdx) (Some e)))
      end.
  Proof.
    intros mdx e Hk Hx. unfold src2_certs_outer. cbv zeta. unfold signing_certs, to_model.
    rewrite lookup_md_map. unfold enc_md. rewrite p2_getitem_dict by (apply is_obj_map; exact Hk).
    rewrite assoc_py_map. destruct (lookup e mdx) as [x|] eqn:L; cbn [option_map]; [|reflexivity].
    assert (Hxe : edict_ok x = true).
    { clear - L Hx. induction mdx as [|[k y] r IH]; [discriminate|]. cbn [lookup] in L. cbn [forallb snd] in Hx.
      apply andb_true_iff in Hx as [H1 H2]. destruct (String.eqb e k); [injection L as <-; exact H1|exact (IH H2 L)]. }
    cbn [py_bind p2_eq s2 pv_eq cmp_ok is_bad is_object negb andb String.eqb Ascii.eqb Bool.eqb p2_branch py_truthy].
    cbn [p2_mklist first_bad]. rewrite p2_iter_check_list. cbn [py_bind py_iter2].
    rewrite (py_bind_good (enc_entity x)) by reflexivity.
    match goal with |- context [pyfor2 ?l ?st ?b] => change b with (co_body (enc_entity x) (PStr "signing")) end.
    pose proof (co_loop x SIX [] PErr Hxe) as H. cbn [map app] in H. unfold SIX in H at 1. cbn [map] in H.
    destruct (pyfor2 _ [PErr; PList []] (co_body (enc_entity x) (PStr "signing")))
      as [[|a' [|b' [|]]]|st|v|n st]; try discriminate H.
    cbn [res2] in H. injection H as ->. reflexivity.
  Qed.
End CertsOuter.

Example certs_outer_hyps_sat :
  let rp := fun t => strip t in
  let repack := fun v => match v with PStr t => PStr (rp t) | _ => PErr end in
  let k sh := Build_kcert None sh in
  let mdx : list (string * edict) :=
    [("idp", [("idpsso_descriptor", [[(Some Signing, k (KText "AAA")); (Some Encryption, k (KText "EEE"))]]);
              ("attribute_authority_descriptor", [[(None, k (KText "BBB"))]]);
              ("spsso_descriptor", [[(Some Signing, k (KText "CCC"))]; [(Some Signing, k KNoData)]])])] in
  (forall t, repack (PStr t) = PStr (rp t))
  /\ keys_ok mdx = true /\ forallb (fun ex => edict_ok (snd ex)) mdx = true
  /\ src2_certs_outer repack (enc_md mdx) (PStr "idp") (PStr "any") (PStr "signing")
     = PList [PList [PNone; PStr "CCC"]; PList [PNone; PStr "AAA"]; PList [PNone; PStr "BBB"]]
  /\ src2_certs_outer repack (enc_md mdx) (PStr "nobody") (PStr "any") (PStr "signing") = PExc "KeyError"
  /\ signing_certs kblank (to_model mdx) (Some "idp") = [k (KText "CCC"); k (KText "AAA"); k (KText "BBB")].
Proof. cbv zeta. repeat split; vm_compute; reflexivity. Qed.


(* ================================================================== CryptoBackendXmlSec1.validate_signature: the command line *)
(* reading a command line the way the binary does: is --enabled-key-data there, and is its value exactly
   raw-x509-cert (argv[0] is the program) *)
Fixpoint argv_confined (l : list pyval) : bool :=
  match l with
  | PStr o :: ((PStr v :: _) as r) => if String.eqb o "--enabled-key-data" then String.eqb v "raw-x509-cert" else argv_confined r
  | _ :: r => argv_confined r
  | [] => false
  end.
Definition cmd_confined (l : list pyval) : bool := argv_confined (tl l).

(* the backend object: its class, the path of the binary, anything else (the version it reports included) *)
Definition enc_backend (bin : string) (rest : list (string * pyval)) : pyval :=
  PObj (("__class__", PStr "CryptoBackendXmlSec1") :: ("xmlsec", PStr bin) :: rest).

Definition verify_argv (bin cf ct nn : string) (nid : option string) : list pyval :=
  [PStr bin; PStr "--verify"; PStr "--enabled-reference-uris"; PStr "empty,same-doc"; PStr "--enabled-key-data";
   PStr "raw-x509-cert"; PStr ("--pubkey-cert-" ++ ct); PStr cf; PStr "--id-attr:ID"; PStr nn]
  ++ match nid with Some i => if String.eqb i "" then [] else [PStr "--node-id"; PStr i] | None => [] end.

Lemma str_app_empty (s : string) : (s ++ "")%string = s.
Proof. induction s as [|a s IH]; cbn; [reflexivity|rewrite IH; reflexivity]. Qed.

(* for every backend object -- whatever else it holds, so whatever version the binary reports --, certificate
   file, certificate type, node name and node id (absent, empty or not) *)
Lemma src2_verify_cmdline_is_model (bin cf ct nn : string) (nid : option string) (rest : list (string * pyval)) (tmp : pyval) :
  src2_verify_cmdline (enc_backend bin rest) (PStr cf) (PStr ct) (PStr nn)
    (match nid with Some i => PStr i | None => PNone end) tmp
  = PList (verify_argv bin cf ct nn nid).
Proof.
  unfold src2_verify_cmdline, enc_backend, verify_argv.
  destruct nid as [[|a i]|]; cbn; rewrite str_app_empty; reflexivity.
Qed.

Lemma verify_argv_confined bin cf ct nn nid (v : version) :
  cmd_confined (verify_argv bin cf ct nn nid) = key_data_confined (verify_cmdline v).
Proof. reflexivity. Qed.

Lemma src2_verify_cmdline_confined (bin cf ct nn : string) (nid : option string) (rest : list (string * pyval)) (tmp : pyval)
  (v : version) :
  src2_verify_cmdline (enc_backend bin rest) (PStr cf) (PStr ct) (PStr nn)
    (match nid with Some i => PStr i | None => PNone end) tmp
  = PList (verify_argv bin cf ct nn nid)
  /\ cmd_confined (verify_argv bin cf ct nn nid) = key_data_confined (verify_cmdline v).
Proof. split; [apply src2_verify_cmdline_is_model|apply verify_argv_confined]. Qed.

(* the reader is not trivially true: without the option, or with a longer list, a command line is not confined *)
Example cmd_confined_reads :
  cmd_confined [PStr "xmlsec1"; PStr "--verify"; PStr "--pubkey-cert-pem"; PStr "f"] = false
  /\ cmd_confined [PStr "xmlsec1"; PStr "--verify"; PStr "--enabled-key-data"; PStr "raw-x509-cert,rsa"; PStr "f"] = false
  /\ cmd_confined [PStr "xmlsec1"; PStr "--verify"; PStr "--enabled-key-data"; PStr "raw-x509-cert"; PStr "f"] = true.
Proof. vm_compute. repeat split; reflexivity. Qed.
