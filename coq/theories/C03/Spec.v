(* C03/Spec.v — only keys that trusted metadata binds to the claimed issuer validate a signature. *)
From Coq Require Import String List Bool.
From Verif Require Import Base.Str C03.Model.
Import ListNotations.

(* ---- the verifier itself.  One run of xmlsec1 --verify as it can be observed: the version the binary reports, is
   the command line confined to the certificate file it names (no key material of the message is enabled), does it
   carry --lax-key-search.  "A key carried inside the message never suffices": whatever the version, every run is
   confined -- otherwise the binary takes the key from the ds:KeyInfo of the message (a bare RSAKeyValue as it
   stands) and the certificate selection above decides nothing. ---- *)
Definition call := (version * bool * bool)%type.

Definition confined_calls (calls : list call) : Prop :=
  forall v c l, In (v, c, l) calls -> c = true.

Section Spec.
  Variables key cert msg sig : Type.
  Variable cert_of : key -> cert.
  Variable sign : key -> msg -> sig.
  (* the KeyDescriptor carries no certificate text *)
  Variable blank : cert -> bool.

  (* c is a key that entity e publishes for signing or with no declared use (stated from the metadata
     structure, not through the model's certs function); a KeyDescriptor that carries no certificate text
     -- a KeyName only, an X509Data without X509Certificate -- names a key but holds none *)
  Definition published_for_signing (md : metadata cert) (e : string) (c : cert) : Prop :=
    exists roles role u, lookup_md e md = Some roles /\ In role roles /\ In (u, c) role /\ u <> Some Encryption
                         /\ blank c = false.

  Definition no_signing_key (md : metadata cert) (issuer : option string) : Prop :=
    forall e c, issuer = Some e -> ~ published_for_signing md e c.

  (* the signature as received was made by key k over exactly the received octets *)
  Definition made_by (x : input cert msg sig) (k : key) : Prop := s x = sign k (m x).

  (* soundness: acceptance needs a metadata-bound key, the embedded certificate only as the
     explicit opt-in fallback; and the verifier is only ever handed such certificates *)
  Definition trusted_for (x : input cert msg sig) (c : cert) : Prop :=
    (exists e, claimed x = Some e /\ published_for_signing (md x) e c)
    \/ (only_md x = false /\ detached x = false /\ no_signing_key (md x) (claimed x) /\ In c (embedded x)).

  Definition sound (x : input cert msg sig) (out : bool * list cert) : Prop :=
    (forall c, In c (snd out) -> trusted_for x c)
    /\ (fst out = true -> exists k, made_by x k)
    /\ (fst out = true -> forall k, made_by x k -> trusted_for x (cert_of k)).

  (* completeness: a signature made with a key published for signing under the claimed issuer is accepted *)
  Definition complete (x : input cert msg sig) (out : bool * list cert) : Prop :=
    forall k e, made_by x k -> claimed x = Some e -> published_for_signing (md x) e (cert_of k) -> fst out = true.

  Definition spec (x : input cert msg sig) (out : bool * list cert) : Prop := sound x out /\ complete x out.

  (* ---- a message with several signed elements (a signed Response around a signed Assertion): the message
     is accepted only if EVERY signature it carries was made by a key trusted for the issuer named in the
     element it signs -- one good signature never covers for another --, and per element the verifier is only
     ever handed certificates trusted for that element.  Completeness: when all signed elements name one issuer
     and each signature was made by a key that issuer publishes for signing, the message is accepted. ---- *)
  Definition msg_sound (xs : list (input cert msg sig)) (out : mout cert) : Prop :=
    Forall2 (fun x h => forall c, In c h -> trusted_for x c) xs (snd out)
    /\ (fst out = true -> forall x, In x xs ->
          (exists k, made_by x k) /\ (forall k, made_by x k -> trusted_for x (cert_of k))).

  Definition msg_complete (xs : list (input cert msg sig)) (out : mout cert) : Prop :=
    (exists e, forall x, In x xs ->
       exists k, made_by x k /\ claimed x = Some e /\ published_for_signing (md x) e (cert_of k)) ->
    fst out = true.

  Definition msg_spec (xs : list (input cert msg sig)) (out : mout cert) : Prop :=
    msg_sound xs out /\ msg_complete xs out.

  (* ---- a long-lived receiver: "the loaded metadata" is the set loaded by the last successful
     (re)load before the message is verified; P is the per-message requirement ---- *)
  Definition loaded (init : metadata cert) (pre : list (op cert msg sig)) : metadata cert :=
    fold_left (fun cur o => match o with Reload m' => m' | _ => cur end) pre init.

  Definition is_check (o : op cert msg sig) : bool := match o with Check _ => true | _ => false end.
  Definition nchecks (l : list (op cert msg sig)) : nat := length (filter is_check l).

  Definition seq_spec (P : list (input cert msg sig) -> mout cert -> Prop)
    (init : metadata cert) (only : bool) (ops : list (op cert msg sig)) (outs : list (mout cert)) : Prop :=
    length outs = nchecks ops
    /\ forall pre qs post, ops = (pre ++ Check qs :: post)%list ->
         exists o, nth_error outs (nchecks pre) = Some o /\ P (map (at_md (loaded init pre) only) qs) o.
End Spec.

Arguments published_for_signing {cert}.
Arguments no_signing_key {cert}.
Arguments trusted_for {cert msg sig}.
Arguments made_by {key cert msg sig}.
Arguments sound {key cert msg sig}.
Arguments complete {key cert msg sig}.
Arguments spec {key cert msg sig}.
Arguments msg_sound {key cert msg sig}.
Arguments msg_complete {key cert msg sig}.
Arguments msg_spec {key cert msg sig}.
Arguments loaded {cert msg sig}.
Arguments is_check {cert msg sig}.
Arguments nchecks {cert msg sig}.
Arguments seq_spec {cert msg sig}.
