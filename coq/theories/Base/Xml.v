(* Base/Xml.v — finite XML trees as an ElementTree reader delivers them, and Python dicts as
   insertion-ordered association lists.  Shared by C12 (round trip) and C13 (structure).

   qname   an expanded name: optional namespace URI + local name (ElementTree writes "{ns}local").
   tree    Node tag attrs text kids — unbounded depth and width.  [text] is the character data
           before the first child (ElementTree's .text; "" = none).  Tails (character data after
           a child) are not part of the tree: the code under study never reads them.
   tree_ind'  the nested induction principle (Forall on the children).
   dict ops   dget / dset / ddel / dset_all restate dict[k], dict[k] = v, del dict[k] and a loop
           of assignments on an insertion-ordered dict (Python >= 3.7; ElementTree keeps and
           serialises attributes in that order). *)
From Coq Require Import String Ascii List Bool Arith Lia.
From Verif Require Import Base.Str.
Import ListNotations.
Open Scope string_scope.
Open Scope list_scope.

(* ------------------------------------------------------------------ names *)
Record qname := QN { q_ns : option string; q_local : string }.

Definition qname_eqb (a b : qname) : bool :=
  opt_eqb String.eqb (q_ns a) (q_ns b) && String.eqb (q_local a) (q_local b).

Lemma qname_eqb_eq a b : qname_eqb a b = true <-> a = b.
Proof.
  destruct a as [na la], b as [nb lb]; unfold qname_eqb; cbn [q_ns q_local].
  rewrite andb_true_iff, String.eqb_eq.
  destruct na as [x|], nb as [y|]; cbn [opt_eqb]; try rewrite String.eqb_eq;
    split; try (intros [H1 H2]; congruence); intros H; inversion H; auto; try discriminate.
Qed.

Lemma qname_eqb_refl a : qname_eqb a a = true.
Proof. apply qname_eqb_eq. reflexivity. Qed.

Lemma qname_eqb_neq a b : qname_eqb a b = false <-> a <> b.
Proof.
  split.
  - intros H E. apply qname_eqb_eq in E. congruence.
  - intros H. destruct (qname_eqb a b) eqn:E; [apply qname_eqb_eq in E; contradiction|reflexivity].
Qed.

Lemma string_eqb_iff (a b : string) : String.eqb a b = true <-> a = b.
Proof. apply String.eqb_eq. Qed.

Lemma NoDup_snoc {A} (l : list A) x : NoDup l -> ~ In x l -> NoDup (l ++ [x]).
Proof.
  induction l as [|y r IH]; cbn [app]; intros N H; [constructor; [intros []|constructor]|].
  inversion N as [|? ? N1 N2]; subst. constructor.
  - intros Hin. apply in_app_or in Hin. destruct Hin as [Hin|[Hin|[]]]; [contradiction|].
    subst. apply H. left. reflexivity.
  - apply IH; [exact N2|]. intros Hin. apply H. right. exact Hin.
Qed.

(* ------------------------------------------------------------------ insertion-ordered dicts *)
Section Dict.
  Context {K V : Type} (eqb : K -> K -> bool).
  Hypothesis eqb_iff : forall a b, eqb a b = true <-> a = b.

  Definition dict := list (K * V).

  Fixpoint dget (k : K) (d : dict) : option V :=
    match d with
    | [] => None
    | (k', v) :: r => if eqb k k' then Some v else dget k r
    end.

  Definition dmem (k : K) (d : dict) : bool := match dget k d with Some _ => true | None => false end.

  (* d[k] = v : replace in place, else append at the end *)
  Fixpoint dset (k : K) (v : V) (d : dict) : dict :=
    match d with
    | [] => [(k, v)]
    | (k', v') :: r => if eqb k k' then (k', v) :: r else (k', v') :: dset k v r
    end.

  (* del d[k] (no error when absent) *)
  Fixpoint ddel (k : K) (d : dict) : dict :=
    match d with
    | [] => []
    | (k', v') :: r => if eqb k k' then r else (k', v') :: ddel k r
    end.

  (* for k, v in items: d[k] = v *)
  Definition dset_all (d : dict) (items : list (K * V)) : dict :=
    fold_left (fun acc kv => dset (fst kv) (snd kv) acc) items d.

  Definition keys (d : dict) : list K := map fst d.

  Fixpoint kmem (k : K) (l : list K) : bool :=
    match l with [] => false | x :: r => eqb k x || kmem k r end.

  Fixpoint nodup_b (l : list K) : bool :=
    match l with [] => true | x :: r => negb (kmem x r) && nodup_b r end.

  Lemma eqb_refl k : eqb k k = true.
  Proof using eqb_iff. apply eqb_iff. reflexivity. Qed.

  Lemma eqb_false_iff a b : eqb a b = false <-> a <> b.
  Proof using eqb_iff.
    split.
    - intros H E. apply eqb_iff in E. congruence.
    - intros H. destruct (eqb a b) eqn:E; [apply eqb_iff in E; contradiction|reflexivity].
  Qed.

  Lemma kmem_In k l : kmem k l = true <-> In k l.
  Proof using eqb_iff.
    induction l as [|x r IH]; cbn [kmem In]; [split; [discriminate|contradiction]|].
    rewrite orb_true_iff, IH, eqb_iff. split; intros [H|H]; auto.
  Qed.

  Lemma kmem_false k l : kmem k l = false <-> ~ In k l.
  Proof using eqb_iff.
    rewrite <- kmem_In. destruct (kmem k l); split; intros; congruence.
  Qed.

  Lemma nodup_b_NoDup l : nodup_b l = true <-> NoDup l.
  Proof using eqb_iff.
    induction l as [|x r IH]; cbn [nodup_b]; [split; [constructor|reflexivity]|].
    rewrite andb_true_iff, negb_true_iff, kmem_false, IH.
    split; [intros [H1 H2]; constructor; assumption|intros H; inversion H; auto].
  Qed.

  Lemma dget_None k d : dget k d = None <-> ~ In k (keys d).
  Proof using eqb_iff.
    induction d as [|[k' v] r IH]; cbn [dget keys map fst In]; [tauto|].
    destruct (eqb k k') eqn:E.
    - apply eqb_iff in E. subst. split; [discriminate|intros H; exfalso; apply H; auto].
    - apply eqb_false_iff in E. rewrite IH. unfold keys. split; [intros H [H1|H1]; congruence|tauto].
  Qed.

  Lemma dget_In k v d : dget k d = Some v -> In (k, v) d.
  Proof using eqb_iff.
    induction d as [|[k' v'] r IH]; cbn [dget In]; [discriminate|].
    destruct (eqb k k') eqn:E; [apply eqb_iff in E; subst; intros H; inversion H; auto|auto].
  Qed.

  Lemma dget_NoDup_In k v d : NoDup (keys d) -> In (k, v) d -> dget k d = Some v.
  Proof using eqb_iff.
    induction d as [|[k' v'] r IH]; cbn [dget In keys map fst]; [contradiction|].
    intros N [H|H].
    - inversion H; subst. rewrite eqb_refl. reflexivity.
    - inversion N as [|? ? N1 N2]; subst. destruct (eqb k k') eqn:E.
      + apply eqb_iff in E. subst. exfalso. apply N1. apply (in_map fst) in H. exact H.
      + apply IH; assumption.
  Qed.

  Lemma dset_absent k v d : ~ In k (keys d) -> dset k v d = d ++ [(k, v)].
  Proof using eqb_iff.
    induction d as [|[k' v'] r IH]; cbn [dset keys map fst In app]; [reflexivity|].
    intros H. destruct (eqb k k') eqn:E.
    - apply eqb_iff in E. subst. exfalso. apply H. auto.
    - rewrite IH; [reflexivity|]. intros H1. apply H. right. exact H1.
  Qed.

  Lemma keys_dset k v d : keys (dset k v d) = if kmem k (keys d) then keys d else keys d ++ [k].
  Proof using eqb_iff.
    induction d as [|[k' v'] r IH]; cbn [dset keys map fst kmem app]; [reflexivity|].
    destruct (eqb k k') eqn:E; cbn [orb map fst]; [reflexivity|].
    fold (keys (dset k v r)). fold (keys r). rewrite IH. destruct (kmem k (keys r)); reflexivity.
  Qed.

  Lemma dget_dset_same k v d : dget k (dset k v d) = Some v.
  Proof using eqb_iff.
    induction d as [|[k' v'] r IH]; cbn [dset dget]; [rewrite eqb_refl; reflexivity|].
    destruct (eqb k k') eqn:E; cbn [dget]; rewrite E; [reflexivity|exact IH].
  Qed.

  Lemma dget_dset_other k k2 v d : k2 <> k -> dget k2 (dset k v d) = dget k2 d.
  Proof using eqb_iff.
    intros N. induction d as [|[k' v'] r IH]; cbn [dset dget].
    - apply eqb_false_iff in N. rewrite N. reflexivity.
    - destruct (eqb k k') eqn:E; cbn [dget].
      + apply eqb_iff in E. subst k'. apply eqb_false_iff in N. rewrite N. reflexivity.
      + rewrite IH. reflexivity.
  Qed.

  Lemma NoDup_keys_dset k v d : NoDup (keys d) -> NoDup (keys (dset k v d)).
  Proof using eqb_iff.
    intros N. rewrite keys_dset. destruct (kmem k (keys d)) eqn:E; [exact N|].
    apply kmem_false in E. apply NoDup_snoc; assumption.
  Qed.

  (* a run of assignments with fresh, pairwise distinct keys appends the items *)
  Lemma dset_all_fresh items : forall d,
    NoDup (keys items) -> (forall k, In k (keys items) -> ~ In k (keys d)) ->
    dset_all d items = d ++ items.
  Proof using eqb_iff.
    unfold dset_all. induction items as [|[k v] r IH]; intros d N F; cbn [fold_left fst snd].
    - rewrite app_nil_r. reflexivity.
    - cbn [keys map fst] in N, F. inversion N as [|? ? N1 N2]; subst.
      rewrite dset_absent by (apply F; left; reflexivity).
      rewrite IH; [rewrite <- app_assoc; reflexivity|exact N2|].
      intros k' Hk' Hin. unfold keys in Hin. rewrite map_app in Hin. apply in_app_or in Hin.
      destruct Hin as [Hin|Hin].
      + apply (F k'); [right; exact Hk'|exact Hin].
      + cbn [map fst In] in Hin. destruct Hin as [Hin|[]]. subst. contradiction.
  Qed.

  Lemma dset_all_nil_fresh items : NoDup (keys items) -> dset_all [] items = items.
  Proof using eqb_iff.
    intros N. rewrite dset_all_fresh; [reflexivity|exact N|]. intros k _ [].
  Qed.

  Lemma dset_all_app d a b : dset_all d (a ++ b) = dset_all (dset_all d a) b.
  Proof. unfold dset_all. apply fold_left_app. Qed.

  Lemma NoDup_keys_dset_all items : forall d, NoDup (keys d) -> NoDup (keys (dset_all d items)).
  Proof using eqb_iff.
    unfold dset_all. induction items as [|[k v] r IH]; intros d N; cbn [fold_left]; [exact N|].
    apply IH. apply NoDup_keys_dset. exact N.
  Qed.

  Lemma keys_ddel_incl k d x : In x (keys (ddel k d)) -> In x (keys d).
  Proof.
    induction d as [|[k' v'] r IH]; cbn [ddel keys map fst In]; [tauto|].
    destruct (eqb k k'); cbn [keys map fst In]; [auto|]. intros [H|H]; [auto|right; apply IH; exact H].
  Qed.

  Lemma NoDup_keys_ddel k d : NoDup (keys d) -> NoDup (keys (ddel k d)).
  Proof.
    induction d as [|[k' v'] r IH]; cbn [ddel keys map fst]; [auto|].
    intros N. inversion N as [|? ? N1 N2]; subst. destruct (eqb k k'); [exact N2|].
    cbn [keys map fst]. constructor; [|apply IH; exact N2].
    intros H. apply N1. apply (keys_ddel_incl k). exact H.
  Qed.

  Lemma ddel_absent k d : ~ In k (keys d) -> ddel k d = d.
  Proof using eqb_iff.
    induction d as [|[k' v'] r IH]; cbn [ddel keys map fst In]; [reflexivity|].
    intros H. destruct (eqb k k') eqn:E.
    - apply eqb_iff in E. subst. exfalso. apply H. auto.
    - rewrite IH; [reflexivity|tauto].
  Qed.
End Dict.

Arguments dict : clear implicits.

(* ------------------------------------------------------------------ trees *)
Definition attrs := list (qname * string).

Inductive tree : Type :=
  Node (tag : qname) (att : attrs) (text : string) (kids : list tree).

Definition t_tag (t : tree) : qname := match t with Node g _ _ _ => g end.
Definition t_attrs (t : tree) : attrs := match t with Node _ a _ _ => a end.
Definition t_text (t : tree) : string := match t with Node _ _ x _ => x end.
Definition t_kids (t : tree) : list tree := match t with Node _ _ _ k => k end.

Section TreeInd.
  Variable P : tree -> Prop.
  Hypothesis H : forall tag att text kids, Forall P kids -> P (Node tag att text kids).

  Fixpoint tree_ind' (t : tree) : P t :=
    match t with
    | Node tag att text kids =>
        H tag att text kids
          ((fix go (l : list tree) : Forall P l :=
              match l with
              | [] => Forall_nil P
              | x :: r => Forall_cons x (tree_ind' x) (go r)
              end) kids)
    end.
End TreeInd.

(* number of elements *)
Fixpoint tree_size (t : tree) : nat :=
  match t with Node _ _ _ kids => S (fold_right (fun k n => tree_size k + n) 0 kids) end.

Fixpoint tree_depth (t : tree) : nat :=
  match t with Node _ _ _ kids => S (fold_right (fun k n => Nat.max (tree_depth k) n) 0 kids) end.

(* all elements, document order *)
Fixpoint subtrees (t : tree) : list tree :=
  match t with Node _ _ _ kids => t :: flat_map subtrees kids end.

(* ---- decidable equality *)
Definition attr_eqb (a b : qname * string) : bool :=
  qname_eqb (fst a) (fst b) && String.eqb (snd a) (snd b).

Lemma attr_eqb_eq a b : attr_eqb a b = true <-> a = b.
Proof.
  destruct a as [n v], b as [n' v']. unfold attr_eqb. cbn [fst snd].
  rewrite andb_true_iff, qname_eqb_eq, String.eqb_eq. split; [intros [-> ->]; reflexivity|intros E; inversion E; auto].
Qed.

Definition attrs_eqb : attrs -> attrs -> bool := list_eqb attr_eqb.

Lemma attrs_eqb_eq a b : attrs_eqb a b = true <-> a = b.
Proof. apply list_eqb_eq. apply attr_eqb_eq. Qed.

Fixpoint tree_eqb (a b : tree) {struct a} : bool :=
  match a, b with
  | Node g1 a1 x1 k1, Node g2 a2 x2 k2 =>
      qname_eqb g1 g2 && attrs_eqb a1 a2 && String.eqb x1 x2 &&
      (fix go (l1 l2 : list tree) {struct l1} : bool :=
         match l1, l2 with
         | [], [] => true
         | x :: r, y :: s => tree_eqb x y && go r s
         | _, _ => false
         end) k1 k2
  end.

Lemma tree_eqb_eq a : forall b, tree_eqb a b = true <-> a = b.
Proof.
  induction a as [g1 a1 x1 k1 IH] using tree_ind'. intros [g2 a2 x2 k2]. cbn [tree_eqb].
  rewrite !andb_true_iff, qname_eqb_eq, attrs_eqb_eq, String.eqb_eq.
  assert (HK : forall l2,
    (fix go (l1 l2 : list tree) {struct l1} : bool :=
       match l1, l2 with
       | [], [] => true
       | x :: r, y :: s => tree_eqb x y && go r s
       | _, _ => false
       end) k1 l2 = true <-> k1 = l2).
  { induction IH as [|x r Hx Hr IHr]; intros [|y s]; try (split; [discriminate|discriminate]); [tauto|].
    rewrite andb_true_iff, Hx, IHr. split; [intros [-> ->]; reflexivity|intros E; inversion E; auto]. }
  rewrite HK. split; [intros [[[-> ->] ->] ->]; reflexivity|intros E; inversion E; auto].
Qed.

Lemma tree_eqb_refl a : tree_eqb a a = true.
Proof. apply tree_eqb_eq. reflexivity. Qed.

(* ------------------------------------------------------------------ what a parser can deliver *)
(* an XML 1.0 parser never reports two attributes with one name on an element, never reports a
   namespace declaration as an attribute, and reports every line end as LF (a CR can only come
   from a character reference) *)
Definition c_cr : ascii := ascii_of_nat 13.
Definition c_lf : ascii := ascii_of_nat 10.
Definition has_cr (s : string) : bool := any_char (fun c => Ascii.eqb c c_cr) s.

Definition is_xmlns_name (n : qname) : bool :=
  match q_ns n with
  | None => String.eqb (q_local n) "xmlns" || String.prefix "xmlns:" (q_local n)
  | Some _ => false
  end.

Definition attrs_ok (a : attrs) : bool :=
  nodup_b qname_eqb (map fst a) && forallb (fun kv => negb (is_xmlns_name (fst kv))) a.

Fixpoint wf_tree_b (t : tree) : bool :=
  match t with
  | Node _ a x kids => attrs_ok a && negb (has_cr x) && forallb wf_tree_b kids
  end.

(* line-end normalisation of character data that is written raw: CR LF -> LF, CR -> LF *)
Fixpoint norm_eol (s : string) : string :=
  match s with
  | EmptyString => EmptyString
  | String c r =>
      if Ascii.eqb c c_cr then
        match r with
        | String d r' => if Ascii.eqb d c_lf then norm_eol r else String c_lf (norm_eol r)
        | EmptyString => String c_lf EmptyString
        end
      else String c (norm_eol r)
  end.

Lemma norm_eol_id s : has_cr s = false -> norm_eol s = s.
Proof.
  unfold has_cr. induction s as [|c r IH]; cbn [norm_eol any_char]; [reflexivity|].
  intros H. apply orb_false_iff in H as [H1 H2]. rewrite H1, IH by exact H2. reflexivity.
Qed.
