(* Base/Run.v — generic runner for correspondence cases.
   For every case the harness supplies the abstract input together with the
   output observed on the real implementation; Coq computes
     agrees c : does the model produce exactly that output?
     spec c   : does the implementation's output satisfy the property?
     cls c    : finding class of the case (0 = none); only consulted when spec fails.
   Output: list of (index, code): 1 = model disagrees, 2 = spec fails (no listed
   class), 10+k = spec fails inside known-finding class k. *)
From Coq Require Import List Arith Bool.
Import ListNotations.

Section Run.
  Context {A : Type} (agrees spec : A -> bool) (cls : A -> nat).

  Fixpoint run_from (i : nat) (l : list A) : list (nat * nat) :=
    match l with
    | [] => []
    | c :: r =>
        (if agrees c then [] else [(i, 1)]) ++
        (if spec c then [] else [(i, match cls c with 0 => 2 | S k => 10 + S k end)]) ++
        run_from (S i) r
    end.

  Definition run_cases (l : list A) : list (nat * nat) := run_from 0 l.
End Run.
