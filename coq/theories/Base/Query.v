(* Base/Query.v — urllib.parse.urlencode (dict of str, default quote_via=quote_plus),
   urllib.parse.parse_qsl (defaults: keep_blank_values=False, strict_parsing=False, separator '&')
   and the query / fragment split of urllib.parse.urlsplit, at byte level.
   urlsplit: the characters \t \r \n are removed from the URL, the fragment starts at the first
   '#', the query at the first '?' before it.  (urlsplit also lstrips C0 controls and space and
   splits scheme and netloc: neither can contain '?' or '#', so query and fragment are unaffected;
   its ValueError for unbalanced brackets / NFKC-unsafe characters in the netloc is outside this model.) *)
From Coq Require Import String Ascii List Bool Arith Lia.
From Verif Require Import Base.Str Base.Percent.
Import ListNotations.
Open Scope string_scope.

Definition c_and : ascii := "&"%char.
Definition c_eq : ascii := "="%char.
Definition c_qm : ascii := "?"%char.
Definition c_hash : ascii := "#"%char.

Definition has (c : ascii) (s : string) : bool := any_char (Ascii.eqb c) s.

(* ---- urlencode *)
Definition pair_enc (kv : string * string) : string :=
  quote_plus (fst kv) ++ String c_eq (quote_plus (snd kv)).

Definition urlencode (l : list (string * string)) : string :=
  join (String c_and EmptyString) (map pair_enc l).

(* ---- parse_qsl *)
(* s.split(sep, 1): None when sep does not occur *)
Fixpoint cut (sep : ascii) (s : string) : option (string * string) :=
  match s with
  | EmptyString => None
  | String c r =>
      if Ascii.eqb c sep then Some (EmptyString, r)
      else match cut sep r with
           | Some (a, b) => Some (String c a, b)
           | None => None
           end
  end.

Definition parse_field (nv : string) : list (string * string) :=
  match cut c_eq nv with
  | None => []                               (* empty field, or a name without '=' : skipped *)
  | Some (n, v) => if is_empty v then [] else [(unquote_plus n, unquote_plus v)]
  end.

Definition parse_qsl (qs : string) : list (string * string) :=
  flat_map parse_field (split_on c_and qs).

(* parameters with a blank value are dropped by parse_qsl *)
Definition nonblank (l : list (string * string)) : list (string * string) :=
  filter (fun kv => negb (is_empty (snd kv))) l.

(* ---- urlsplit: query and fragment *)
Definition is_trn (c : ascii) : bool :=
  let n := code c in ((n =? 9) || (n =? 10) || (n =? 13))%nat.

Fixpoint remove_chars (p : ascii -> bool) (s : string) : string :=
  match s with
  | EmptyString => EmptyString
  | String c r => if p c then remove_chars p r else String c (remove_chars p r)
  end.

(* s.split(sep, 1)[0] *)
Fixpoint before (sep : ascii) (s : string) : string :=
  match s with
  | EmptyString => EmptyString
  | String c r => if Ascii.eqb c sep then EmptyString else String c (before sep r)
  end.

(* s.split(sep, 1)[1], or "" when sep does not occur *)
Fixpoint after (sep : ascii) (s : string) : string :=
  match s with
  | EmptyString => EmptyString
  | String c r => if Ascii.eqb c sep then r else after sep r
  end.

Definition url_clean (u : string) : string := remove_chars is_trn u.
Definition url_query (u : string) : string := after c_qm (before c_hash (url_clean u)).
Definition url_fragment (u : string) : string := after c_hash (url_clean u).
(* everything in front of query and fragment: scheme, netloc, path *)
Definition url_base (u : string) : string := before c_qm (before c_hash (url_clean u)).

(* ------------------------------------------------------------------ lemmas *)

Lemma sapp_assoc (a b c : string) : (a ++ b) ++ c = a ++ (b ++ c).
Proof. induction a as [|x a IH]; cbn [append]; [reflexivity|]. rewrite IH. reflexivity. Qed.

Lemma has_app c a b : has c (a ++ b) = has c a || has c b.
Proof.
  unfold has. induction a as [|x a IH]; cbn [append any_char]; [reflexivity|].
  rewrite IH, orb_assoc. reflexivity.
Qed.

Lemma all_chars_has_false p c s : all_chars p s = true -> p c = false -> has c s = false.
Proof.
  unfold has. intros H Hc. induction s as [|x s IH]; cbn [all_chars any_char] in *; [reflexivity|].
  apply andb_true_iff in H as [H1 H2]. rewrite (IH H2), orb_false_r.
  destruct (Ascii.eqb c x) eqn:E; [|reflexivity]. apply Ascii.eqb_eq in E. subst x. congruence.
Qed.

(* alphabet of a query string made by urlencode *)
Definition qs_alphabet (c : ascii) : bool := plus_alphabet c || Ascii.eqb c c_and || Ascii.eqb c c_eq.

Lemma plus_alphabet_qs s : all_chars plus_alphabet s = true -> all_chars qs_alphabet s = true.
Proof.
  induction s as [|c r IH]; cbn [all_chars]; [reflexivity|]. intros H.
  apply andb_true_iff in H as [H1 H2]. unfold qs_alphabet at 1. rewrite H1, (IH H2). reflexivity.
Qed.

Lemma pair_enc_alphabet kv : all_chars qs_alphabet (pair_enc kv) = true.
Proof.
  unfold pair_enc. rewrite all_chars_app. cbn [all_chars].
  rewrite !plus_alphabet_qs by apply quote_plus_alphabet. reflexivity.
Qed.

Theorem urlencode_alphabet l : all_chars qs_alphabet (urlencode l) = true.
Proof.
  unfold urlencode. induction l as [|kv l IH]; [reflexivity|].
  cbn [map]. destruct l as [|kv2 l2].
  - cbn [map join]. apply pair_enc_alphabet.
  - cbn [map] in *. rewrite join_cons, !all_chars_app, pair_enc_alphabet. cbn [all_chars andb].
    exact IH.
Qed.

Lemma qs_alphabet_excludes : forall c, qs_alphabet c = true ->
  is_trn c = false /\ Ascii.eqb c_hash c = false /\ Ascii.eqb c_qm c = false.
Proof.
  assert (H : forall c, implb (qs_alphabet c)
              (negb (is_trn c) && negb (Ascii.eqb c_hash c) && negb (Ascii.eqb c_qm c)) = true).
  { apply (all_ascii (fun c => implb (qs_alphabet c)
              (negb (is_trn c) && negb (Ascii.eqb c_hash c) && negb (Ascii.eqb c_qm c)))).
    vm_compute. reflexivity. }
  intros c Hc. specialize (H c). rewrite Hc in H. cbn [implb] in H.
  apply andb_true_iff in H as [H H3]. apply andb_true_iff in H as [H1 H2].
  rewrite negb_true_iff in H1, H2, H3. auto.
Qed.

Lemma plus_alphabet_no_and_eq : forall c, plus_alphabet c = true ->
  Ascii.eqb c c_and = false /\ Ascii.eqb c c_eq = false.
Proof.
  intros c Hc. destruct (plus_alphabet_excludes c Hc) as [H1 [H2 _]].
  split; apply Ascii.eqb_neq; assumption.
Qed.

(* split_on *)
Lemma split_on_nosep sep s : has sep s = false -> split_on sep s = [s].
Proof.
  unfold has. induction s as [|c r IH]; cbn [any_char split_on]; [reflexivity|].
  intros H. apply orb_false_iff in H as [H1 H2]. rewrite Ascii.eqb_sym in H1. rewrite H1, (IH H2). reflexivity.
Qed.

Lemma split_on_app sep a b :
  split_on sep (a ++ String sep b) = (split_on sep a ++ split_on sep b)%list.
Proof.
  induction a as [|c r IH]; cbn [append split_on].
  - rewrite Ascii.eqb_refl. reflexivity.
  - rewrite IH. destruct (Ascii.eqb c sep); [reflexivity|].
    pose proof (split_on_nonempty sep r) as Hne.
    destruct (split_on sep r) as [|f fs]; [contradiction|]. reflexivity.
Qed.

Theorem parse_qsl_app a b :
  parse_qsl (a ++ String c_and b) = (parse_qsl a ++ parse_qsl b)%list.
Proof. unfold parse_qsl. rewrite split_on_app, flat_map_app. reflexivity. Qed.

Lemma cut_app sep a b : has sep a = false -> cut sep (a ++ String sep b) = Some (a, b).
Proof.
  unfold has. induction a as [|c r IH]; cbn [any_char append cut].
  - intros _. rewrite Ascii.eqb_refl. reflexivity.
  - intros H. apply orb_false_iff in H as [H1 H2]. rewrite Ascii.eqb_sym in H1. rewrite H1, (IH H2). reflexivity.
Qed.

Lemma quote_plus_no c s : plus_alphabet c = false -> has c (quote_plus s) = false.
Proof. intros H. apply (all_chars_has_false plus_alphabet); [apply quote_plus_alphabet|exact H]. Qed.

Lemma quote_plus_char_nonempty c : quote_plus_char c <> EmptyString.
Proof.
  unfold quote_plus_char, quote_char, pct.
  destruct (Ascii.eqb c space_char); [discriminate|].
  destruct (always_safe c || safe_none c); discriminate.
Qed.

Lemma quote_plus_empty s : is_empty (quote_plus s) = is_empty s.
Proof.
  destruct s as [|c r]; [reflexivity|]. cbn [quote_plus is_empty].
  pose proof (quote_plus_char_nonempty c) as H.
  destruct (quote_plus_char c); [contradiction|reflexivity].
Qed.

Lemma parse_field_pair kv :
  parse_field (pair_enc kv) = if is_empty (snd kv) then [] else [kv].
Proof.
  unfold parse_field, pair_enc.
  rewrite cut_app by (apply quote_plus_no; reflexivity).
  rewrite quote_plus_empty. destruct (is_empty (snd kv)); [reflexivity|].
  rewrite !unquote_plus_quote_plus. destruct kv; reflexivity.
Qed.

Lemma pair_enc_no_and kv : has c_and (pair_enc kv) = false.
Proof.
  unfold pair_enc. rewrite has_app. rewrite quote_plus_no by reflexivity.
  unfold has. cbn [any_char]. change (Ascii.eqb c_and c_eq) with false.
  apply quote_plus_no. reflexivity.
Qed.

(* the receiver's parse_qsl of a urlencode'd dict gives the dict back (minus blank values):
   no key or value can add, remove or alter another parameter *)
Theorem parse_qsl_urlencode l : parse_qsl (urlencode l) = nonblank l.
Proof.
  unfold urlencode. induction l as [|kv l IH]; [reflexivity|].
  cbn [map nonblank filter]. destruct l as [|kv2 l2].
  - cbn [map join nonblank filter]. unfold parse_qsl. rewrite split_on_nosep by apply pair_enc_no_and.
    cbn [flat_map]. rewrite parse_field_pair, app_nil_r.
    destruct (is_empty (snd kv)); reflexivity.
  - cbn [map] in *. rewrite join_cons. cbn [append]. rewrite parse_qsl_app, IH.
    unfold parse_qsl at 1. rewrite split_on_nosep by apply pair_enc_no_and.
    cbn [flat_map]. rewrite parse_field_pair, app_nil_r.
    destruct (is_empty (snd kv)); reflexivity.
Qed.

(* urlsplit pieces *)
Lemma remove_chars_app p a b : remove_chars p (a ++ b) = remove_chars p a ++ remove_chars p b.
Proof.
  induction a as [|c r IH]; cbn [append remove_chars]; [reflexivity|].
  rewrite IH. destruct (p c); reflexivity.
Qed.

Lemma remove_chars_id p s : all_chars (fun c => negb (p c)) s = true -> remove_chars p s = s.
Proof.
  induction s as [|c r IH]; cbn [all_chars remove_chars]; [reflexivity|].
  intros H. apply andb_true_iff in H as [H1 H2]. apply negb_true_iff in H1. rewrite H1, (IH H2). reflexivity.
Qed.

Lemma has_remove_chars p c s : has c s = false -> has c (remove_chars p s) = false.
Proof.
  unfold has. induction s as [|x r IH]; cbn [any_char remove_chars]; [reflexivity|].
  intros H. apply orb_false_iff in H as [H1 H2]. destruct (p x); cbn [any_char]; rewrite ?H1, (IH H2); reflexivity.
Qed.

Lemma before_nosep sep s : has sep s = false -> before sep s = s.
Proof.
  unfold has. induction s as [|c r IH]; cbn [any_char before]; [reflexivity|].
  intros H. apply orb_false_iff in H as [H1 H2]. rewrite Ascii.eqb_sym in H1. rewrite H1, (IH H2). reflexivity.
Qed.

Lemma after_nosep sep s : has sep s = false -> after sep s = EmptyString.
Proof.
  unfold has. induction s as [|c r IH]; cbn [any_char after]; [reflexivity|].
  intros H. apply orb_false_iff in H as [H1 H2]. rewrite Ascii.eqb_sym in H1. rewrite H1. exact (IH H2).
Qed.

Lemma after_app_nosep sep a b : has sep a = false -> after sep (a ++ b) = after sep b.
Proof.
  unfold has. induction a as [|c r IH]; cbn [any_char append after]; [reflexivity|].
  intros H. apply orb_false_iff in H as [H1 H2]. rewrite Ascii.eqb_sym in H1. rewrite H1. exact (IH H2).
Qed.

Lemma before_app_nosep sep a b : has sep a = false -> before sep (a ++ b) = a ++ before sep b.
Proof.
  unfold has. induction a as [|c r IH]; cbn [any_char append before]; [reflexivity|].
  intros H. apply orb_false_iff in H as [H1 H2]. rewrite Ascii.eqb_sym in H1. rewrite H1, (IH H2). reflexivity.
Qed.

Lemma after_app_sep sep a b : has sep a = true -> after sep (a ++ b) = after sep a ++ b.
Proof.
  unfold has. induction a as [|c r IH]; cbn [any_char append after]; [discriminate|].
  intros H. destruct (Ascii.eqb c sep) eqn:E; [reflexivity|].
  rewrite Ascii.eqb_sym in E. rewrite E in H. cbn [orb] in H. exact (IH H).
Qed.

Lemma before_app_sep sep a b : has sep a = true -> before sep (a ++ b) = before sep a.
Proof.
  unfold has. induction a as [|c r IH]; cbn [any_char append before]; [discriminate|].
  intros H. destruct (Ascii.eqb c sep) eqn:E; [reflexivity|].
  rewrite Ascii.eqb_sym in E. rewrite E in H. cbn [orb] in H. rewrite (IH H). reflexivity.
Qed.

Lemma after_nonempty_has sep s : after sep s <> EmptyString -> has sep s = true.
Proof.
  intros H. destruct (has sep s) eqn:E; [reflexivity|]. rewrite (after_nosep _ _ E) in H. contradiction.
Qed.

Lemma qs_clean s : all_chars qs_alphabet s = true -> url_clean s = s.
Proof.
  intros H. apply remove_chars_id. induction s as [|c r IH]; cbn [all_chars] in *; [reflexivity|].
  apply andb_true_iff in H as [H1 H2]. destruct (qs_alphabet_excludes c H1) as [Ht _].
  rewrite Ht, (IH H2). reflexivity.
Qed.

Lemma qs_no c s : all_chars qs_alphabet s = true -> qs_alphabet c = false -> has c s = false.
Proof. apply all_chars_has_false. Qed.
