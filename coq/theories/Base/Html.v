(* Base/Html.v — Python's html.escape(s, quote=True) and the inverse for its five entities.
   html.escape is coded as five successive str.replace calls ("&" first); [escape] restates
   exactly that, [escape1] is the equivalent one-pass character map used in the proofs. *)
From Coq Require Import String Ascii List Bool Arith Lia.
From Verif Require Import Base.Str Base.Percent.
Import ListNotations.
Open Scope string_scope.

(* s.replace(c, rep) for a one-character pattern *)
Fixpoint replace_char (c : ascii) (rep : string) (s : string) : string :=
  match s with
  | EmptyString => EmptyString
  | String d r => if Ascii.eqb d c then rep ++ replace_char c rep r else String d (replace_char c rep r)
  end.

Definition c_amp : ascii := "&"%char.
Definition c_lt : ascii := "<"%char.
Definition c_gt : ascii := ">"%char.
Definition c_quot : ascii := """"%char.
Definition c_apos : ascii := "'"%char.

Definition escape (s : string) : string :=
  let s := replace_char c_amp "&amp;" s in
  let s := replace_char c_lt "&lt;" s in
  let s := replace_char c_gt "&gt;" s in
  let s := replace_char c_quot "&quot;" s in
  replace_char c_apos "&#x27;" s.

Definition escape_char (c : ascii) : string :=
  if Ascii.eqb c c_amp then "&amp;"
  else if Ascii.eqb c c_lt then "&lt;"
  else if Ascii.eqb c c_gt then "&gt;"
  else if Ascii.eqb c c_quot then "&quot;"
  else if Ascii.eqb c c_apos then "&#x27;"
  else String c EmptyString.

Fixpoint escape1 (s : string) : string :=
  match s with
  | EmptyString => EmptyString
  | String c r => escape_char c ++ escape1 r
  end.

(* [starts p s]: p is a prefix of s (recursion on the pattern, so that it computes on open terms) *)
Fixpoint starts (p s : string) : bool :=
  match p with
  | EmptyString => true
  | String a p' => match s with
                   | EmptyString => false
                   | String b s' => Ascii.eqb a b && starts p' s'
                   end
  end.

(* inverse for the five entities escape produces (what an HTML attribute-value reader does with them).
   [skip] characters are still to be dropped (the rest of an entity just recognised). *)
Fixpoint unesc (skip : nat) (s : string) : string :=
  match s with
  | EmptyString => EmptyString
  | String c r =>
      match skip with
      | S k => unesc k r
      | 0 =>
          if Ascii.eqb c c_amp then
            if starts "amp;" r then String c_amp (unesc 4 r)
            else if starts "lt;" r then String c_lt (unesc 3 r)
            else if starts "gt;" r then String c_gt (unesc 3 r)
            else if starts "quot;" r then String c_quot (unesc 5 r)
            else if starts "#x27;" r then String c_apos (unesc 5 r)
            else String c (unesc 0 r)
          else String c (unesc 0 r)
      end
  end.

Definition unescape (s : string) : string := unesc 0 s.

(* characters that can end an attribute value or open markup *)
Definition html_special (c : ascii) : bool :=
  Ascii.eqb c c_lt || Ascii.eqb c c_gt || Ascii.eqb c c_quot || Ascii.eqb c c_apos.

Definition html_inert_char (c : ascii) : bool := negb (html_special c).

Definition entity_at (s : string) : bool :=
  starts "&amp;" s || starts "&lt;" s || starts "&gt;" s
  || starts "&quot;" s || starts "&#x27;" s.

(* every "&" starts one of the five entities *)
Fixpoint amps_ok (s : string) : bool :=
  match s with
  | EmptyString => true
  | String c r => (negb (Ascii.eqb c c_amp) || entity_at s) && amps_ok r
  end.

(* ------------------------------------------------------------------ lemmas *)

Lemma sapp_assoc (a b c : string) : (a ++ b) ++ c = a ++ (b ++ c).
Proof. induction a as [|x a IH]; cbn [append]; [reflexivity|]. rewrite IH. reflexivity. Qed.

Lemma sapp_nil_r (a : string) : a ++ "" = a.
Proof. induction a as [|x a IH]; cbn [append]; [reflexivity|]. rewrite IH. reflexivity. Qed.

Lemma replace_char_app c rep a b :
  replace_char c rep (a ++ b) = replace_char c rep a ++ replace_char c rep b.
Proof.
  induction a as [|d r IH]; cbn [append replace_char]; [reflexivity|].
  rewrite IH. destruct (Ascii.eqb d c); [|reflexivity].
  rewrite sapp_assoc. reflexivity.
Qed.

Lemma escape_app a b : escape (a ++ b) = escape a ++ escape b.
Proof. unfold escape. rewrite !replace_char_app. reflexivity. Qed.

Lemma escape_single : forall c, String.eqb (escape (String c EmptyString)) (escape_char c) = true.
Proof.
  apply (all_ascii (fun c => String.eqb (escape (String c EmptyString)) (escape_char c))).
  vm_compute. reflexivity.
Qed.

(* the five replace calls are the one-pass character map *)
Theorem escape_eq s : escape s = escape1 s.
Proof.
  induction s as [|c r IH]; [reflexivity|].
  change (String c r) with (String c EmptyString ++ r).
  rewrite escape_app, IH. cbn [escape1 append].
  pose proof (escape_single c) as H. apply String.eqb_eq in H. rewrite H. reflexivity.
Qed.

Lemma escape_char_inert : forall c, all_chars html_inert_char (escape_char c) = true.
Proof.
  apply (all_ascii (fun c => all_chars html_inert_char (escape_char c))). vm_compute. reflexivity.
Qed.

Theorem escape_no_special s : all_chars html_inert_char (escape s) = true.
Proof.
  rewrite escape_eq. induction s as [|c r IH]; cbn [escape1]; [reflexivity|].
  rewrite all_chars_app, escape_char_inert, IH. reflexivity.
Qed.

Lemma amps_ok_escape_char c r : amps_ok (escape_char c ++ r) = amps_ok r.
Proof.
  unfold escape_char.
  destruct (Ascii.eqb c c_amp) eqn:E1; [reflexivity|].
  destruct (Ascii.eqb c c_lt) eqn:E2; [reflexivity|].
  destruct (Ascii.eqb c c_gt) eqn:E3; [reflexivity|].
  destruct (Ascii.eqb c c_quot) eqn:E4; [reflexivity|].
  destruct (Ascii.eqb c c_apos) eqn:E5; [reflexivity|].
  cbn [append amps_ok]. rewrite E1. reflexivity.
Qed.

Theorem escape_amps_ok s : amps_ok (escape s) = true.
Proof.
  rewrite escape_eq. induction s as [|c r IH]; cbn [escape1]; [reflexivity|].
  rewrite amps_ok_escape_char. exact IH.
Qed.

Lemma unesc_escape_char c r : unesc 0 (escape_char c ++ r) = String c (unesc 0 r).
Proof.
  unfold escape_char.
  destruct (Ascii.eqb c c_amp) eqn:E1; [apply Ascii.eqb_eq in E1; subst; reflexivity|].
  destruct (Ascii.eqb c c_lt) eqn:E2; [apply Ascii.eqb_eq in E2; subst; reflexivity|].
  destruct (Ascii.eqb c c_gt) eqn:E3; [apply Ascii.eqb_eq in E3; subst; reflexivity|].
  destruct (Ascii.eqb c c_quot) eqn:E4; [apply Ascii.eqb_eq in E4; subst; reflexivity|].
  destruct (Ascii.eqb c c_apos) eqn:E5; [apply Ascii.eqb_eq in E5; subst; reflexivity|].
  cbn [append unesc]. rewrite E1. reflexivity.
Qed.

Theorem unescape_escape s : unescape (escape s) = s.
Proof.
  unfold unescape. rewrite escape_eq. induction s as [|c r IH]; cbn [escape1]; [reflexivity|].
  rewrite unesc_escape_char, IH. reflexivity.
Qed.

Theorem escape_injective a b : escape a = escape b -> a = b.
Proof. intros H. rewrite <- (unescape_escape a), <- (unescape_escape b), H. reflexivity. Qed.

(* strings without the five special characters are left alone *)
Definition html_plain_char (c : ascii) : bool := negb (Ascii.eqb c c_amp) && html_inert_char c.

Lemma escape_char_plain c : html_plain_char c = true -> escape_char c = String c EmptyString.
Proof.
  unfold html_plain_char, html_inert_char, html_special, escape_char. intros H.
  apply andb_true_iff in H as [H1 H2]. apply negb_true_iff in H1. apply negb_true_iff in H2.
  apply orb_false_iff in H2 as [H2 H5]. apply orb_false_iff in H2 as [H2 H4]. apply orb_false_iff in H2 as [H2 H3].
  rewrite H1, H2, H3, H4, H5. reflexivity.
Qed.

Lemma escape_plain s : all_chars html_plain_char s = true -> escape s = s.
Proof.
  rewrite escape_eq. induction s as [|c r IH]; cbn [escape1 all_chars]; [reflexivity|].
  intros H. apply andb_true_iff in H as [H1 H2]. rewrite (escape_char_plain c H1), (IH H2). reflexivity.
Qed.
