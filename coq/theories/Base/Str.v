(* Base/Str.v — Python str modelled as the Coq [string] of its UTF-8 bytes. *)
From Coq Require Import String Ascii List Bool Arith NArith Lia.
Import ListNotations.
Open Scope string_scope.

(* bytes literal helper used by the case writer for non-printable content *)
Fixpoint sb (l : list N) : string :=
  match l with
  | [] => EmptyString
  | n :: r => String (ascii_of_N n) (sb r)
  end.

Definition code (c : ascii) : nat := nat_of_ascii c.

(* Python str.strip() whitespace, ASCII part: \t \n \v \f \r, FS GS RS US, space *)
Definition is_ws (c : ascii) : bool :=
  let n := code c in
  ((9 <=? n)%nat && (n <=? 13)%nat) || ((28 <=? n)%nat && (n <=? 32)%nat).

Fixpoint lstrip (s : string) : string :=
  match s with
  | EmptyString => EmptyString
  | String c r => if is_ws c then lstrip r else s
  end.

Definition is_empty (s : string) : bool :=
  match s with EmptyString => true | _ => false end.

Fixpoint rstrip (s : string) : string :=
  match s with
  | EmptyString => EmptyString
  | String c r =>
      let r' := rstrip r in
      if is_ws c && is_empty r' then EmptyString else String c r'
  end.

Definition strip (s : string) : string := rstrip (lstrip s).

Fixpoint all_chars (p : ascii -> bool) (s : string) : bool :=
  match s with
  | EmptyString => true
  | String c r => p c && all_chars p r
  end.

Fixpoint any_char (p : ascii -> bool) (s : string) : bool :=
  match s with
  | EmptyString => false
  | String c r => p c || any_char p r
  end.

Definition first_char (s : string) : option ascii :=
  match s with EmptyString => None | String c _ => Some c end.

Fixpoint last_char (s : string) : option ascii :=
  match s with
  | EmptyString => None
  | String c EmptyString => Some c
  | String _ r => last_char r
  end.

Definition no_outer_ws (s : string) : bool :=
  match first_char s, last_char s with
  | Some a, Some b => negb (is_ws a) && negb (is_ws b)
  | _, _ => true
  end.

Lemma rstrip_empty_iff s : is_empty (rstrip s) = all_chars is_ws s.
Proof.
  induction s as [|c r IH]; cbn [rstrip all_chars is_empty]; [reflexivity|].
  destruct (is_ws c); cbn [andb].
  - rewrite <- IH. destruct (is_empty (rstrip r)); reflexivity.
  - reflexivity.
Qed.

Lemma rstrip_id s : match last_char s with Some b => is_ws b = false | None => True end -> rstrip s = s.
Proof.
  induction s as [|c r IH]; cbn [rstrip last_char]; [reflexivity|].
  destruct r as [|d r'].
  - intros H. cbn. rewrite H. reflexivity.
  - intros H. specialize (IH H). rewrite IH. cbn [is_empty]. rewrite andb_false_r. reflexivity.
Qed.

Lemma last_char_some c r : last_char (String c r) <> None.
Proof.
  revert c. induction r as [|d r IH]; intros c; cbn [last_char]; [discriminate|apply IH].
Qed.

Lemma strip_id s : no_outer_ws s = true -> strip s = s.
Proof.
  unfold no_outer_ws, strip. destruct s as [|c r]; [reflexivity|].
  cbn [first_char]. destruct (last_char (String c r)) as [b|] eqn:E.
  - intros H. apply andb_true_iff in H as [Ha Hb].
    apply negb_true_iff in Ha. apply negb_true_iff in Hb.
    cbn [lstrip]. rewrite Ha. apply rstrip_id. rewrite E. exact Hb.
  - exfalso. exact (last_char_some c r E).
Qed.

(* str.startswith *)
Definition startswith (s p : string) : bool := String.prefix p s.

(* ASCII lower-casing (Python's str.lower() restricted to ASCII letters) *)
Definition lower_char (c : ascii) : ascii :=
  let n := code c in
  if ((65 <=? n)%nat && (n <=? 90)%nat) then ascii_of_nat (n + 32) else c.

Fixpoint lower (s : string) : string :=
  match s with
  | EmptyString => EmptyString
  | String c r => String (lower_char c) (lower r)
  end.

(* s.split(c) for a single separator character: always at least one field *)
Fixpoint split_on (sep : ascii) (s : string) : list string :=
  match s with
  | EmptyString => [EmptyString]
  | String c r =>
      if Ascii.eqb c sep then EmptyString :: split_on sep r
      else match split_on sep r with
           | [] => [String c EmptyString]     (* unreachable *)
           | f :: fs => String c f :: fs
           end
  end.

Fixpoint join (sep : string) (l : list string) : string :=
  match l with
  | [] => EmptyString
  | [x] => x
  | x :: r => x ++ sep ++ join sep r
  end.

Lemma split_on_nonempty sep s : split_on sep s <> [].
Proof.
  induction s as [|c r IH]; cbn [split_on]; [discriminate|].
  destruct (Ascii.eqb c sep); [discriminate|].
  destruct (split_on sep r); [contradiction|discriminate].
Qed.

Lemma join_cons sep x y l : join sep (x :: y :: l) = x ++ sep ++ join sep (y :: l).
Proof. reflexivity. Qed.

Lemma join_split sep s : join (String sep EmptyString) (split_on sep s) = s.
Proof.
  induction s as [|c r IH]; cbn [split_on]; [reflexivity|].
  pose proof (split_on_nonempty sep r) as Hne.
  destruct (split_on sep r) as [|f fs] eqn:Er; [contradiction|].
  destruct (Ascii.eqb c sep) eqn:E.
  - apply Ascii.eqb_eq in E. subst c. rewrite join_cons, IH. reflexivity.
  - destruct fs as [|g gs].
    + cbn [join] in *. rewrite IH. reflexivity.
    + rewrite join_cons. rewrite join_cons in IH. rewrite <- IH. reflexivity.
Qed.

Fixpoint mem (x : string) (l : list string) : bool :=
  match l with
  | [] => false
  | y :: r => String.eqb x y || mem x r
  end.

Lemma mem_In x l : mem x l = true <-> In x l.
Proof.
  induction l as [|y r IH]; cbn [mem In].
  - split; [discriminate|contradiction].
  - rewrite orb_true_iff, IH, String.eqb_eq. split; intros [H|H]; auto.
Qed.

Definition opt_eqb {A} (eqb : A -> A -> bool) (a b : option A) : bool :=
  match a, b with
  | None, None => true
  | Some x, Some y => eqb x y
  | _, _ => false
  end.

Fixpoint list_eqb {A} (eqb : A -> A -> bool) (a b : list A) : bool :=
  match a, b with
  | [], [] => true
  | x :: a', y :: b' => eqb x y && list_eqb eqb a' b'
  | _, _ => false
  end.

Lemma list_eqb_eq {A} (eqb : A -> A -> bool) :
  (forall x y, eqb x y = true <-> x = y) -> forall a b, list_eqb eqb a b = true <-> a = b.
Proof.
  intros H. induction a as [|x a IH]; destruct b as [|y b]; cbn [list_eqb];
    try (split; [discriminate|discriminate]); [tauto|].
  rewrite andb_true_iff, H, IH. split; [intros [-> ->]; reflexivity|intros E; inversion E; auto].
Qed.
