(* Base/ClassTable.v — the shape of pysaml2's element-class tables (the class attributes c_tag,
   c_namespace, c_children, c_attributes, c_child_order, c_cardinality, c_any, c_any_attribute,
   c_value_type of every SamlBase subclass), as data.  The live tables are written by
   harness/classtables.py into gen/ClassTables.v (Definition live_table) on every run.
   Classes are referred to by their index in the table.  Shared by C12 and C13. *)
From Coq Require Import String List Bool Arith NArith.
From Verif Require Import Base.Str Base.Xml.
Import ListNotations.
Open Scope string_scope.
Open Scope list_scope.

(* c_attributes[xml name] = (member, type, required): the type is a string ("anyURI", "string",
   "None", ...) or a class (a simple-type class such as md.AnyURIListType_) *)
Inductive attr_type := AT_simple (s : string) | AT_class (name : string).

Record child_spec := {
  ch_tag : qname;            (* key of c_children: "{ns}Tag" *)
  ch_member : string;        (* python member name *)
  ch_class : option N;       (* member class (index, binary); None = the table says None *)
  ch_list : bool             (* ("member", [Class]) : list-valued *)
}.

Record attr_spec := {
  at_name : qname;           (* key of c_attributes *)
  at_member : string;
  at_type : attr_type;
  at_required : bool
}.

(* how the class parses its own element: the generic SamlBase way, or AttributeValueBase's *)
Inductive class_kind := KPlain | KAttrValue.

Record class_info := {
  c_name : string;                                    (* "saml2.saml.Assertion" *)
  c_tag : qname;                                      (* c_namespace + c_tag *)
  c_kind : class_kind;
  c_children : list child_spec;                       (* dict order *)
  c_attributes : list attr_spec;                      (* dict order *)
  c_child_order : list string;                        (* member names *)
  c_cardinality : list (string * (option nat * option nat));   (* member -> (min, max) *)
  c_any : option (list (string * string));
  c_any_attribute : option (list (string * string));
  c_value_type : option (list (string * list string));         (* base / enumeration / member / maxlen *)
  c_parse_defaults : list (string * string)           (* attribute member -> value it has after parsing an
                                                         element that lacks the attribute (constructor or
                                                         harvest_element_tree default) *)
}.

Definition table := list class_info.

Definition class_at (T : table) (c : N) : option class_info := nth_error T (N.to_nat c).

Definition find_child (ci : class_info) (tag : qname) : option child_spec :=
  find (fun s => qname_eqb (ch_tag s) tag) (c_children ci).

Definition find_attr (ci : class_info) (name : qname) : option attr_spec :=
  find (fun a => qname_eqb (at_name a) name) (c_attributes ci).

(* _get_all_c_children_with_order *)
Definition child_order (ci : class_info) : list string :=
  match c_child_order ci with
  | [] => map ch_member (c_children ci)
  | o => o
  end.

Definition smem := kmem String.eqb.
Definition snodup := nodup_b String.eqb.
Definition qnodup := nodup_b qname_eqb.

(* the two attributes AttributeValueBase manages itself *)
Definition XSI_NS : string := "http://www.w3.org/2001/XMLSchema-instance".
Definition XS_NS : string := "http://www.w3.org/2001/XMLSchema".
Definition xsi_type : qname := QN (Some XSI_NS) "type".
Definition xsi_nil : qname := QN (Some XSI_NS) "nil".

Definition reserved_members : list string :=
  ["text"; "extension_elements"; "extension_attributes"].

(* the member class of a child exists and carries exactly the tag under which it is registered *)
Definition child_ok (T : table) (s : child_spec) : bool :=
  match ch_class s with
  | Some c' => match class_at T c' with
               | Some ci' => qname_eqb (c_tag ci') (ch_tag s)
               | None => false
               end
  | None => false
  end.

(* one class parses and serialises consistently *)
Definition wf_class (T : table) (ci : class_info) : bool :=
  qnodup (map ch_tag (c_children ci))
  && snodup (map ch_member (c_children ci) ++ map at_member (c_attributes ci))
  && forallb (fun m => negb (smem m reserved_members))
             (map ch_member (c_children ci) ++ map at_member (c_attributes ci))
  && qnodup (map at_name (c_attributes ci))
  && snodup (child_order ci)
  && forallb (fun m => smem m (child_order ci)) (map ch_member (c_children ci))
  && forallb (fun m => smem m (map ch_member (c_children ci))) (child_order ci)
  && forallb (child_ok T) (c_children ci)
  && forallb (fun kv => smem (fst kv) (map at_member (c_attributes ci))) (c_parse_defaults ci)
  && forallb (fun a => negb (is_xmlns_name (at_name a))) (c_attributes ci)
  && match c_kind ci with
     | KPlain => true
     | KAttrValue => forallb (fun a => negb (qname_eqb (at_name a) xsi_type || qname_eqb (at_name a) xsi_nil))
                             (c_attributes ci)
     end.

Definition wf_table (T : table) : bool := forallb (wf_class T) T.

Definition bad_classes (T : table) : list string :=
  map c_name (filter (fun ci => negb (wf_class T ci)) T).

Lemma wf_table_class T c ci : wf_table T = true -> class_at T c = Some ci -> wf_class T ci = true.
Proof.
  unfold wf_table, class_at. intros H E. rewrite forallb_forall in H. apply H. eapply nth_error_In. exact E.
Qed.

Lemma wf_table_no_bad T : wf_table T = true <-> bad_classes T = [].
Proof.
  unfold wf_table, bad_classes. generalize T at 1 3. intros T0.
  induction T as [|ci r IH]; cbn [forallb filter map]; [tauto|].
  destruct (wf_class T0 ci); cbn [negb andb map]; [exact IH|split; discriminate].
Qed.
