(* Base/Py.v — a small dynamic value universe and the Python operations that the source-to-Gallina
   translator (harness/py2coq.py) emits.  The translator turns the TEXT of selected pure functions of
   /repo/src/saml2 into Gallina definitions over [pyval] on every run (coq/gen/CxxSrc.v); theorems of
   the form  "translated function on the encoding of x = encoding of (hand-written model x)"  then tie
   the hand-written models to the current source text by proof rather than by sampling.

   Semantics choices (all fail-closed): an operation applied to values of the wrong dynamic type gives
   [PErr]; [PErr] is not truthy, is not equal to anything, and every equivalence theorem states a
   result that is not [PErr], so a type confusion can never make a theorem true. *)
From Coq Require Import String Ascii List Bool ZArith.
From Verif Require Import Base.Str.
Import ListNotations.
Open Scope string_scope.

Inductive pyval :=
| PNone
| PBool (b : bool)
| PInt (z : Z)
| PStr (s : string)
| PList (l : list pyval)
| PObj (fields : list (string * pyval))
| PExc (name : string)          (* an exception of that class was raised *)
| PErr.                         (* dynamic type error inside the embedding *)

Definition py_truthy (v : pyval) : bool :=
  match v with
  | PNone => false
  | PBool b => b
  | PInt z => negb (Z.eqb z 0)
  | PStr s => negb (is_empty s)
  | PList l => match l with [] => false | _ => true end
  | PObj f => match f with [] => false | _ => true end   (* an empty dict is falsy; encoded objects have fields *)
  | PExc _ => false
  | PErr => false
  end.

Fixpoint assoc_py (k : string) (l : list (string * pyval)) : option pyval :=
  match l with
  | [] => None
  | (k', v) :: r => if String.eqb k k' then Some v else assoc_py k r
  end.

(* obj.name ; a missing attribute is a type error of the embedding (the encodings define every field read) *)
Definition py_attr (v : pyval) (name : string) : pyval :=
  match v with
  | PObj f => match assoc_py name f with Some x => x | None => PErr end
  | _ => PErr
  end.

(* iteration: only lists are iterated by the translated functions *)
Definition py_iter (v : pyval) : list pyval :=
  match v with PList l => l | _ => [] end.
Definition py_iterable (v : pyval) : bool := match v with PList _ => true | _ => false end.

(* a == b on the scalar types the translated functions compare *)
Definition py_eq (a b : pyval) : pyval :=
  match a, b with
  | PStr x, PStr y => PBool (String.eqb x y)
  | PInt x, PInt y => PBool (Z.eqb x y)
  | PBool x, PBool y => PBool (Bool.eqb x y)
  | PNone, PNone => PBool true
  | PNone, (PStr _ | PInt _ | PBool _) => PBool false
  | (PStr _ | PInt _ | PBool _), PNone => PBool false
  | PStr _, (PInt _ | PBool _) => PBool false
  | (PInt _ | PBool _), PStr _ => PBool false
  | _, _ => PErr
  end.
Definition py_not (a : pyval) : pyval :=
  match a with PErr => PErr | PExc n => PExc n | _ => PBool (negb (py_truthy a)) end.
Definition py_ne (a b : pyval) : pyval :=
  match py_eq a b with PBool r => PBool (negb r) | x => x end.
Definition py_is_none (a : pyval) : pyval :=
  match a with PNone => PBool true | PErr => PErr | _ => PBool false end.
Definition py_is_not_none (a : pyval) : pyval :=
  match a with PNone => PBool false | PErr => PErr | _ => PBool true end.

Definition py_cmp (f : Z -> Z -> bool) (a b : pyval) : pyval :=
  match a, b with PInt x, PInt y => PBool (f x y) | _, _ => PErr end.
Definition py_gt := py_cmp Z.gtb.
Definition py_lt := py_cmp Z.ltb.
Definition py_ge := py_cmp Z.geb.
Definition py_le := py_cmp Z.leb.

(* a + b : int addition or str concatenation *)
Definition py_add (a b : pyval) : pyval :=
  match a, b with
  | PInt x, PInt y => PInt (x + y)
  | PStr x, PStr y => PStr (x ++ y)
  | _, _ => PErr
  end.

(* `a or b` / `a and b` return one of the operands *)
Definition py_or (a b : pyval) : pyval := if py_truthy a then a else b.
Definition py_and (a b : pyval) : pyval := if py_truthy a then b else a.

(* str methods *)
Definition py_strip (a : pyval) : pyval := match a with PStr s => PStr (strip s) | _ => PErr end.
Definition py_startswith (a p : pyval) : pyval :=
  match a, p with PStr s, PStr q => PBool (startswith s q) | _, _ => PErr end.

(* s.endswith(p): some suffix of s is p *)
Fixpoint endswith (s p : string) : bool :=
  String.eqb s p || match s with EmptyString => false | String _ r => endswith r p end.
Definition py_endswith (a p : pyval) : pyval :=
  match a, p with PStr s, PStr q => PBool (endswith s q) | _, _ => PErr end.

(* s.partition(c) for a one-character separator: (head, sep-or-"", tail) *)
Fixpoint partition_on (sep : ascii) (s : string) : string * string * string :=
  match s with
  | EmptyString => (EmptyString, EmptyString, EmptyString)
  | String c r =>
      if Ascii.eqb c sep then (EmptyString, String sep EmptyString, r)
      else let '(h, m, t) := partition_on sep r in (String c h, m, t)
  end.
Definition py_partition (a p : pyval) : pyval * pyval * pyval :=
  match a, p with
  | PStr s, PStr (String c EmptyString) => let '(h, m, t) := partition_on c s in (PStr h, PStr m, PStr t)
  | _, _ => (PErr, PErr, PErr)
  end.

(* `c in s` for a one-character needle *)
Definition py_contains_char (needle hay : pyval) : pyval :=
  match needle, hay with
  | PStr (String c EmptyString), PStr s => PBool (any_char (Ascii.eqb c) s)
  | _, _ => PErr
  end.

(* `a in l` for a list l (scalar elements) or a one-character needle in a str *)
Definition py_in (a l : pyval) : pyval :=
  match l with
  | PList xs => PBool (existsb (fun x => match py_eq a x with PBool true => true | _ => false end) xs)
  | PStr _ => py_contains_char a l
  | _ => PErr
  end.

(* f-string of string pieces *)
Fixpoint py_fconcat (l : list pyval) : pyval :=
  match l with
  | [] => PStr EmptyString
  | PStr s :: r => match py_fconcat r with PStr t => PStr (s ++ t) | _ => PErr end
  | _ :: _ => PErr
  end.

(* dict-like lookup d.get(k): PObj doubles as a str-keyed dict; a missing key is None *)
Definition py_get (d k : pyval) : pyval :=
  match d, k with
  | PObj f, PStr name => match assoc_py name f with Some x => x | None => PNone end
  | PObj f, PNone => PNone          (* a None key is never present in the dicts we encode *)
  | _, _ => PErr
  end.

(* d["k"] on a str-keyed dict *)
Definition py_item (d k : pyval) : pyval :=
  match d, k with
  | PObj f, PStr name => match assoc_py name f with Some x => x | None => PExc "KeyError" end
  | _, _ => PErr
  end.

(* control flow of `for ... : ... else: ...` *)
Inductive ctl := Next | Brk | Ret (v : pyval).
Fixpoint pyfor (xs : list pyval) (body : pyval -> ctl) : ctl :=
  match xs with
  | [] => Next
  | x :: r => match body x with
              | Next => pyfor r body
              | Brk => Brk
              | Ret v => Ret v
              end
  end.
