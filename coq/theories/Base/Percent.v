(* Base/Percent.v — urllib.parse.quote / quote_plus / unquote / unquote_plus at byte level.
   A Python str is the string of its UTF-8 bytes; quote() percent-encodes every byte that is
   not in _ALWAYS_SAFE or in the caller's safe set; unquote() decodes %XX (either case) and
   leaves malformed escapes alone.  (Python additionally UTF-8-decodes the result with
   errors='replace'; the correspondence restricts itself to inputs whose decoded bytes are
   valid UTF-8 — recorded as an assumption.) *)
From Coq Require Import String Ascii List Bool Arith Lia.
From Verif Require Import Base.Str.
Import ListNotations.
Open Scope string_scope.

Definition hexdigit (n : nat) : ascii :=
  ascii_of_nat (if (n <? 10)%nat then 48 + n else 55 + n).

Definition hexval (c : ascii) : option nat :=
  let n := code c in
  if ((48 <=? n) && (n <=? 57))%nat then Some (n - 48)
  else if ((65 <=? n) && (n <=? 70))%nat then Some (n - 55)
  else if ((97 <=? n) && (n <=? 102))%nat then Some (n - 87)
  else None.

(* urllib.parse._ALWAYS_SAFE: A-Z a-z 0-9 _ . - ~ *)
Definition always_safe (c : ascii) : bool :=
  let n := code c in
  (((65 <=? n) && (n <=? 90)) || ((97 <=? n) && (n <=? 122)) || ((48 <=? n) && (n <=? 57))
   || (n =? 95) || (n =? 46) || (n =? 45) || (n =? 126))%nat.

Definition pct_char : ascii := "%"%char.
Definition plus_char : ascii := "+"%char.
Definition space_char : ascii := " "%char.

Definition pct (c : ascii) : string :=
  String pct_char (String (hexdigit (code c / 16)) (String (hexdigit (code c mod 16)) EmptyString)).

Definition quote_char (safe : ascii -> bool) (c : ascii) : string :=
  if always_safe c || safe c then String c EmptyString else pct c.

Fixpoint quote_with (safe : ascii -> bool) (s : string) : string :=
  match s with
  | EmptyString => EmptyString
  | String c r => quote_char safe c ++ quote_with safe r
  end.

Definition safe_slash (c : ascii) : bool := Ascii.eqb c "/"%char.
Definition safe_none (c : ascii) : bool := false.

(* urllib.parse.quote(s)  (default safe='/') *)
Definition quote (s : string) : string := quote_with safe_slash s.

(* urllib.parse.quote_plus(s)  (safe='') *)
Definition quote_plus_char (c : ascii) : string :=
  if Ascii.eqb c space_char then String plus_char EmptyString else quote_char safe_none c.

Fixpoint quote_plus (s : string) : string :=
  match s with
  | EmptyString => EmptyString
  | String c r => quote_plus_char c ++ quote_plus r
  end.

Fixpoint unquote (s : string) : string :=
  match s with
  | EmptyString => EmptyString
  | String c r =>
      if Ascii.eqb c pct_char then
        match r with
        | String a (String b r2) =>
            match hexval a, hexval b with
            | Some x, Some y => String (ascii_of_nat (16 * x + y)) (unquote r2)
            | _, _ => String c (unquote r)
            end
        | _ => String c (unquote r)
        end
      else String c (unquote r)
  end.

Fixpoint plus_to_space (s : string) : string :=
  match s with
  | EmptyString => EmptyString
  | String c r => String (if Ascii.eqb c plus_char then space_char else c) (plus_to_space r)
  end.

Definition unquote_plus (s : string) : string := unquote (plus_to_space s).

(* ------------------------------------------------------------------ lemmas *)

Lemma all_ascii (P : ascii -> bool) :
  forallb P (map ascii_of_nat (seq 0 256)) = true -> forall c, P c = true.
Proof.
  intros H c. rewrite forallb_forall in H. apply H.
  rewrite <- (ascii_nat_embedding c). apply in_map. apply in_seq.
  pose proof (nat_ascii_bounded c). lia.
Qed.

Lemma unquote_pct_all :
  forall c, (match hexval (hexdigit (code c / 16)), hexval (hexdigit (code c mod 16)) with
             | Some x, Some y => Ascii.eqb (ascii_of_nat (16 * x + y)) c
             | _, _ => false
             end) = true.
Proof.
  apply (all_ascii (fun c => match hexval (hexdigit (code c / 16)), hexval (hexdigit (code c mod 16)) with
             | Some x, Some y => Ascii.eqb (ascii_of_nat (16 * x + y)) c
             | _, _ => false
             end)).
  vm_compute. reflexivity.
Qed.

Lemma unquote_pct c r : unquote (pct c ++ r) = String c (unquote r).
Proof.
  unfold pct. cbn [append unquote]. change (Ascii.eqb pct_char pct_char) with true. cbn iota.
  pose proof (unquote_pct_all c) as H.
  destruct (hexval (hexdigit (code c / 16))) as [x|]; [|discriminate].
  destruct (hexval (hexdigit (code c mod 16))) as [y|]; [|discriminate].
  apply Ascii.eqb_eq in H. rewrite H. reflexivity.
Qed.

Lemma unquote_plain c r : Ascii.eqb c pct_char = false -> unquote (String c r) = String c (unquote r).
Proof. intros H. cbn [unquote]. rewrite H. reflexivity. Qed.

Lemma always_safe_not_pct c : always_safe c = true -> Ascii.eqb c pct_char = false.
Proof.
  assert (H : forall c, implb (always_safe c) (negb (Ascii.eqb c pct_char)) = true).
  { apply (all_ascii (fun c => implb (always_safe c) (negb (Ascii.eqb c pct_char)))). vm_compute. reflexivity. }
  intros Hs. specialize (H c). rewrite Hs in H. cbn in H. apply negb_true_iff in H. exact H.
Qed.

Lemma unquote_quote_char safe c r :
  safe pct_char = false -> unquote (quote_char safe c ++ r) = String c (unquote r).
Proof.
  intros Hs. unfold quote_char. destruct (always_safe c || safe c) eqn:E.
  - cbn [append]. apply unquote_plain. apply orb_true_iff in E as [E|E].
    + apply always_safe_not_pct; exact E.
    + destruct (Ascii.eqb c pct_char) eqn:Ec; [|reflexivity].
      apply Ascii.eqb_eq in Ec. subst c. congruence.
  - apply unquote_pct.
Qed.

Theorem unquote_quote_with safe s : safe pct_char = false -> unquote (quote_with safe s) = s.
Proof.
  intros Hs. induction s as [|c r IH]; cbn [quote_with]; [reflexivity|].
  rewrite unquote_quote_char by exact Hs. rewrite IH. reflexivity.
Qed.

Theorem unquote_quote s : unquote (quote s) = s.
Proof. apply unquote_quote_with. reflexivity. Qed.

Theorem quote_injective a b : quote a = quote b -> a = b.
Proof. intros H. rewrite <- (unquote_quote a), <- (unquote_quote b), H. reflexivity. Qed.

(* alphabet of the encodings *)
Definition is_upper_hex (c : ascii) : bool :=
  let n := code c in (((48 <=? n) && (n <=? 57)) || ((65 <=? n) && (n <=? 70)))%nat.

Definition quoted_alphabet (safe : ascii -> bool) (c : ascii) : bool :=
  always_safe c || safe c || Ascii.eqb c pct_char.

Lemma all_chars_app p a b : all_chars p (a ++ b) = all_chars p a && all_chars p b.
Proof. induction a as [|c r IH]; cbn; [reflexivity|]. rewrite IH, andb_assoc. reflexivity. Qed.

Lemma hexdigit_always_safe : forall c, always_safe (hexdigit (code c / 16)) && always_safe (hexdigit (code c mod 16)) = true.
Proof.
  apply (all_ascii (fun c => always_safe (hexdigit (code c / 16)) && always_safe (hexdigit (code c mod 16)))).
  vm_compute. reflexivity.
Qed.

Lemma quote_char_alphabet safe c : all_chars (quoted_alphabet safe) (quote_char safe c) = true.
Proof.
  unfold quote_char. destruct (always_safe c || safe c) eqn:E.
  - cbn. unfold quoted_alphabet. rewrite E. reflexivity.
  - unfold pct. cbn [all_chars]. unfold quoted_alphabet at 1.
    change (Ascii.eqb pct_char pct_char) with true. rewrite orb_true_r. cbn [andb].
    pose proof (hexdigit_always_safe c) as H. apply andb_true_iff in H as [H1 H2].
    unfold quoted_alphabet. rewrite H1, H2. reflexivity.
Qed.

Theorem quote_with_alphabet safe s : all_chars (quoted_alphabet safe) (quote_with safe s) = true.
Proof.
  induction s as [|c r IH]; cbn [quote_with]; [reflexivity|].
  rewrite all_chars_app, quote_char_alphabet, IH. reflexivity.
Qed.

(* quote_plus *)
Definition plus_alphabet (c : ascii) : bool :=
  always_safe c || Ascii.eqb c pct_char || Ascii.eqb c plus_char.

Lemma quote_plus_char_alphabet c : all_chars plus_alphabet (quote_plus_char c) = true.
Proof.
  unfold quote_plus_char. destruct (Ascii.eqb c space_char).
  - reflexivity.
  - pose proof (quote_char_alphabet safe_none c) as H.
    revert H. generalize (quote_char safe_none c). intros q. induction q as [|d q IH]; cbn; [reflexivity|].
    intros H. apply andb_true_iff in H as [H1 H2]. rewrite (IH H2), andb_true_r.
    unfold quoted_alphabet, safe_none in H1. unfold plus_alphabet. rewrite orb_false_r in H1.
    rewrite H1. reflexivity.
Qed.

Theorem quote_plus_alphabet s : all_chars plus_alphabet (quote_plus s) = true.
Proof.
  induction s as [|c r IH]; cbn [quote_plus]; [reflexivity|].
  rewrite all_chars_app, quote_plus_char_alphabet, IH. reflexivity.
Qed.

Lemma plus_to_space_app a b : plus_to_space (a ++ b) = plus_to_space a ++ plus_to_space b.
Proof. induction a as [|c r IH]; cbn; [reflexivity|]. rewrite IH. reflexivity. Qed.

Lemma plus_to_space_noplus s : all_chars (fun c => negb (Ascii.eqb c plus_char)) s = true -> plus_to_space s = s.
Proof.
  induction s as [|c r IH]; cbn; [reflexivity|]. intros H. apply andb_true_iff in H as [H1 H2].
  apply negb_true_iff in H1. rewrite H1, (IH H2). reflexivity.
Qed.

Lemma quote_char_none_noplus : forall c,
  Ascii.eqb c space_char = false ->
  all_chars (fun d => negb (Ascii.eqb d plus_char)) (quote_char safe_none c) = true.
Proof.
  assert (H : forall c, all_chars (fun d => negb (Ascii.eqb d plus_char)) (quote_char safe_none c) = true).
  { apply (all_ascii (fun c => all_chars (fun d => negb (Ascii.eqb d plus_char)) (quote_char safe_none c))).
    vm_compute. reflexivity. }
  intros c _. apply H.
Qed.

Lemma unquote_plus_char c r :
  unquote (plus_to_space (quote_plus_char c) ++ r) = String c (unquote r).
Proof.
  unfold quote_plus_char. destruct (Ascii.eqb c space_char) eqn:E.
  - apply Ascii.eqb_eq in E. subst c. reflexivity.
  - rewrite plus_to_space_noplus by (apply quote_char_none_noplus; exact E).
    apply unquote_quote_char. reflexivity.
Qed.

Theorem unquote_plus_quote_plus s : unquote_plus (quote_plus s) = s.
Proof.
  unfold unquote_plus. induction s as [|c r IH]; cbn [quote_plus]; [reflexivity|].
  rewrite plus_to_space_app, unquote_plus_char, IH. reflexivity.
Qed.

Theorem quote_plus_injective a b : quote_plus a = quote_plus b -> a = b.
Proof. intros H. rewrite <- (unquote_plus_quote_plus a), <- (unquote_plus_quote_plus b), H. reflexivity. Qed.

(* characters that can never occur in quote_plus output: the query-string structure characters *)
Lemma plus_alphabet_excludes c :
  plus_alphabet c = true ->
  c <> "&"%char /\ c <> "="%char /\ c <> "?"%char /\ c <> "#"%char /\ c <> ";"%char /\ c <> " "%char.
Proof.
  assert (H : forall c, implb (plus_alphabet c)
     (negb (Ascii.eqb c "&") && negb (Ascii.eqb c "=") && negb (Ascii.eqb c "?") && negb (Ascii.eqb c "#")
      && negb (Ascii.eqb c ";") && negb (Ascii.eqb c " "))%char = true).
  { apply (all_ascii (fun c => implb (plus_alphabet c)
     (negb (Ascii.eqb c "&") && negb (Ascii.eqb c "=") && negb (Ascii.eqb c "?") && negb (Ascii.eqb c "#")
      && negb (Ascii.eqb c ";") && negb (Ascii.eqb c " "))%char)). vm_compute. reflexivity. }
  intros Hc. specialize (H c). rewrite Hc in H. cbn [implb] in H.
  repeat (apply andb_true_iff in H as [H ?]).
  repeat split; intros ->; discriminate.
Qed.
