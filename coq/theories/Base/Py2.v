(* Base/Py2.v — operations emitted by the second-generation source-to-Gallina translator
   (harness/py2coq2.py) over the value universe [pyval] of Base/Py.v, and the lemma library that
   equivalence proofs (Cxx/Source2.v) use.  notes/translator_v2.md is the reference of the subset.

   Semantics (fail-closed):
   * [PExc n] = "an exception of class n was raised", [PErr] = "dynamic type confusion inside the
     embedding" (Python would raise TypeError, or the construct is outside the modelled fragment).
     Every operation is strict in both, left to right: the first [PExc]/[PErr] operand is the result.
     [PErr] is never caught by a translated [except], is never truthy and is equal to nothing.
   * objects and str-keyed dicts share [PObj]; an OBJECT is a [PObj] whose FIRST field is
     ["__class__"] (the class name as [PStr]); dict operations refuse objects, attribute operations
     refuse dicts, and no operation creates or removes a ["__class__"] entry.
   * str is the Coq string of its UTF-8 bytes; operations whose result depends on code points
     (len, index, find, lower, upper, iteration) refuse ([PErr]) strings with a byte >= 128.
   * bool is a subtype of int, as in Python: True == 1, True + 1 == 2. *)
From Coq Require Import String Ascii List Bool ZArith Arith Lia DecimalString.
From Verif Require Import Base.Str Base.Py.
Import ListNotations.
Open Scope string_scope.

(* ------------------------------------------------------------------ exceptions, sequencing *)
Definition is_bad (v : pyval) : bool := match v with PExc _ | PErr => true | _ => false end.

(* general bind: [err] is the result for PErr, [h] the handler in force *)
Definition p2_bind {T : Type} (err : T) (h : string -> T) (e : pyval) (k : pyval -> T) : T :=
  match e with PExc n => h n | PErr => err | v => k v end.

Definition py_bind (e : pyval) (k : pyval -> pyval) : pyval :=
  match e with PExc n => PExc n | PErr => PErr | v => k v end.
Definition py_cond (c a b : pyval) : pyval :=
  match c with PExc n => PExc n | PErr => PErr | _ => if py_truthy c then a else b end.

(* the test of an [if]: evaluated once, the branches stay lazy under vm_compute *)
Inductive branch := BTrue | BFalse | BExc (n : string) | BErr.
Definition p2_branch (c : pyval) : branch :=
  match c with PExc n => BExc n | PErr => BErr | _ => if py_truthy c then BTrue else BFalse end.

(* loop control with carried state; [ExcS]: an exception left the loop body (state at the raise point) *)
Inductive ctl2 :=
| NextS (st : list pyval)
| BrkS (st : list pyval)
| RetS (v : pyval)
| ExcS (n : string) (st : list pyval).

Fixpoint pyfor2 (xs : list pyval) (st : list pyval) (body : list pyval -> pyval -> ctl2) : ctl2 :=
  match xs with
  | [] => NextS st
  | x :: r => match body st x with
              | NextS st' => pyfor2 r st' body
              | c => c
              end
  end.

(* [while]: recursion on explicit fuel.  Out of fuel is [RetS PErr] - a poisoned value, never a normal answer -
   so that a theorem about a translated [while] must be stated for fuel that suffices. *)
Fixpoint pywhile2 (fuel : nat) (st : list pyval) (test : list pyval -> pyval) (body : list pyval -> ctl2) : ctl2 :=
  match fuel with
  | O => RetS PErr
  | S f => match test st with
           | PExc n => ExcS n st
           | PErr => RetS PErr
           | c => if py_truthy c
                  then match body st with
                       | NextS st' => pywhile2 f st' test body
                       | r => r
                       end
                  else NextS st
           end
  end.

(* bind with an explicit handler, function level / loop level *)
Definition py_bindh (h : string -> pyval) (e : pyval) (k : pyval -> pyval) : pyval := p2_bind PErr h e k.
Definition py_bindS (h : string -> ctl2) (e : pyval) (k : pyval -> ctl2) : ctl2 := p2_bind (RetS PErr) h e k.

Definition exc_matches (n : string) (names : list string) : bool := mem n names.

(* lifting of operations on good values to strict operations *)
Definition s1 (f : pyval -> pyval) (a : pyval) : pyval := py_bind a f.
Definition s2 (f : pyval -> pyval -> pyval) (a b : pyval) : pyval :=
  py_bind a (fun a' => py_bind b (fun b' => f a' b')).
Definition s3 (f : pyval -> pyval -> pyval -> pyval) (a b c : pyval) : pyval :=
  py_bind a (fun a' => py_bind b (fun b' => py_bind c (fun c' => f a' b' c'))).

(* ------------------------------------------------------------------ objects vs dicts *)
Definition is_obj (f : list (string * pyval)) : bool :=
  match f with (k, _) :: _ => String.eqb k "__class__" | [] => false end.
Definition is_object (v : pyval) : bool := match v with PObj f => is_obj f | _ => false end.
Definition is_dict (v : pyval) : bool := match v with PObj f => negb (is_obj f) | _ => false end.

Definition class_of (v : pyval) : option string :=
  match v with PObj (("__class__", PStr c) :: _) => Some c | _ => None end.

(* ------------------------------------------------------------------ numbers, equality, order *)
Definition as_z (v : pyval) : option Z :=
  match v with PInt z => Some z | PBool b => Some (if b then 1 else 0)%Z | _ => None end.

Definition cmp_ok (v : pyval) : bool := negb (is_bad v) && negb (is_object v).

(* structural ==; None: an exception value, a type confusion or an object (identity is not modelled) is involved *)
Fixpoint pv_eq (a b : pyval) {struct a} : option bool :=
  if negb (cmp_ok a && cmp_ok b) then None else
  match a, b with
  | PNone, PNone => Some true
  | PBool x, PBool y => Some (Bool.eqb x y)
  | PInt x, PInt y => Some (Z.eqb x y)
  | PBool x, PInt y => Some (Z.eqb (if x then 1 else 0) y)
  | PInt x, PBool y => Some (Z.eqb x (if y then 1 else 0))
  | PStr x, PStr y => Some (String.eqb x y)
  | PList x, PList y =>
      (fix go (x y : list pyval) {struct x} : option bool :=
         match x, y with
         | [], [] => Some true
         | u :: x', w :: y' => match pv_eq u w with Some true => go x' y' | r => r end
         | _, _ => Some false
         end) x y
  | PObj x, PObj y =>
      if negb (Nat.eqb (length x) (length y)) then Some false else
      (fix go (x : list (string * pyval)) {struct x} : option bool :=
         match x with
         | [] => Some true
         | (k, u) :: x' => match assoc_py k y with
                           | None => Some false
                           | Some w => match pv_eq u w with Some true => go x' | r => r end
                           end
         end) x
  | _, _ => Some false
  end.

Definition p2_eq : pyval -> pyval -> pyval :=
  s2 (fun a b => match pv_eq a b with Some r => PBool r | None => PErr end).
Definition p2_ne : pyval -> pyval -> pyval :=
  s2 (fun a b => match pv_eq a b with Some r => PBool (negb r) | None => PErr end).

Definition cmp_raw (fz : Z -> Z -> bool) (fs : string -> string -> bool) (a b : pyval) : pyval :=
  match as_z a, as_z b with
  | Some x, Some y => PBool (fz x y)
  | _, _ => match a, b with PStr x, PStr y => PBool (fs x y) | _, _ => PErr end
  end.
(* str order = byte order of the UTF-8 encodings = code point order *)
Definition p2_lt := s2 (cmp_raw Z.ltb String.ltb).
Definition p2_le := s2 (cmp_raw Z.leb String.leb).
Definition p2_gt := s2 (cmp_raw Z.gtb (fun x y => String.ltb y x)).
Definition p2_ge := s2 (cmp_raw Z.geb (fun x y => String.leb y x)).

Definition p2_not : pyval -> pyval := s1 (fun a => PBool (negb (py_truthy a))).
Definition p2_bool : pyval -> pyval := s1 (fun a => PBool (py_truthy a)).
Definition p2_is_none : pyval -> pyval := s1 (fun a => match a with PNone => PBool true | _ => PBool false end).
Definition p2_is_not_none : pyval -> pyval := s1 (fun a => match a with PNone => PBool false | _ => PBool true end).
(* `x is True` / `x is False` *)
Definition p2_is_bool (c : bool) : pyval -> pyval :=
  s1 (fun a => match a with PBool b => PBool (Bool.eqb b c) | _ => PBool false end).

(* short-circuit: the right operand only counts when it is selected *)
Definition p2_or (a b : pyval) : pyval :=
  match a with PExc _ | PErr => a | _ => if py_truthy a then a else b end.
Definition p2_and (a b : pyval) : pyval :=
  match a with PExc _ | PErr => a | _ => if py_truthy a then b else a end.
Definition p2_ifexp (c a b : pyval) : pyval := py_cond c a b.

Definition p2_add : pyval -> pyval -> pyval :=
  s2 (fun a b => match as_z a, as_z b with
                 | Some x, Some y => PInt (x + y)
                 | _, _ => match a, b with
                           | PStr x, PStr y => PStr (x ++ y)
                           | PList x, PList y => PList (x ++ y)
                           | _, _ => PErr
                           end
                 end).
Definition p2_sub : pyval -> pyval -> pyval :=
  s2 (fun a b => match as_z a, as_z b with Some x, Some y => PInt (x - y) | _, _ => PErr end).
Definition p2_mul : pyval -> pyval -> pyval :=
  s2 (fun a b => match as_z a, as_z b with Some x, Some y => PInt (x * y) | _, _ => PErr end).
Definition p2_neg : pyval -> pyval :=
  s1 (fun a => match as_z a with Some x => PInt (- x) | None => PErr end).

(* ------------------------------------------------------------------ str *)
Definition is_ascii_char (c : ascii) : bool := (code c <? 128)%nat.
Definition all_ascii (s : string) : bool := all_chars is_ascii_char s.

Definition upper_char (c : ascii) : ascii :=
  let n := code c in
  if ((97 <=? n)%nat && (n <=? 122)%nat) then ascii_of_nat (n - 32) else c.
Fixpoint upper (s : string) : string :=
  match s with EmptyString => EmptyString | String c r => String (upper_char c) (upper r) end.

(* ASCII only: Unicode case mapping is not modelled, a non-ASCII str is refused *)
Definition p2_lower : pyval -> pyval :=
  s1 (fun a => match a with PStr s => if all_ascii s then PStr (lower s) else PErr | _ => PErr end).
Definition p2_upper : pyval -> pyval :=
  s1 (fun a => match a with PStr s => if all_ascii s then PStr (upper s) else PErr | _ => PErr end).

(* leftmost occurrence of p in s (byte offset) *)
Fixpoint find_sub (p s : string) : option nat :=
  if String.prefix p s then Some O
  else match s with EmptyString => None | String _ r => option_map S (find_sub p r) end.

Definition p2_find : pyval -> pyval -> pyval :=
  s2 (fun a p => match a, p with
                 | PStr s, PStr q =>
                     if all_ascii s && all_ascii q
                     then match find_sub q s with Some i => PInt (Z.of_nat i) | None => PInt (-1) end
                     else PErr
                 | _, _ => PErr
                 end).

(* s.split(sep) for a non-empty separator of any length *)
Fixpoint split_go (sep : string) (skip : nat) (s : string) : list string :=
  match s with
  | EmptyString => [EmptyString]
  | String c r =>
      match skip with
      | S k => split_go sep k r
      | O => if String.prefix sep s then EmptyString :: split_go sep (String.length sep - 1) r
             else match split_go sep O r with
                  | f :: fs => String c f :: fs
                  | [] => [String c EmptyString]
                  end
      end
  end.
Definition split_str (sep s : string) : list string := split_go sep O s.

Definition p2_split : pyval -> pyval -> pyval :=
  s2 (fun a p => match a, p with
                 | PStr s, PStr EmptyString => PExc "ValueError"
                 | PStr s, PStr q => PList (map PStr (split_str q s))
                 | _, _ => PErr
                 end).

(* s.split(): runs of ASCII whitespace separate, no empty fields *)
Fixpoint split_ws_go (cur : option string) (s : string) : list string :=
  match s with
  | EmptyString => match cur with Some w => [w] | None => [] end
  | String c r =>
      if is_ws c then match cur with Some w => w :: split_ws_go None r | None => split_ws_go None r end
      else split_ws_go (Some (match cur with Some w => w ++ String c EmptyString | None => String c EmptyString end)) r
  end.
Definition p2_split_ws : pyval -> pyval :=
  s1 (fun a => match a with
               | PStr s => if all_ascii s then PList (map PStr (split_ws_go None s)) else PErr
               | _ => PErr
               end).

(* s.partition(sep) -> [head; sep or ""; tail] *)
Definition p2_partition : pyval -> pyval -> pyval :=
  s2 (fun a p => match a, p with
                 | PStr s, PStr EmptyString => PExc "ValueError"
                 | PStr s, PStr q =>
                     match find_sub q s with
                     | Some i => PList [PStr (substring 0 i s); PStr q;
                                        PStr (substring (i + String.length q) (String.length s) s)]
                     | None => PList [PStr s; PStr EmptyString; PStr EmptyString]
                     end
                 | _, _ => PErr
                 end).

Fixpoint strs_of (l : list pyval) : option (list string) :=
  match l with
  | [] => Some []
  | PStr s :: r => match strs_of r with Some t => Some (s :: t) | None => None end
  | _ :: _ => None
  end.

(* sep.join(l) *)
Definition p2_join : pyval -> pyval -> pyval :=
  s2 (fun p l => match p, l with
                 | PStr sep, PList xs => match strs_of xs with Some ss => PStr (join sep ss) | None => PErr end
                 | _, _ => PErr
                 end).

Definition p2_replace : pyval -> pyval -> pyval -> pyval :=
  s3 (fun a o n => match a, o, n with
                   | PStr s, PStr EmptyString, PStr _ => PErr      (* insertion between characters: not modelled *)
                   | PStr s, PStr old, PStr new => PStr (join new (split_str old s))
                   | _, _, _ => PErr
                   end).

(* strip(): ASCII whitespace; refused when a non-ASCII byte ends up at either end (it could be Unicode whitespace) *)
Definition end_ascii (s : string) : bool :=
  match first_char s, last_char s with
  | Some a, Some b => is_ascii_char a && is_ascii_char b
  | _, _ => true
  end.
Definition guard_ends (s : string) : pyval := if end_ascii s then PStr s else PErr.
Definition p2_strip : pyval -> pyval := s1 (fun a => match a with PStr s => guard_ends (strip s) | _ => PErr end).
Definition p2_lstrip : pyval -> pyval := s1 (fun a => match a with PStr s => guard_ends (lstrip s) | _ => PErr end).
Definition p2_rstrip : pyval -> pyval := s1 (fun a => match a with PStr s => guard_ends (rstrip s) | _ => PErr end).

(* strip(chars) *)
Definition in_chars (cs : string) (c : ascii) : bool := any_char (Ascii.eqb c) cs.
Fixpoint lstrip_chars (cs s : string) : string :=
  match s with EmptyString => EmptyString | String c r => if in_chars cs c then lstrip_chars cs r else s end.
Fixpoint rstrip_chars (cs s : string) : string :=
  match s with
  | EmptyString => EmptyString
  | String c r => let r' := rstrip_chars cs r in
                  if in_chars cs c && is_empty r' then EmptyString else String c r'
  end.
Definition strip_with (f : string -> string -> string) : pyval -> pyval -> pyval :=
  s2 (fun a p => match a, p with
                 | PStr s, PStr cs => if all_ascii cs then PStr (f cs s) else PErr
                 | _, _ => PErr
                 end).
Definition p2_strip_chars := strip_with (fun cs s => rstrip_chars cs (lstrip_chars cs s)).
Definition p2_lstrip_chars := strip_with lstrip_chars.
Definition p2_rstrip_chars := strip_with rstrip_chars.

(* startswith / endswith: a str or a tuple of str *)
Definition affix_raw (f : string -> string -> bool) (a p : pyval) : pyval :=
  match a, p with
  | PStr s, PStr q => PBool (f s q)
  | PStr s, PList qs => match strs_of qs with Some l => PBool (existsb (f s) l) | None => PErr end
  | _, _ => PErr
  end.
Definition p2_startswith := s2 (affix_raw startswith).
Definition p2_endswith := s2 (affix_raw endswith).

Definition dec_of_Z (z : Z) : string := NilZero.string_of_int (Z.to_int z).

(* str(x) / the conversion of f-strings and format(): str, int, bool, None *)
Definition p2_str : pyval -> pyval :=
  s1 (fun a => match a with
               | PStr s => PStr s
               | PInt z => PStr (dec_of_Z z)
               | PBool b => PStr (if b then "True" else "False")
               | PNone => PStr "None"
               | _ => PErr
               end).

Fixpoint p2_fconcat (l : list pyval) : pyval :=
  match l with
  | [] => PStr EmptyString
  | PStr s :: r => match p2_fconcat r with PStr t => PStr (s ++ t) | x => x end
  | PExc n :: _ => PExc n
  | _ :: _ => PErr
  end.

Definition is_digit (c : ascii) : bool := let n := code c in (48 <=? n)%nat && (n <=? 57)%nat.
Fixpoint digits_val (acc : Z) (s : string) : Z :=
  match s with
  | EmptyString => acc
  | String c r => digits_val (acc * 10 + Z.of_nat (code c - 48)) r
  end.
(* characters that int() tolerates in ways that are not modelled: whitespace, '_', '+', non-ASCII digits *)
Definition int_odd (c : ascii) : bool :=
  is_ws c || negb (is_ascii_char c) || Ascii.eqb c "_"%char || Ascii.eqb c "+"%char.
Definition int_of_str (s : string) : pyval :=
  if any_char int_odd s then PErr
  else match s with
       | EmptyString => PExc "ValueError"
       | String "-"%char r =>
           if negb (is_empty r) && all_chars is_digit r then PInt (- digits_val 0 r) else PExc "ValueError"
       | _ => if all_chars is_digit s then PInt (digits_val 0 s) else PExc "ValueError"
       end.
Definition p2_int : pyval -> pyval :=
  s1 (fun a => match a with
               | PStr s => int_of_str s
               | PInt z => PInt z
               | PBool b => PInt (if b then 1 else 0)
               | _ => PErr
               end).

(* ------------------------------------------------------------------ association lists *)
Fixpoint set_assoc (k : string) (v : pyval) (l : list (string * pyval)) : list (string * pyval) :=
  match l with
  | [] => [(k, v)]
  | (k', w) :: r => if String.eqb k k' then (k', v) :: r else (k', w) :: set_assoc k v r
  end.
Fixpoint del_assoc (k : string) (l : list (string * pyval)) : list (string * pyval) :=
  match l with
  | [] => []
  | (k', w) :: r => if String.eqb k k' then r else (k', w) :: del_assoc k r
  end.

(* dict keys: str; None/int/bool are hashable but never present in a str-keyed dict *)
Inductive keyk := KStr (s : string) | KAbsent | KBad.
Definition key_of (k : pyval) : keyk :=
  match k with PStr s => KStr s | PNone | PInt _ | PBool _ => KAbsent | _ => KBad end.

(* ------------------------------------------------------------------ containers *)
Definition nth_index (i : Z) (n : nat) : option nat :=
  let j := if (i <? 0)%Z then (i + Z.of_nat n)%Z else i in
  if (0 <=? j)%Z && (j <? Z.of_nat n)%Z then Some (Z.to_nat j) else None.

Definition char_str (c : ascii) : pyval := PStr (String c EmptyString).

(* x[k] *)
Definition p2_getitem : pyval -> pyval -> pyval :=
  s2 (fun c k =>
        match c with
        | PList l => match as_z k with
                     | Some i => match nth_index i (length l) with
                                 | Some j => nth j l PErr
                                 | None => PExc "IndexError"
                                 end
                     | None => PErr
                     end
        | PStr s => match as_z k with
                    | Some i => if all_ascii s
                                then match nth_index i (String.length s) with
                                     | Some j => match String.get j s with Some ch => char_str ch | None => PErr end
                                     | None => PExc "IndexError"
                                     end
                                else PErr
                    | None => PErr
                    end
        | PObj f => if is_obj f then PErr else
                    match key_of k with
                    | KStr name => match assoc_py name f with Some x => x | None => PExc "KeyError" end
                    | KAbsent => PExc "KeyError"
                    | KBad => PErr
                    end
        | _ => PErr
        end).

(* x[lo:hi] on lists and ASCII str; None bounds are passed as PNone *)
Definition slice_bound (b : pyval) (n : nat) (dflt : nat) : option nat :=
  match b with
  | PNone => Some dflt
  | _ => match as_z b with
         | Some i => let j := if (i <? 0)%Z then (i + Z.of_nat n)%Z else i in
                     Some (Nat.min n (Z.to_nat (Z.max 0 j)))
         | None => None
         end
  end.
Definition p2_slice : pyval -> pyval -> pyval -> pyval :=
  s3 (fun c lo hi =>
        match c with
        | PList l => match slice_bound lo (length l) 0, slice_bound hi (length l) (length l) with
                     | Some a, Some b => PList (firstn (b - a) (skipn a l))
                     | _, _ => PErr
                     end
        | PStr s => if all_ascii s then
                      match slice_bound lo (String.length s) 0, slice_bound hi (String.length s) (String.length s) with
                      | Some a, Some b => PStr (substring a (b - a) s)
                      | _, _ => PErr
                      end
                    else PErr
        | _ => PErr
        end).

Definition p2_len : pyval -> pyval :=
  s1 (fun a => match a with
               | PStr s => if all_ascii s then PInt (Z.of_nat (String.length s)) else PErr
               | PList l => PInt (Z.of_nat (length l))
               | PObj f => if is_obj f then PErr else PInt (Z.of_nat (length f))
               | _ => PErr
               end).

(* iteration: list elements, dict keys, characters of an ASCII str *)
Definition p2_iterable (v : pyval) : bool :=
  match v with
  | PList _ => true
  | PObj f => negb (is_obj f)
  | PStr s => all_ascii s
  | _ => false
  end.
Definition py_iter2 (v : pyval) : list pyval :=
  match v with
  | PList l => l
  | PObj f => if is_obj f then [] else map (fun kv => PStr (fst kv)) f
  | PStr s => if all_ascii s then map char_str (list_ascii_of_string s) else []
  | _ => []
  end.
(* list(x) / tuple(x) *)
Definition p2_list : pyval -> pyval := s1 (fun a => if p2_iterable a then PList (py_iter2 a) else PErr).

(* the value a [for] iterates: itself when iterable, PErr otherwise (exceptions pass) *)
Definition p2_iter_check (v : pyval) : pyval :=
  match v with PExc n => PExc n | PErr => PErr | _ => if p2_iterable v then v else PErr end.

Definition p2_append : pyval -> pyval -> pyval :=
  s2 (fun l y => match l with PList xs => PList (xs ++ [y]) | _ => PErr end).
Definition p2_extend : pyval -> pyval -> pyval :=
  s2 (fun l y => match l with PList xs => if p2_iterable y then PList (xs ++ py_iter2 y) else PErr | _ => PErr end).

(* membership *)
Fixpoint list_has (x : pyval) (l : list pyval) : option bool :=
  match l with
  | [] => Some false
  | y :: r => match pv_eq x y with Some true => Some true | Some false => list_has x r | None => None end
  end.
Definition p2_in : pyval -> pyval -> pyval :=
  s2 (fun x c =>
        match c with
        | PList l => match list_has x l with Some b => PBool b | None => PErr end
        | PObj f => if is_obj f then PErr else
                    match key_of x with
                    | KStr name => PBool (match assoc_py name f with Some _ => true | None => false end)
                    | KAbsent => PBool false
                    | KBad => PErr
                    end
        | PStr s => match x with
                    | PStr q => PBool (match find_sub q s with Some _ => true | None => false end)
                    | _ => PErr
                    end
        | _ => PErr
        end).
Definition p2_not_in (x c : pyval) : pyval := p2_not (p2_in x c).

(* dict reads *)
Definition p2_get3 : pyval -> pyval -> pyval -> pyval :=
  s3 (fun d k dflt =>
        match d with
        | PObj f => if is_obj f then PErr else
                    match key_of k with
                    | KStr name => match assoc_py name f with Some x => x | None => dflt end
                    | KAbsent => dflt
                    | KBad => PErr
                    end
        | _ => PErr
        end).
Definition p2_get (d k : pyval) : pyval := p2_get3 d k PNone.

Definition dict_view (g : string * pyval -> pyval) : pyval -> pyval :=
  s1 (fun d => match d with PObj f => if is_obj f then PErr else PList (map g f) | _ => PErr end).
Definition p2_keys := dict_view (fun kv => PStr (fst kv)).
Definition p2_values := dict_view snd.
Definition p2_items := dict_view (fun kv => PList [PStr (fst kv); snd kv]).

(* dict / list writes (value semantics: the translator rebinds the receiver name) *)
Definition dict_key_ok (name : string) : bool := negb (String.eqb name "__class__").

Fixpoint set_nth (j : nat) (v : pyval) (l : list pyval) : list pyval :=
  match l, j with
  | [], _ => []
  | _ :: r, O => v :: r
  | x :: r, S j' => x :: set_nth j' v r
  end.

Definition p2_setitem : pyval -> pyval -> pyval -> pyval :=
  s3 (fun d k v =>
        match d with
        | PObj f => if is_obj f then PErr else
                    match k with
                    | PStr name => if dict_key_ok name then PObj (set_assoc name v f) else PErr
                    | _ => PErr          (* only str keys can be stored *)
                    end
        | PList l => match as_z k with
                     | Some i => match nth_index i (length l) with
                                 | Some j => PList (set_nth j v l)
                                 | None => PExc "IndexError"
                                 end
                     | None => PErr
                     end
        | _ => PErr
        end).

Definition p2_delitem : pyval -> pyval -> pyval :=
  s2 (fun d k =>
        match d with
        | PObj f => if is_obj f then PErr else
                    match key_of k with
                    | KStr name => match assoc_py name f with
                                   | Some _ => PObj (del_assoc name f)
                                   | None => PExc "KeyError"
                                   end
                    | KAbsent => PExc "KeyError"
                    | KBad => PErr
                    end
        | _ => PErr
        end).

Definition p2_update : pyval -> pyval -> pyval :=
  s2 (fun d e =>
        match d, e with
        | PObj f, PObj g => if is_obj f || is_obj g then PErr
                            else PObj (fold_left (fun acc kv => set_assoc (fst kv) (snd kv) acc) g f)
        | _, _ => PErr
        end).

(* d.pop(k, dflt): the value and the remaining dict; without default: p2_pop_val1 (KeyError) *)
Definition p2_pop_val : pyval -> pyval -> pyval -> pyval := p2_get3.
Definition p2_pop_val1 (d k : pyval) : pyval :=
  match d with
  | PObj _ => p2_getitem d k
  | PExc _ | PErr => d
  | _ => py_bind k (fun _ => PErr)
  end.
Definition p2_pop_rest : pyval -> pyval -> pyval :=
  s2 (fun d k =>
        match d with
        | PObj f => if is_obj f then PErr else
                    match key_of k with
                    | KStr name => PObj (del_assoc name f)
                    | KAbsent => d
                    | KBad => PErr
                    end
        | _ => PErr
        end).

(* d.setdefault(k, dflt): the value and the dict afterwards *)
Definition p2_setdefault_val : pyval -> pyval -> pyval -> pyval :=
  s3 (fun d k dflt =>
        match d, k with
        | PObj f, PStr name => if is_obj f || negb (dict_key_ok name) then PErr
                               else match assoc_py name f with Some x => x | None => dflt end
        | _, _ => PErr
        end).
Definition p2_setdefault_dict : pyval -> pyval -> pyval -> pyval :=
  s3 (fun d k dflt =>
        match d, k with
        | PObj f, PStr name => if is_obj f || negb (dict_key_ok name) then PErr
                               else match assoc_py name f with Some _ => d | None => PObj (f ++ [(name, dflt)]) end
        | _, _ => PErr
        end).

(* dict(x) / x.copy(): values are immutable here, a copy is the value itself *)
Definition p2_dict_copy : pyval -> pyval := s1 (fun d => if is_dict d then d else PErr).
Definition p2_copy : pyval -> pyval :=
  s1 (fun d => match d with PList _ => d | PObj f => if is_obj f then PErr else d | _ => PErr end).

(* ------------------------------------------------------------------ objects *)
(* x.name; [strict = false]: a missing field is PErr; [strict = true]: AttributeError (also on None) *)
Definition p2_attr_gen (raise_ : bool) (name : string) : pyval -> pyval :=
  s1 (fun v => match v with
               | PObj f => if is_obj f
                           then match assoc_py name f with
                                | Some x => x
                                | None => if raise_ then PExc "AttributeError" else PErr
                                end
                           else PErr
               | PNone => if raise_ then PExc "AttributeError" else PErr
               | _ => PErr
               end).
Definition p2_attr (v : pyval) (name : string) : pyval := p2_attr_gen false name v.
Definition p2_attr_x (v : pyval) (name : string) : pyval := p2_attr_gen true name v.

Definition attr_name_ok (name : string) : bool := negb (String.eqb name "__class__").

Definition p2_setattr (o : pyval) (name : string) (v : pyval) : pyval :=
  s2 (fun o v => match o with
                 | PObj f => if is_obj f && attr_name_ok name then PObj (set_assoc name v f) else PErr
                 | _ => PErr
                 end) o v.

Definition p2_hasattr (o : pyval) (name : string) : pyval :=
  s1 (fun o => match o with
               | PObj f => if is_obj f && attr_name_ok name
                           then PBool (match assoc_py name f with Some _ => true | None => false end) else PErr
               | PNone => PBool false
               | _ => PErr
               end) o.
Definition p2_getattr3 (o : pyval) (name : string) (dflt : pyval) : pyval :=
  s2 (fun o dflt => match o with
                    | PObj f => if is_obj f && attr_name_ok name
                                then match assoc_py name f with Some x => x | None => dflt end else PErr
                    | PNone => dflt
                    | _ => PErr
                    end) o dflt.

(* isinstance(v, (kinds..., classes...)): kinds among "str" "int" "bool" "list" "tuple" "dict" "NoneType" *)
Definition kind_of (v : pyval) : list string :=
  match v with
  | PNone => ["NoneType"]
  | PBool _ => ["bool"; "int"]
  | PInt _ => ["int"]
  | PStr _ => ["str"]
  | PList _ => ["list"; "tuple"]       (* lists and tuples are not distinguished *)
  | PObj f => if is_obj f then [] else ["dict"]
  | _ => []
  end.
Definition p2_isinstance (v : pyval) (kinds classes : list string) : pyval :=
  s1 (fun v => match v with
               | PObj f => if is_obj f
                           then match class_of v with Some c => PBool (mem c classes) | None => PErr end
                           else PBool (mem "dict" kinds)
               | _ => PBool (existsb (fun k => mem k kinds) (kind_of v))
               end) v.

(* ------------------------------------------------------------------ comprehensions, any / all *)
Fixpoint listcomp_go (xs : list pyval) (c f : pyval -> pyval) : pyval :=
  match xs with
  | [] => PList []
  | x :: r =>
      match p2_branch (c x) with
      | BExc n => PExc n
      | BErr => PErr
      | BFalse => listcomp_go r c f
      | BTrue => py_bind (f x) (fun y => match listcomp_go r c f with PList l => PList (y :: l) | bad => bad end)
      end
  end.
Definition p2_listcomp (it : pyval) (c f : pyval -> pyval) : pyval :=
  py_bind it (fun it' => if p2_iterable it' then listcomp_go (py_iter2 it') c f else PErr).

(* {k: v for ...}: later keys overwrite in place *)
Fixpoint dictcomp_go (xs : list pyval) (c fk fv : pyval -> pyval) (acc : pyval) : pyval :=
  match xs with
  | [] => acc
  | x :: r =>
      match p2_branch (c x) with
      | BExc n => PExc n
      | BErr => PErr
      | BFalse => dictcomp_go r c fk fv acc
      | BTrue => py_bind (fk x) (fun k => py_bind (fv x) (fun v =>
                   py_bind (p2_setitem acc k v) (fun acc' => dictcomp_go r c fk fv acc')))
      end
  end.
Definition p2_dictcomp (it : pyval) (c fk fv : pyval -> pyval) : pyval :=
  py_bind it (fun it' => if p2_iterable it' then dictcomp_go (py_iter2 it') c fk fv (PObj []) else PErr).

Fixpoint any_go (xs : list pyval) (c f : pyval -> pyval) : pyval :=
  match xs with
  | [] => PBool false
  | x :: r =>
      match p2_branch (c x) with
      | BExc n => PExc n
      | BErr => PErr
      | BFalse => any_go r c f
      | BTrue => match p2_branch (f x) with
                 | BTrue => PBool true
                 | BFalse => any_go r c f
                 | BExc n => PExc n
                 | BErr => PErr
                 end
      end
  end.
Fixpoint all_go (xs : list pyval) (c f : pyval -> pyval) : pyval :=
  match xs with
  | [] => PBool true
  | x :: r =>
      match p2_branch (c x) with
      | BExc n => PExc n
      | BErr => PErr
      | BFalse => all_go r c f
      | BTrue => match p2_branch (f x) with
                 | BTrue => all_go r c f
                 | BFalse => PBool false
                 | BExc n => PExc n
                 | BErr => PErr
                 end
      end
  end.
Definition p2_any (it : pyval) (c f : pyval -> pyval) : pyval :=
  py_bind it (fun it' => if p2_iterable it' then any_go (py_iter2 it') c f else PErr).
Definition p2_all (it : pyval) (c f : pyval -> pyval) : pyval :=
  py_bind it (fun it' => if p2_iterable it' then all_go (py_iter2 it') c f else PErr).

Definition ktrue (_ : pyval) : pyval := PBool true.
Definition kid (v : pyval) : pyval := v.

(* ------------------------------------------------------------------ sorted, set *)
Fixpoint insert_by {A} (le : A -> A -> bool) (x : A) (l : list A) : list A :=
  match l with
  | [] => [x]
  | y :: r => if le x y then x :: l else y :: insert_by le x r
  end.
Definition sort_by {A} (le : A -> A -> bool) (l : list A) : list A := fold_right (insert_by le) [] l.

Fixpoint ints_of (l : list pyval) : option (list Z) :=
  match l with
  | [] => Some []
  | PInt z :: r => match ints_of r with Some t => Some (z :: t) | None => None end
  | _ :: _ => None
  end.

(* sorted(x): a list of str (byte order) or a list of int *)
Definition p2_sorted : pyval -> pyval :=
  s1 (fun a => if p2_iterable a then
                 let l := py_iter2 a in
                 match strs_of l with
                 | Some ss => PList (map PStr (sort_by String.leb ss))
                 | None => match ints_of l with
                           | Some zs => PList (map PInt (sort_by Z.leb zs))
                           | None => PErr
                           end
                 end
               else PErr).

Definition hashable (v : pyval) : bool :=
  match v with PNone | PBool _ | PInt _ | PStr _ => true | _ => false end.
Fixpoint dedup_go (seen : list pyval) (l : list pyval) : option (list pyval) :=
  match l with
  | [] => Some []
  | x :: r => if negb (hashable x) then None else
              match list_has x seen with
              | Some true => dedup_go seen r
              | Some false => match dedup_go (x :: seen) r with Some t => Some (x :: t) | None => None end
              | None => None
              end
  end.
(* set(x): the duplicate-free list in first-occurrence order; set ORDER is not modelled *)
Definition p2_set : pyval -> pyval :=
  s1 (fun a => if p2_iterable a then match dedup_go [] (py_iter2 a) with Some l => PList l | None => PErr end
               else PErr).

(* tuple unpacking: the value itself when it is a sequence of n elements *)
Definition p2_unpack (n : nat) (v : pyval) : pyval :=
  match v with
  | PList l => if Nat.eqb (length l) n then v else PExc "ValueError"
  | PExc m => PExc m
  | _ => PErr
  end.

(* displays: [a, b] / (a, b) / {"k": a}: elements are evaluated left to right, the first exception wins *)
Fixpoint first_bad (l : list pyval) : option pyval :=
  match l with
  | [] => None
  | PExc n :: _ => Some (PExc n)
  | PErr :: _ => Some PErr
  | _ :: r => first_bad r
  end.
Definition p2_mklist (l : list pyval) : pyval :=
  match first_bad l with Some b => b | None => PList l end.
(* constant, distinct str keys other than "__class__" (checked by the translator) *)
Definition p2_mkdict (l : list (string * pyval)) : pyval :=
  match first_bad (map snd l) with Some b => b | None => PObj l end.
(* {a, b}: a set display *)
Definition p2_mkset (l : list pyval) : pyval := p2_set (p2_mklist l).

(* ================================================================== syntactic equality (decidable) *)
(* exact structural equality of values, order of dict entries included; used by the translator's
   self-test and available to proofs by computation *)
Fixpoint pyval_eqb (a b : pyval) {struct a} : bool :=
  match a, b with
  | PNone, PNone => true
  | PBool x, PBool y => Bool.eqb x y
  | PInt x, PInt y => Z.eqb x y
  | PStr x, PStr y => String.eqb x y
  | PList x, PList y =>
      (fix go (x y : list pyval) {struct x} : bool :=
         match x, y with
         | [], [] => true
         | u :: x', w :: y' => pyval_eqb u w && go x' y'
         | _, _ => false
         end) x y
  | PObj x, PObj y =>
      (fix go (x y : list (string * pyval)) {struct x} : bool :=
         match x, y with
         | [], [] => true
         | (k, u) :: x', (k', w) :: y' => String.eqb k k' && pyval_eqb u w && go x' y'
         | _, _ => false
         end) x y
  | PExc n, PExc m => String.eqb n m
  | PErr, PErr => true
  | _, _ => false
  end.

Lemma pyval_eqb_sound : forall a b, pyval_eqb a b = true -> a = b.
Proof.
  fix IH 1. intros a b. destruct a, b; cbn [pyval_eqb]; try discriminate; intros H.
  - reflexivity.
  - apply Bool.eqb_prop in H. now subst.
  - apply Z.eqb_eq in H. now subst.
  - apply String.eqb_eq in H. now subst.
  - f_equal. revert l0 H. induction l as [|u x IHx]; intros [|w y] H; try discriminate; [reflexivity|].
    apply andb_true_iff in H as [H1 H2]. f_equal; [apply IH; exact H1|apply IHx; exact H2].
  - f_equal. revert fields0 H. induction fields as [|[k u] x IHx]; intros [|[k' w] y] H; try discriminate; [reflexivity|].
    apply andb_true_iff in H as [H12 H3]. apply andb_true_iff in H12 as [H1 H2].
    apply String.eqb_eq in H1. subst k'. f_equal; [f_equal; apply IH; exact H2|apply IHx; exact H3].
  - apply String.eqb_eq in H. now subst.
  - reflexivity.
Qed.

Lemma pyval_eqb_refl : forall a, pyval_eqb a a = true.
Proof.
  fix IH 1. intros a. destruct a; cbn [pyval_eqb]; try reflexivity.
  - apply Bool.eqb_reflx.
  - apply Z.eqb_refl.
  - apply String.eqb_refl.
  - induction l as [|u x IHx]; [reflexivity|]. rewrite IH, IHx. reflexivity.
  - induction fields as [|[k u] x IHx]; [reflexivity|]. rewrite String.eqb_refl, IH, IHx. reflexivity.
  - apply String.eqb_refl.
Qed.

Lemma pyval_eqb_eq a b : pyval_eqb a b = true <-> a = b.
Proof. split; [apply pyval_eqb_sound|intros ->; apply pyval_eqb_refl]. Qed.

(* getattr / setattr with a computed attribute name (special names are refused) *)
Definition dyn_name_ok (name : string) : bool := negb (String.prefix "__" name).
Definition p2_getattr_dyn (raise_ : bool) (o name : pyval) : pyval :=
  s2 (fun o name => match name with
                    | PStr nm => if dyn_name_ok nm then p2_attr_gen raise_ nm o else PErr
                    | _ => PErr
                    end) o name.
Definition p2_getattr3_dyn (o name dflt : pyval) : pyval :=
  s3 (fun o name dflt => match name with
                         | PStr nm => if dyn_name_ok nm then p2_getattr3 o nm dflt else PErr
                         | _ => PErr
                         end) o name dflt.
Definition p2_hasattr_dyn (o name : pyval) : pyval :=
  s2 (fun o name => match name with
                    | PStr nm => if dyn_name_ok nm then p2_hasattr o nm else PErr
                    | _ => PErr
                    end) o name.
Definition p2_setattr_dyn (o name v : pyval) : pyval :=
  s3 (fun o name v => match name with
                      | PStr nm => if dyn_name_ok nm then p2_setattr o nm v else PErr
                      | _ => PErr
                      end) o name v.

(* ================================================================== lemma library *)
(* ---- sequencing *)
Lemma py_bind_good e k : is_bad e = false -> py_bind e k = k e.
Proof. destruct e; cbn; intros H; try reflexivity; discriminate. Qed.

Lemma p2_bind_good {T : Type} (err : T) h e k : is_bad e = false -> p2_bind err h e k = k e.
Proof. destruct e; cbn; intros H; try reflexivity; discriminate. Qed.

Lemma py_bindh_good h e k : is_bad e = false -> py_bindh h e k = k e.
Proof. apply p2_bind_good. Qed.

Lemma py_bindS_good h e k : is_bad e = false -> py_bindS h e k = k e.
Proof. apply p2_bind_good. Qed.

Lemma py_bind_exc n k : py_bind (PExc n) k = PExc n.
Proof. reflexivity. Qed.
Lemma py_bind_err k : py_bind PErr k = PErr.
Proof. reflexivity. Qed.
Lemma py_bindh_exc h n k : py_bindh h (PExc n) k = h n.
Proof. reflexivity. Qed.
Lemma py_bindh_err h k : py_bindh h PErr k = PErr.
Proof. reflexivity. Qed.
Lemma py_bindS_exc h n k : py_bindS h (PExc n) k = h n.
Proof. reflexivity. Qed.
Lemma py_bindS_err h k : py_bindS h PErr k = RetS PErr.
Proof. reflexivity. Qed.

Lemma py_bind_bindh e k : py_bind e k = py_bindh PExc e k.
Proof. destruct e; reflexivity. Qed.

Lemma py_bind_ret e : py_bind e (fun x => x) = e.
Proof. destruct e; reflexivity. Qed.

Lemma py_bind_assoc e f g : py_bind (py_bind e f) g = py_bind e (fun x => py_bind (f x) g).
Proof. destruct e; reflexivity. Qed.

Lemma py_bind_bad e k : is_bad e = true -> py_bind e k = e.
Proof. destruct e; cbn; intros H; try discriminate; reflexivity. Qed.

(* a bind never produces a good value out of a bad one *)
Lemma py_bind_good_inv e k v : py_bind e k = v -> is_bad v = false -> is_bad e = false.
Proof. destruct e; cbn; intros <- H; try reflexivity; discriminate. Qed.

(* ---- conditions *)
Lemma py_cond_branch c a b :
  py_cond c a b = match p2_branch c with BTrue => a | BFalse => b | BExc n => PExc n | BErr => PErr end.
Proof. destruct c; cbn; try reflexivity; match goal with |- context [if ?x then _ else _] => destruct x end; reflexivity. Qed.

Lemma p2_branch_good c : is_bad c = false -> p2_branch c = if py_truthy c then BTrue else BFalse.
Proof. destruct c; cbn; intros H; try reflexivity; discriminate. Qed.

Lemma p2_branch_bool b : p2_branch (PBool b) = if b then BTrue else BFalse.
Proof. reflexivity. Qed.
Lemma p2_branch_exc n : p2_branch (PExc n) = BExc n.
Proof. reflexivity. Qed.
Lemma p2_branch_err : p2_branch PErr = BErr.
Proof. reflexivity. Qed.

Lemma py_cond_good c a b : is_bad c = false -> py_cond c a b = if py_truthy c then a else b.
Proof. destruct c; cbn; intros H; try reflexivity; discriminate. Qed.

(* ---- strict lifting *)
Lemma s1_good f a : is_bad a = false -> s1 f a = f a.
Proof. apply py_bind_good. Qed.
Lemma s2_good f a b : is_bad a = false -> is_bad b = false -> s2 f a b = f a b.
Proof. intros Ha Hb. unfold s2. rewrite (py_bind_good a) by exact Ha. apply py_bind_good, Hb. Qed.
Lemma s3_good f a b c : is_bad a = false -> is_bad b = false -> is_bad c = false -> s3 f a b c = f a b c.
Proof.
  intros Ha Hb Hc. unfold s3. rewrite (py_bind_good a) by exact Ha. rewrite (py_bind_good b) by exact Hb.
  apply py_bind_good, Hc.
Qed.
Lemma s1_bad f a : is_bad a = true -> s1 f a = a.
Proof. apply py_bind_bad. Qed.
Lemma s2_bad_l f a b : is_bad a = true -> s2 f a b = a.
Proof. apply py_bind_bad. Qed.
Lemma s2_bad_r f a b : is_bad a = false -> is_bad b = true -> s2 f a b = b.
Proof. intros Ha Hb. unfold s2. rewrite (py_bind_good a) by exact Ha. apply py_bind_bad, Hb. Qed.

(* ---- short-circuit operators *)
Lemma p2_or_good a b : is_bad a = false -> p2_or a b = if py_truthy a then a else b.
Proof. destruct a; cbn; intros H; try reflexivity; discriminate. Qed.
Lemma p2_and_good a b : is_bad a = false -> p2_and a b = if py_truthy a then b else a.
Proof. destruct a; cbn; intros H; try reflexivity; discriminate. Qed.
Lemma p2_or_exc n b : p2_or (PExc n) b = PExc n.
Proof. reflexivity. Qed.
Lemma p2_and_exc n b : p2_and (PExc n) b = PExc n.
Proof. reflexivity. Qed.
(* the unselected operand does not matter, even when it is an exception *)
Lemma p2_or_true_l a b b' : is_bad a = false -> py_truthy a = true -> p2_or a b = p2_or a b'.
Proof. intros H T. rewrite !p2_or_good by exact H. rewrite T. reflexivity. Qed.
Lemma p2_and_false_l a b b' : is_bad a = false -> py_truthy a = false -> p2_and a b = p2_and a b'.
Proof. intros H T. rewrite !p2_and_good by exact H. rewrite T. reflexivity. Qed.
Lemma p2_not_bool b : p2_not (PBool b) = PBool (negb b).
Proof. reflexivity. Qed.
Lemma p2_not_good a : is_bad a = false -> p2_not a = PBool (negb (py_truthy a)).
Proof. intros H. unfold p2_not. apply s1_good, H. Qed.

(* ---- equality on scalars *)
Lemma p2_eq_str a b : p2_eq (PStr a) (PStr b) = PBool (String.eqb a b).
Proof. reflexivity. Qed.
Lemma p2_ne_str a b : p2_ne (PStr a) (PStr b) = PBool (negb (String.eqb a b)).
Proof. reflexivity. Qed.
Lemma p2_eq_int a b : p2_eq (PInt a) (PInt b) = PBool (Z.eqb a b).
Proof. reflexivity. Qed.
Lemma p2_eq_bool a b : p2_eq (PBool a) (PBool b) = PBool (Bool.eqb a b).
Proof. reflexivity. Qed.
Lemma p2_eq_none_str s : p2_eq PNone (PStr s) = PBool false.
Proof. reflexivity. Qed.
Lemma p2_eq_str_none s : p2_eq (PStr s) PNone = PBool false.
Proof. reflexivity. Qed.
Lemma p2_eq_none_none : p2_eq PNone PNone = PBool true.
Proof. reflexivity. Qed.
Lemma p2_is_none_good a : is_bad a = false -> p2_is_none a = PBool (match a with PNone => true | _ => false end).
Proof. destruct a; cbn; intros H; try reflexivity; discriminate. Qed.
Lemma p2_is_not_none_good a :
  is_bad a = false -> p2_is_not_none a = PBool (match a with PNone => false | _ => true end).
Proof. destruct a; cbn; intros H; try reflexivity; discriminate. Qed.

(* ---- loops *)
Lemma pyfor2_nil st body : pyfor2 [] st body = NextS st.
Proof. reflexivity. Qed.

Lemma pyfor2_cons x r st body :
  pyfor2 (x :: r) st body = match body st x with NextS st' => pyfor2 r st' body | c => c end.
Proof. reflexivity. Qed.

Lemma pyfor2_app xs ys st body :
  pyfor2 (xs ++ ys) st body = match pyfor2 xs st body with NextS st' => pyfor2 ys st' body | c => c end.
Proof.
  revert st. induction xs as [|x r IH]; intros st; cbn [app pyfor2]; [reflexivity|].
  destruct (body st x); try reflexivity. apply IH.
Qed.

(* iteration over an encoded list: the encoding moves into the body *)
Fixpoint for_fold {A : Type} (xs : list A) (st : list pyval) (body : list pyval -> A -> ctl2) : ctl2 :=
  match xs with
  | [] => NextS st
  | x :: r => match body st x with NextS st' => for_fold r st' body | c => c end
  end.

Lemma pyfor2_map_gen {A : Type} (f : A -> pyval) xs st body :
  pyfor2 (map f xs) st body = for_fold xs st (fun s a => body s (f a)).
Proof.
  revert st. induction xs as [|x r IH]; intros st; cbn [map pyfor2 for_fold]; [reflexivity|].
  destruct (body st (f x)); try reflexivity. apply IH.
Qed.

Lemma pyfor2_map (f : pyval -> pyval) xs st body :
  pyfor2 (map f xs) st body = pyfor2 xs st (fun s x => body s (f x)).
Proof.
  revert st. induction xs as [|x r IH]; intros st; cbn [map pyfor2]; [reflexivity|].
  destruct (body st (f x)); try reflexivity. apply IH.
Qed.

Lemma pyfor2_ext xs st b1 b2 :
  (forall s x, In x xs -> b1 s x = b2 s x) -> pyfor2 xs st b1 = pyfor2 xs st b2.
Proof.
  revert st. induction xs as [|x r IH]; intros st H; cbn [pyfor2]; [reflexivity|].
  rewrite (H st x) by (left; reflexivity). destruct (b2 st x); try reflexivity.
  apply IH. intros s y Hy. apply H. right. exact Hy.
Qed.

(* a body that always goes on is a fold over the state *)
Lemma pyfor2_fold xs st body (g : list pyval -> pyval -> list pyval) :
  (forall s x, In x xs -> body s x = NextS (g s x)) -> pyfor2 xs st body = NextS (fold_left g xs st).
Proof.
  revert st. induction xs as [|x r IH]; intros st H; cbn [pyfor2 fold_left]; [reflexivity|].
  rewrite (H st x) by (left; reflexivity). apply IH. intros s y Hy. apply H. right. exact Hy.
Qed.

(* the first element at which the body stops decides *)
Lemma pyfor2_stop pre x post st st' body :
  pyfor2 pre st body = NextS st' ->
  (forall s, body st' x <> NextS s) ->
  pyfor2 (pre ++ x :: post) st body = body st' x.
Proof.
  intros Hpre Hstop. rewrite pyfor2_app, Hpre. cbn [pyfor2].
  destruct (body st' x) eqn:E; try reflexivity. exfalso. exact (Hstop st0 eq_refl).
Qed.

(* an invariant of the state that every iteration keeps holds at the end *)
Lemma pyfor2_invariant (P : list pyval -> Prop) xs st body :
  P st ->
  (forall s x s', In x xs -> P s -> body s x = NextS s' -> P s') ->
  forall s', pyfor2 xs st body = NextS s' -> P s'.
Proof.
  revert st. induction xs as [|x r IH]; intros st H0 Hstep s'; cbn [pyfor2].
  - intros E. injection E as <-. exact H0.
  - destruct (body st x) eqn:E; try discriminate. apply IH.
    + apply (Hstep st x st0); [left; reflexivity|exact H0|exact E].
    + intros s y s2 Hy. apply Hstep. right. exact Hy.
Qed.

Lemma py_iter2_list l : py_iter2 (PList l) = l.
Proof. reflexivity. Qed.
Lemma p2_iter_check_list l : p2_iter_check (PList l) = PList l.
Proof. reflexivity. Qed.
Lemma py_iter2_dict f : is_obj f = false -> py_iter2 (PObj f) = map (fun kv => PStr (fst kv)) f.
Proof. intros H. cbn. rewrite H. reflexivity. Qed.
Lemma p2_iter_check_dict f : is_obj f = false -> p2_iter_check (PObj f) = PObj f.
Proof. intros H. cbn. rewrite H. reflexivity. Qed.

(* ---- exception matching *)
Lemma exc_matches_nil n : exc_matches n [] = false.
Proof. reflexivity. Qed.
Lemma exc_matches_cons n m l : exc_matches n (m :: l) = String.eqb n m || exc_matches n l.
Proof. reflexivity. Qed.
Lemma exc_matches_In n l : exc_matches n l = true <-> In n l.
Proof. apply mem_In. Qed.
Lemma exc_matches_head n l : exc_matches n (n :: l) = true.
Proof. cbn. rewrite String.eqb_refl. reflexivity. Qed.
Lemma exc_matches_not_In n l : ~ In n l -> exc_matches n l = false.
Proof.
  intros H. destruct (exc_matches n l) eqn:E; [|reflexivity]. exfalso. apply H, exc_matches_In, E.
Qed.
Lemma exc_matches_app n l1 l2 : exc_matches n (l1 ++ l2) = exc_matches n l1 || exc_matches n l2.
Proof.
  induction l1 as [|m r IH]; [reflexivity|]. cbn [app]. rewrite !exc_matches_cons, IH, orb_assoc. reflexivity.
Qed.

(* ---- association lists *)
Lemma assoc_set_same k v l : assoc_py k (set_assoc k v l) = Some v.
Proof.
  induction l as [|[k' w] r IH]; cbn [set_assoc assoc_py].
  - rewrite String.eqb_refl. reflexivity.
  - destruct (String.eqb k k') eqn:E; cbn [assoc_py]; rewrite E; [reflexivity|exact IH].
Qed.

Lemma assoc_set_other k k' v l : k <> k' -> assoc_py k' (set_assoc k v l) = assoc_py k' l.
Proof.
  intros Hne. induction l as [|[k2 w] r IH]; cbn [set_assoc assoc_py].
  - destruct (String.eqb k' k) eqn:E; [|reflexivity]. apply String.eqb_eq in E. congruence.
  - destruct (String.eqb k k2) eqn:E; cbn [assoc_py].
    + apply String.eqb_eq in E. subst k2.
      destruct (String.eqb k' k) eqn:E2; [apply String.eqb_eq in E2; congruence|reflexivity].
    + rewrite IH. reflexivity.
Qed.

Lemma set_assoc_absent k v l : assoc_py k l = None -> set_assoc k v l = (l ++ [(k, v)])%list.
Proof.
  induction l as [|[k' w] r IH]; cbn [set_assoc assoc_py app]; [reflexivity|].
  destruct (String.eqb k k'); [discriminate|]. intros H. rewrite IH by exact H. reflexivity.
Qed.

(* overwriting keeps the position: the key sequence is unchanged *)
Lemma set_assoc_present_keys k v w l : assoc_py k l = Some w -> map fst (set_assoc k v l) = map fst l.
Proof.
  induction l as [|[k' u] r IH]; cbn [set_assoc assoc_py map fst]; [discriminate|].
  destruct (String.eqb k k'); cbn [map fst]; [reflexivity|]. intros H. rewrite IH by exact H. reflexivity.
Qed.

Lemma set_assoc_is_obj k v l : k <> "__class__" -> is_obj (set_assoc k v l) = is_obj l.
Proof.
  intros Hne. destruct l as [|[k' w] r]; cbn [set_assoc is_obj].
  - apply String.eqb_neq. exact Hne.
  - destruct (String.eqb k k'); reflexivity.
Qed.

Lemma assoc_del_other k k' l : k <> k' -> assoc_py k' (del_assoc k l) = assoc_py k' l.
Proof.
  intros Hne. induction l as [|[k2 w] r IH]; cbn [del_assoc assoc_py]; [reflexivity|].
  destruct (String.eqb k k2) eqn:E; cbn [assoc_py].
  - apply String.eqb_eq in E. subst k2.
    destruct (String.eqb k' k) eqn:E2; [apply String.eqb_eq in E2; congruence|reflexivity].
  - rewrite IH. reflexivity.
Qed.

Lemma assoc_none_notin k l : assoc_py k l = None <-> ~ In k (map fst l).
Proof.
  induction l as [|[k' w] r IH]; cbn [assoc_py map fst In]; [tauto|].
  destruct (String.eqb k k') eqn:E.
  - apply String.eqb_eq in E. subst. split; [discriminate|intros H; exfalso; apply H; left; reflexivity].
  - apply String.eqb_neq in E. rewrite IH. split; [intros H [H1|H1]; [congruence|tauto]|tauto].
Qed.

(* with distinct keys (every dict built by the operations here) a deleted key is gone *)
Lemma assoc_del_same k l : NoDup (map fst l) -> assoc_py k (del_assoc k l) = None.
Proof.
  induction l as [|[k' w] r IH]; cbn [del_assoc assoc_py map fst]; [reflexivity|].
  intros H. inversion H as [|? ? Hnotin Hnd]; subst.
  destruct (String.eqb k k') eqn:E; cbn [assoc_py].
  - apply String.eqb_eq in E. subst k'. apply assoc_none_notin. exact Hnotin.
  - rewrite E. apply IH. exact Hnd.
Qed.

Lemma set_assoc_keys_incl k v l x : In x (map fst (set_assoc k v l)) <-> x = k \/ In x (map fst l).
Proof.
  induction l as [|[k' w] r IH]; cbn [set_assoc map fst In].
  - split; [intros [H|[]]; left; congruence|intros [H|[]]; left; congruence].
  - destruct (String.eqb k k') eqn:E; cbn [map fst In].
    + apply String.eqb_eq in E. subst k'. split; [intros [H|H]; [right; left; exact H|right; right; exact H]|].
      intros [H|[H|H]]; [left; congruence|left; exact H|right; exact H].
    + rewrite IH. tauto.
Qed.

Lemma set_assoc_nodup k v l : NoDup (map fst l) -> NoDup (map fst (set_assoc k v l)).
Proof.
  induction l as [|[k' w] r IH]; cbn [set_assoc map fst]; intros H.
  - constructor; [intros []|constructor].
  - inversion H as [|? ? Hnotin Hnd]; subst. destruct (String.eqb k k') eqn:E; cbn [map fst].
    + constructor; assumption.
    + constructor; [|apply IH; exact Hnd]. rewrite set_assoc_keys_incl. intros [H1|H1]; [|tauto].
      apply String.eqb_neq in E. congruence.
Qed.

(* ---- dicts *)
Lemma p2_setitem_dict f k v :
  is_obj f = false -> k <> "__class__" -> is_bad v = false ->
  p2_setitem (PObj f) (PStr k) v = PObj (set_assoc k v f).
Proof.
  intros Hf Hk Hv. unfold p2_setitem. rewrite s3_good by (exact Hv || reflexivity).
  rewrite Hf. unfold dict_key_ok. apply String.eqb_neq in Hk. rewrite Hk. reflexivity.
Qed.

Lemma p2_getitem_dict f k :
  is_obj f = false ->
  p2_getitem (PObj f) (PStr k) = match assoc_py k f with Some x => x | None => PExc "KeyError" end.
Proof. intros Hf. cbn. rewrite Hf. reflexivity. Qed.

Lemma p2_get3_dict f k d :
  is_obj f = false -> is_bad d = false ->
  p2_get3 (PObj f) (PStr k) d = match assoc_py k f with Some x => x | None => d end.
Proof. intros Hf Hd. unfold p2_get3. rewrite s3_good by (exact Hd || reflexivity). rewrite Hf. reflexivity. Qed.

Lemma p2_get_dict f k :
  is_obj f = false -> p2_get (PObj f) (PStr k) = match assoc_py k f with Some x => x | None => PNone end.
Proof. intros Hf. apply p2_get3_dict; [exact Hf|reflexivity]. Qed.

Lemma p2_in_dict f k :
  is_obj f = false ->
  p2_in (PStr k) (PObj f) = PBool (match assoc_py k f with Some _ => true | None => false end).
Proof. intros Hf. cbn. rewrite Hf. reflexivity. Qed.

Lemma p2_len_dict f : is_obj f = false -> p2_len (PObj f) = PInt (Z.of_nat (length f)).
Proof. intros Hf. cbn. rewrite Hf. reflexivity. Qed.

(* read over write *)
Lemma p2_getitem_setitem_same f k v :
  is_obj f = false -> k <> "__class__" -> is_bad v = false ->
  p2_getitem (p2_setitem (PObj f) (PStr k) v) (PStr k) = v.
Proof.
  intros Hf Hk Hv. rewrite p2_setitem_dict by assumption.
  rewrite p2_getitem_dict by (rewrite set_assoc_is_obj; assumption). rewrite assoc_set_same. reflexivity.
Qed.

Lemma p2_getitem_setitem_other f k k' v :
  is_obj f = false -> k <> "__class__" -> is_bad v = false -> k <> k' ->
  p2_getitem (p2_setitem (PObj f) (PStr k) v) (PStr k') = p2_getitem (PObj f) (PStr k').
Proof.
  intros Hf Hk Hv Hne. rewrite p2_setitem_dict by assumption.
  rewrite !p2_getitem_dict by (try rewrite set_assoc_is_obj; assumption). rewrite assoc_set_other by exact Hne. reflexivity.
Qed.

Lemma p2_get_setitem_same f k v :
  is_obj f = false -> k <> "__class__" -> is_bad v = false ->
  p2_get (p2_setitem (PObj f) (PStr k) v) (PStr k) = v.
Proof.
  intros Hf Hk Hv. rewrite p2_setitem_dict by assumption.
  rewrite p2_get_dict by (rewrite set_assoc_is_obj; assumption). rewrite assoc_set_same. reflexivity.
Qed.

Lemma p2_get_setitem_other f k k' v :
  is_obj f = false -> k <> "__class__" -> is_bad v = false -> k <> k' ->
  p2_get (p2_setitem (PObj f) (PStr k) v) (PStr k') = p2_get (PObj f) (PStr k').
Proof.
  intros Hf Hk Hv Hne. rewrite p2_setitem_dict by assumption.
  rewrite !p2_get_dict by (try rewrite set_assoc_is_obj; assumption). rewrite assoc_set_other by exact Hne. reflexivity.
Qed.

Lemma p2_in_setitem_same f k v :
  is_obj f = false -> k <> "__class__" -> is_bad v = false ->
  p2_in (PStr k) (p2_setitem (PObj f) (PStr k) v) = PBool true.
Proof.
  intros Hf Hk Hv. rewrite p2_setitem_dict by assumption.
  rewrite p2_in_dict by (rewrite set_assoc_is_obj; assumption). rewrite assoc_set_same. reflexivity.
Qed.

Lemma p2_delitem_dict f k w :
  is_obj f = false -> assoc_py k f = Some w -> p2_delitem (PObj f) (PStr k) = PObj (del_assoc k f).
Proof. intros Hf Hk. cbn. rewrite Hf, Hk. reflexivity. Qed.

Lemma p2_delitem_missing f k :
  is_obj f = false -> assoc_py k f = None -> p2_delitem (PObj f) (PStr k) = PExc "KeyError".
Proof. intros Hf Hk. cbn. rewrite Hf, Hk. reflexivity. Qed.

(* ---- objects *)
Lemma p2_attr_obj c f name :
  p2_attr (PObj (("__class__", PStr c) :: f)) name
  = match assoc_py name (("__class__", PStr c) :: f) with Some x => x | None => PErr end.
Proof. reflexivity. Qed.

Lemma p2_attr_x_obj c f name :
  p2_attr_x (PObj (("__class__", PStr c) :: f)) name
  = match assoc_py name (("__class__", PStr c) :: f) with Some x => x | None => PExc "AttributeError" end.
Proof. reflexivity. Qed.

Lemma p2_attr_x_none name : p2_attr_x PNone name = PExc "AttributeError".
Proof. reflexivity. Qed.

Lemma p2_setattr_obj c f name v :
  name <> "__class__" -> is_bad v = false ->
  p2_setattr (PObj (("__class__", PStr c) :: f)) name v = PObj (("__class__", PStr c) :: set_assoc name v f).
Proof.
  intros Hn Hv. unfold p2_setattr. rewrite s2_good by (exact Hv || reflexivity).
  cbn [is_obj String.eqb Ascii.eqb Bool.eqb andb]. unfold attr_name_ok.
  apply String.eqb_neq in Hn. rewrite Hn. cbn [negb set_assoc]. rewrite Hn. reflexivity.
Qed.

Lemma p2_attr_setattr_same c f name v :
  name <> "__class__" -> is_bad v = false ->
  p2_attr (p2_setattr (PObj (("__class__", PStr c) :: f)) name v) name = v.
Proof.
  intros Hn Hv. rewrite p2_setattr_obj by assumption. rewrite p2_attr_obj. cbn [assoc_py].
  apply String.eqb_neq in Hn. rewrite Hn. rewrite assoc_set_same. reflexivity.
Qed.

Lemma p2_attr_setattr_other c f name name' v :
  name <> "__class__" -> is_bad v = false -> name <> name' ->
  p2_attr (p2_setattr (PObj (("__class__", PStr c) :: f)) name v) name'
  = p2_attr (PObj (("__class__", PStr c) :: f)) name'.
Proof.
  intros Hn Hv Hne. rewrite p2_setattr_obj by assumption. rewrite !p2_attr_obj. cbn [assoc_py].
  destruct (String.eqb name' "__class__"); [reflexivity|]. rewrite assoc_set_other by exact Hne. reflexivity.
Qed.

(* ---- displays, comprehensions, any / all *)
Lemma first_bad_none l : forallb (fun x => negb (is_bad x)) l = true -> first_bad l = None.
Proof.
  induction l as [|x r IH]; cbn [forallb first_bad]; [reflexivity|].
  intros H. apply andb_true_iff in H as [Hx Hr]. destruct x; cbn in Hx; try discriminate; apply IH; exact Hr.
Qed.

Lemma p2_mklist_good l : forallb (fun x => negb (is_bad x)) l = true -> p2_mklist l = PList l.
Proof. intros H. unfold p2_mklist. rewrite first_bad_none by exact H. reflexivity. Qed.

Lemma p2_mkdict_good l : forallb (fun x => negb (is_bad x)) (map snd l) = true -> p2_mkdict l = PObj l.
Proof. intros H. unfold p2_mkdict. rewrite first_bad_none by exact H. reflexivity. Qed.

Lemma listcomp_go_filter_map xs c f (p : pyval -> bool) :
  (forall x, In x xs -> c x = PBool (p x)) ->
  (forall x, In x xs -> p x = true -> is_bad (f x) = false) ->
  listcomp_go xs c f = PList (map f (filter p xs)).
Proof.
  induction xs as [|x r IH]; intros Hc Hf; cbn [listcomp_go filter map]; [reflexivity|].
  rewrite (Hc x) by (left; reflexivity). rewrite p2_branch_bool.
  assert (IH' : listcomp_go r c f = PList (map f (filter p r))).
  { apply IH; intros y Hy; [apply Hc|apply Hf]; right; exact Hy. }
  destruct (p x) eqn:E; cbn [map].
  - rewrite py_bind_good by (apply Hf; [left; reflexivity|exact E]). rewrite IH'. reflexivity.
  - exact IH'.
Qed.

Lemma listcomp_go_map xs f :
  (forall x, In x xs -> is_bad (f x) = false) -> listcomp_go xs ktrue f = PList (map f xs).
Proof.
  intros Hf. rewrite (listcomp_go_filter_map xs ktrue f (fun _ => true)).
  - f_equal. f_equal. induction xs as [|x r IH]; [reflexivity|]. cbn [filter]. f_equal. apply IH.
    intros y Hy. apply Hf. right. exact Hy.
  - reflexivity.
  - intros x Hx _. apply Hf, Hx.
Qed.

Lemma p2_listcomp_list l c f : p2_listcomp (PList l) c f = listcomp_go l c f.
Proof. reflexivity. Qed.

Lemma any_go_existsb xs f (p : pyval -> bool) :
  (forall x, In x xs -> f x = PBool (p x)) -> any_go xs ktrue f = PBool (existsb p xs).
Proof.
  induction xs as [|x r IH]; intros H; cbn [any_go existsb]; [reflexivity|].
  unfold ktrue at 1. rewrite p2_branch_bool. rewrite (H x) by (left; reflexivity). rewrite p2_branch_bool.
  destruct (p x); cbn [orb]; [reflexivity|]. apply IH. intros y Hy. apply H. right. exact Hy.
Qed.

Lemma all_go_forallb xs f (p : pyval -> bool) :
  (forall x, In x xs -> f x = PBool (p x)) -> all_go xs ktrue f = PBool (forallb p xs).
Proof.
  induction xs as [|x r IH]; intros H; cbn [all_go forallb]; [reflexivity|].
  unfold ktrue at 1. rewrite p2_branch_bool. rewrite (H x) by (left; reflexivity). rewrite p2_branch_bool.
  destruct (p x); cbn [andb]; [|reflexivity]. apply IH. intros y Hy. apply H. right. exact Hy.
Qed.

Lemma p2_any_list l c f : p2_any (PList l) c f = any_go l c f.
Proof. reflexivity. Qed.
Lemma p2_all_list l c f : p2_all (PList l) c f = all_go l c f.
Proof. reflexivity. Qed.

(* ---- str *)
(* one-character separators: split_str is Str.split_on (so Str.join_split applies) *)
Lemma prefix_char c d r : String.prefix (String c EmptyString) (String d r) = Ascii.eqb d c.
Proof.
  cbn [String.prefix]. destruct (ascii_dec c d) as [->|Hne].
  - rewrite Ascii.eqb_refl. destruct r; reflexivity.
  - symmetry. apply Ascii.eqb_neq. congruence.
Qed.

Lemma split_str_char c s : split_str (String c EmptyString) s = split_on c s.
Proof.
  unfold split_str. induction s as [|d r IH]; [reflexivity|].
  cbn [split_go split_on]. rewrite prefix_char. destruct (Ascii.eqb d c).
  - cbn [String.length Nat.sub]. rewrite IH. reflexivity.
  - rewrite IH. reflexivity.
Qed.

Lemma p2_str_str s : p2_str (PStr s) = PStr s.
Proof. reflexivity. Qed.
Lemma p2_fconcat_cons s r : p2_fconcat (PStr s :: r) = match p2_fconcat r with PStr t => PStr (s ++ t) | x => x end.
Proof. reflexivity. Qed.
Lemma p2_fconcat_strs l : p2_fconcat (map PStr l) = PStr (String.concat "" l).
Proof.
  induction l as [|s r IH]; [reflexivity|]. cbn [map p2_fconcat]. rewrite IH.
  destruct r as [|t r']; cbn [String.concat map].
  - cbn. f_equal. induction s as [|ch s' IHs]; [reflexivity|]. cbn. f_equal. exact IHs.
  - reflexivity.
Qed.

Lemma p2_unpack_list n l : length l = n -> p2_unpack n (PList l) = PList l.
Proof. intros H. cbn. rewrite H, Nat.eqb_refl. reflexivity. Qed.
