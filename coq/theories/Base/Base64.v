(* Base/Base64.v — base64.b64encode / base64.b64decode (RFC 4648, standard alphabet) over byte strings.
   [encode] is binascii.b2a_base64 without the newline.  [decode] is binascii.a2b_base64 in its
   default (non-strict) mode, as called by base64.b64decode(s) with validate=False: characters outside
   the alphabet are skipped, a pad sequence that completes a quad ends the input, left-over sextets
   are an error (binascii.Error).  [decode_str] is the same for a Python str argument, which
   b64decode first encodes with .encode("ascii") (ValueError on non-ASCII). *)
From Coq Require Import String Ascii List Bool Arith Lia ZifyNat.
From Verif Require Import Base.Str Base.Percent.
Import ListNotations.
Open Scope string_scope.

Definition b64char (n : nat) : ascii :=
  ascii_of_nat (if (n <? 26)%nat then 65 + n
                else if (n <? 52)%nat then 71 + n
                else if (n <? 62)%nat then n - 4
                else if (n =? 62)%nat then 43 else 47).

Definition b64val (c : ascii) : option nat :=
  let n := code c in
  if ((65 <=? n) && (n <=? 90))%nat then Some (n - 65)
  else if ((97 <=? n) && (n <=? 122))%nat then Some (n - 71)
  else if ((48 <=? n) && (n <=? 57))%nat then Some (n + 4)
  else if (n =? 43)%nat then Some 62
  else if (n =? 47)%nat then Some 63
  else None.

Definition pad_char : ascii := "="%char.

(* the four characters of a full 3-byte group *)
Definition enc3 (a b c : nat) (r : string) : string :=
  String (b64char (a / 4))
 (String (b64char ((a mod 4) * 16 + b / 16))
 (String (b64char ((b mod 16) * 4 + c / 64))
 (String (b64char (c mod 64)) r))).

Fixpoint encode (s : string) : string :=
  match s with
  | EmptyString => EmptyString
  | String a EmptyString =>
      let x := code a in
      String (b64char (x / 4)) (String (b64char ((x mod 4) * 16)) (String pad_char (String pad_char EmptyString)))
  | String a (String b EmptyString) =>
      let x := code a in let y := code b in
      String (b64char (x / 4)) (String (b64char ((x mod 4) * 16 + y / 16))
     (String (b64char ((y mod 16) * 4)) (String pad_char EmptyString)))
  | String a (String b (String c r)) => enc3 (code a) (code b) (code c) (encode r)
  end.

(* a2b_base64 state: quad position, left-over bits, pads seen since the last data character *)
Fixpoint dec (q left pads : nat) (s : string) : option string :=
  match s with
  | EmptyString => if (q =? 0)%nat then Some EmptyString else None
  | String c r =>
      if Ascii.eqb c pad_char then
        if (2 <=? q)%nat then
          (if (4 <=? q + S pads)%nat then Some EmptyString else dec q left (S pads) r)
        else dec q left pads r
      else
        match b64val c with
        | None => dec q left pads r
        | Some v =>
            match q with
            | 0 => dec 1 v 0 r
            | 1 => option_map (String (ascii_of_nat (left * 4 + v / 16))) (dec 2 (v mod 16) 0 r)
            | 2 => option_map (String (ascii_of_nat (left * 16 + v / 4))) (dec 3 (v mod 4) 0 r)
            | _ => option_map (String (ascii_of_nat (left * 64 + v))) (dec 0 0 0 r)
            end
        end
  end.

Definition decode (s : string) : option string := dec 0 0 0 s.

Definition is_ascii_char (c : ascii) : bool := (code c <? 128)%nat.

(* base64.b64decode(<str>) *)
Definition decode_str (s : string) : option string :=
  if all_chars is_ascii_char s then decode s else None.

(* ------------------------------------------------------------------ lemmas *)

Definition b64_alphabet (c : ascii) : bool :=
  match b64val c with Some _ => true | None => Ascii.eqb c pad_char end.

Lemma below (P : nat -> bool) (k : nat) :
  forallb P (seq 0 k) = true -> forall n, n < k -> P n = true.
Proof.
  intros H n Hn. rewrite forallb_forall in H. apply H. apply in_seq. lia.
Qed.

Lemma b64val_char n : n < 64 -> b64val (b64char n) = Some n.
Proof.
  intros Hn.
  pose proof (below (fun n => match b64val (b64char n) with Some m => (m =? n)%nat | None => false end) 64) as H.
  specialize (H ltac:(vm_compute; reflexivity) n Hn). cbv beta in H.
  destruct (b64val (b64char n)) as [m|]; [|discriminate].
  apply Nat.eqb_eq in H. subst; reflexivity.
Qed.

Lemma b64char_not_pad n : n < 64 -> Ascii.eqb (b64char n) pad_char = false.
Proof.
  intros Hn.
  pose proof (below (fun n => negb (Ascii.eqb (b64char n) pad_char)) 64) as H.
  specialize (H ltac:(vm_compute; reflexivity) n Hn). apply negb_true_iff in H. exact H.
Qed.

Lemma b64char_alphabet n : n < 64 -> b64_alphabet (b64char n) = true.
Proof. intros Hn. unfold b64_alphabet. rewrite (b64val_char n Hn). reflexivity. Qed.

Lemma code_lt c : code c < 256.
Proof. unfold code. apply nat_ascii_bounded. Qed.

Lemma ascii_code c : ascii_of_nat (code c) = c.
Proof. unfold code. apply ascii_nat_embedding. Qed.

Lemma dec_data q left pads n r : n < 64 ->
  dec q left pads (String (b64char n) r) =
  match q with
  | 0 => dec 1 n 0 r
  | 1 => option_map (String (ascii_of_nat (left * 4 + n / 16))) (dec 2 (n mod 16) 0 r)
  | 2 => option_map (String (ascii_of_nat (left * 16 + n / 4))) (dec 3 (n mod 4) 0 r)
  | _ => option_map (String (ascii_of_nat (left * 64 + n))) (dec 0 0 0 r)
  end.
Proof.
  intros Hn. cbn [dec]. rewrite (b64char_not_pad n Hn), (b64val_char n Hn). reflexivity.
Qed.

(* a full group decodes to its three bytes and leaves the state machine in its initial state *)
Lemma dec_enc3 a b c r :
  dec 0 0 0 (enc3 (code a) (code b) (code c) r) =
  option_map (fun t => String a (String b (String c t))) (dec 0 0 0 r).
Proof.
  pose proof (code_lt a) as Ha. pose proof (code_lt b) as Hb. pose proof (code_lt c) as Hc.
  unfold enc3.
  rewrite dec_data by lia. rewrite dec_data by lia. rewrite dec_data by lia. rewrite dec_data by lia.
  replace (code a / 4 * 4 + (code a mod 4 * 16 + code b / 16) / 16) with (code a) by lia.
  replace ((code a mod 4 * 16 + code b / 16) mod 16 * 16 + (code b mod 16 * 4 + code c / 64) / 4) with (code b) by lia.
  replace ((code b mod 16 * 4 + code c / 64) mod 4 * 64 + code c mod 64) with (code c) by lia.
  rewrite !ascii_code. destruct (dec 0 0 0 r); reflexivity.
Qed.

Lemma dec_tail1 a :
  dec 0 0 0 (String (b64char (code a / 4)) (String (b64char ((code a mod 4) * 16))
            (String pad_char (String pad_char EmptyString)))) = Some (String a EmptyString).
Proof.
  pose proof (code_lt a) as Ha.
  rewrite dec_data by lia. rewrite dec_data by lia.
  replace (code a / 4 * 4 + code a mod 4 * 16 / 16) with (code a) by lia.
  rewrite ascii_code. reflexivity.
Qed.

Lemma dec_tail2 a b :
  dec 0 0 0 (String (b64char (code a / 4)) (String (b64char ((code a mod 4) * 16 + code b / 16))
            (String (b64char ((code b mod 16) * 4)) (String pad_char EmptyString)))) =
  Some (String a (String b EmptyString)).
Proof.
  pose proof (code_lt a) as Ha. pose proof (code_lt b) as Hb.
  rewrite dec_data by lia. rewrite dec_data by lia. rewrite dec_data by lia.
  replace (code a / 4 * 4 + (code a mod 4 * 16 + code b / 16) / 16) with (code a) by lia.
  replace ((code a mod 4 * 16 + code b / 16) mod 16 * 16 + code b mod 16 * 4 / 4) with (code b) by lia.
  rewrite !ascii_code. reflexivity.
Qed.

Lemma decode_encode_len n : forall b, String.length b <= n -> decode (encode b) = Some b.
Proof.
  unfold decode. induction n as [|n IH]; intros b Hl.
  - destruct b; [reflexivity|cbn in Hl; lia].
  - destruct b as [|a [|b' [|c r]]].
    + reflexivity.
    + apply dec_tail1.
    + apply dec_tail2.
    + cbn [encode]. rewrite dec_enc3. rewrite IH; [reflexivity|]. cbn [String.length] in Hl. lia.
Qed.

(* RFC 4648 round trip, for every byte string *)
Theorem b64_decode_encode : forall b, decode (encode b) = Some b.
Proof. intros b. apply (decode_encode_len (String.length b)). lia. Qed.

Theorem encode_injective a b : encode a = encode b -> a = b.
Proof.
  intros H. pose proof (b64_decode_encode a) as Ha. rewrite H, b64_decode_encode in Ha. congruence.
Qed.

Lemma encode_alphabet_len n : forall b, String.length b <= n -> all_chars b64_alphabet (encode b) = true.
Proof.
  induction n as [|n IH]; intros b Hl.
  - destruct b; [reflexivity|cbn in Hl; lia].
  - destruct b as [|a [|b' [|c r]]]; [reflexivity| | |].
    + pose proof (code_lt a). cbn [encode all_chars]. rewrite !b64char_alphabet by lia. reflexivity.
    + pose proof (code_lt a). pose proof (code_lt b'). cbn [encode all_chars].
      rewrite !b64char_alphabet by lia. reflexivity.
    + pose proof (code_lt a). pose proof (code_lt b'). pose proof (code_lt c).
      cbn [encode]. unfold enc3. cbn [all_chars]. rewrite !b64char_alphabet by lia.
      rewrite IH; [reflexivity|]. cbn [String.length] in Hl. lia.
Qed.

(* the output alphabet: A-Z a-z 0-9 + / = *)
Theorem encode_alphabet b : all_chars b64_alphabet (encode b) = true.
Proof. apply (encode_alphabet_len (String.length b)). lia. Qed.

Lemma b64_alphabet_ascii c : b64_alphabet c = true -> is_ascii_char c = true.
Proof.
  assert (H : forall c, implb (b64_alphabet c) (is_ascii_char c) = true).
  { apply (all_ascii (fun c => implb (b64_alphabet c) (is_ascii_char c))). vm_compute. reflexivity. }
  intros Hc. specialize (H c). rewrite Hc in H. exact H.
Qed.

Lemma all_chars_impl (p q : ascii -> bool) s :
  (forall c, p c = true -> q c = true) -> all_chars p s = true -> all_chars q s = true.
Proof.
  intros Hpq. induction s as [|c r IH]; cbn [all_chars]; [reflexivity|].
  intros H. apply andb_true_iff in H as [H1 H2]. rewrite (Hpq c H1), (IH H2). reflexivity.
Qed.

(* b64decode of the str that b64encode(...).decode("ascii") produced *)
Theorem b64_decode_str_encode b : decode_str (encode b) = Some b.
Proof.
  unfold decode_str.
  rewrite (all_chars_impl b64_alphabet is_ascii_char _ b64_alphabet_ascii (encode_alphabet b)).
  apply b64_decode_encode.
Qed.

(* encode never produces the empty string for non-empty input, and conversely *)
Lemma encode_empty b : encode b = EmptyString -> b = EmptyString.
Proof. intros H. apply encode_injective. rewrite H. reflexivity. Qed.
