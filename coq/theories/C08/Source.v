(* C08/Source.v — the model's verify_return test equals DiscoveryServer.verify_return as the translator
   (harness/py2coq.py) produced it from the CURRENT source text (coq/gen/C08Src.v, regenerated on every
   run): for every list of registered discovery-response locations and every return URL.  The metadata
   lookup self.metadata.discovery_response(entity_id) is a parameter (it is [store_disco] in the model). *)
From Coq Require Import String List Bool.
From Verif Require Import Base.Str Base.Py C08.Model.
From VerifGen Require Import C08Src.
Import ListNotations.
Open Scope string_scope.

Definition enc_endpoint (loc : string) : pyval := PObj [("location", PStr loc)].

Lemma verify_loop url l :
  pyfor (map enc_endpoint l)
        (fun v_endp => if py_truthy (py_startswith (PStr url) (py_item v_endp (PStr "location")))
                       then Ret (PBool true) else Next)
  = if existsb (fun loc => startswith url loc) l then Ret (PBool true) else Next.
Proof.
  induction l as [|a r IH]; cbn [map pyfor existsb]; [reflexivity|].
  cbn [enc_endpoint py_item assoc_py String.eqb Ascii.eqb Bool.eqb py_startswith py_truthy].
  destruct (startswith url a); cbn [orb]; [reflexivity|exact IH].
Qed.

Theorem src_verify_return_is_model : forall (lookup : pyval -> pyval) self eid url l,
  lookup (PStr eid) = PList (map enc_endpoint l) ->
  src_verify_return lookup self (PStr eid) (PStr url) = PBool (existsb (fun loc => startswith url loc) l).
Proof.
  intros lookup self eid url l H. unfold src_verify_return. rewrite H. cbn [py_iter].
  rewrite verify_loop. destruct (existsb _ l); reflexivity.
Qed.

(* ... which is the model's verdict whenever the store finds discovery-response locations *)
Corollary src_verify_return_found : forall (lookup : pyval -> pyval) self m eid url l,
  store_disco m eid = Found l ->
  lookup (PStr eid) = PList (map enc_endpoint l) ->
  verify_return m eid url = Approved true <-> src_verify_return lookup self (PStr eid) (PStr url) = PBool true.
Proof.
  intros lookup self m eid url l Hs Hl. rewrite (src_verify_return_is_model lookup self eid url l Hl).
  unfold verify_return. rewrite Hs. destruct (existsb _ l); split; intros H; try reflexivity; discriminate.
Qed.
