(* C08/Spec.v — the property, stated over the loaded metadata, the operation and the OBSERVABLE
   outcome.  Written from the property text, not from the model:

   "The destination and binding an identity provider selects for answering a request are always a
    location/binding pair published in the requester's metadata, chosen by the request's
    consumer-service URL or index when one is given; an unregistered URL or index is refused, never
    used as a destination.  Likewise a service provider sends authentication and logout requests
    only to endpoints found in the target provider's metadata, and a discovery service approves a
    return URL only if it starts with a discovery-response location registered for that requester." *)
From Coq Require Import String List Bool.
From Verif Require Import Base.Str C08.Model.
Import ListNotations.
Open Scope string_scope.

(* what the metadata publishes: entity eid has, in some source, a role descriptor of kind typ with
   an endpoint element ep of service svc *)
Definition publishes (m : md) (eid typ svc : string) (ep : endpoint) : Prop :=
  exists s e d, In s m /\ In (eid, e) s /\ In (typ, d) e /\ In (svc, ep) (d_eps d).

(* a discovery-response location registered for eid *)
Definition registers_disco (m : md) (eid loc : string) : Prop :=
  exists s e d, In s m /\ In (eid, e) s /\ In (R_SP, d) e /\ In (B_DISCO, loc) (d_disco d).

(* an attribute is "given" when present and non-empty *)
Definition given (o : option string) (v : string) : Prop := o = Some v /\ v <> "".
Definition absent (o : option string) : Prop := o = None \/ o = Some "".

(* the requester of a request: its Issuer (XML whitespace padding collapsed) *)
Definition requester (r : request) : string := strip (rq_issuer r).

(* which service / role of the requester's metadata answers a request of this class.
   descr = role named by the caller, else the peer role of my own entity type *)
Definition peer_role (etype descr : string) : string :=
  (if is_empty descr then (if String.eqb etype "sp" then "idpsso" else "spsso") else descr) ++ "_descriptor".

Definition answer_service (etype descr : string) (c : msgclass) : option (string * string) :=
  match c with
  | MAuthn => Some (S_ACS, R_SP)
  | MLogout => Some (S_SLO, peer_role etype descr)
  | MManageNameID => Some (S_MNI, peer_role etype descr)
  | MAttrQuery => Some (S_ATTRC, R_SP)
  | MSoapOnly | MOther => None
  end.

(* where answers may go at endpoint ep: its Location, or its ResponseLocation *)
Definition answer_target (ep : endpoint) (d : string) : Prop :=
  ep_location ep = d \/ ep_resp ep = Some d.

(* the endpoint is the one the request asks for *)
Definition chosen_by (r : request) (ep : endpoint) (d : string) : Prop :=
  match rq_class r with
  | MAuthn =>
      (forall u, given (rq_url r) u -> d = u /\ ep_location ep = u)
      /\ (absent (rq_url r) -> forall i, given (rq_index r) i -> ep_index ep = Some i /\ ep_location ep = d)
      /\ (absent (rq_url r) -> absent (rq_index r) -> answer_target ep d)
  | _ => answer_target ep d
  end.

Definition answer_spec (m : md) (etype : string) (req : request) (bindings : list string) (descr : string)
    (out : outcome) : Prop :=
  match out with
  | Dest b (Some d) =>
      (* reply on the back channel the request came in on: nothing is sent anywhere *)
      (bindings = [B_SOAP] /\ b = B_SOAP /\ d = "")
      \/ exists svc typ ep, answer_service etype descr (rq_class req) = Some (svc, typ)
           /\ publishes m (requester req) typ svc ep /\ ep_binding ep = b /\ chosen_by req ep d
  | Dest _ None => False
  | NoDest | Fail _ => True
  | _ => False
  end.

(* the role whose descriptor carries a service: consumer services live in the SP role, sign-on
   services in the IdP role, the rest in the role named by the caller / the peer role *)
Definition service_role (svc etype descr : string) : string :=
  if String.eqb svc S_ACS || String.eqb svc S_ATTRC then R_SP
  else if String.eqb svc S_SSO then R_IDP
  else peer_role etype descr.

(* round 7: a ResponseLocation counts only where the metadata schema gives it a meaning.  saml-metadata-2.0
   2.4.3 / 2.4.4: ArtifactResolutionService, SingleSignOnService and NameIDMappingService elements MUST NOT carry a
   ResponseLocation; a (schema-valid) stray one is not an endpoint "found in the target provider's metadata":
   for these services only the Location is. *)
Definition location_only (svc : string) : bool :=
  String.eqb svc S_SSO || String.eqb svc S_ARS || String.eqb svc S_NIM.

Definition pick_target (svc : string) (ep : endpoint) (d : string) : Prop :=
  ep_location ep = d \/ (location_only svc = false /\ ep_resp ep = Some d).

(* pick_binding called for an entity without a request: a published endpoint of the service *)
Definition pick_spec (m : md) (svc typ eid : string) (out : outcome) : Prop :=
  match out with
  | Dest b (Some d) => exists ep, publishes m eid typ svc ep /\ ep_binding ep = b /\ pick_target svc ep d
  | Dest _ None => False
  | Fail _ => True
  | _ => False
  end.

(* requests are sent to the Location of an endpoint of the target IdP *)
Definition sso_endpoint (m : md) (target : option string) (b d : string) : Prop :=
  exists e ep, (forall t, given target t -> e = t)
    /\ publishes m e R_IDP S_SSO ep /\ ep_binding ep = b /\ ep_location ep = d.

Definition spec (m : md) (o : op) (out : outcome) : Prop :=
  match o with
  | OpAnswer etype prefs req bindings descr => answer_spec m etype req bindings descr out
  | OpPick etype prefs svc bindings descr entity_id =>
      pick_spec m svc (service_role svc etype descr) entity_id out
  | OpSso eid b =>
      match out with
      | Loc (Some d) => sso_endpoint m eid b d
      | Loc None => False
      | Fail _ => True
      | _ => False
      end
  | OpNegotiate eid binding =>
      match out with
      | Dest b (Some d) => sso_endpoint m eid b d
                           /\ (forall x, given binding x -> b = x)
                           /\ (absent binding -> b = B_REDIRECT \/ b = B_POST)
      | Dest _ None => False
      | Fail _ => True
      | _ => False
      end
  | OpAuthenticate eid binding =>
      match out with
      | Dest b (Some d) => sso_endpoint m eid b d /\ b = binding
      | Dest _ None => False
      | Fail _ => True
      | _ => False
      end
  | OpLogout pref expected eids =>
      match out with
      | Trace sent _ =>
          forall e b d, In (e, b, d) sent ->
            In e eids /\ exists ep, publishes m e R_IDP S_SLO ep /\ ep_binding ep = b /\ ep_location ep = d
      | _ => False
      end
  | OpDisco eid url =>
      match out with
      | Approved true => exists loc, registers_disco m eid loc /\ String.prefix loc url = true
      | Approved false | Fail _ => True
      | _ => False
      end
  end.

(* ---------------------------------------------------------------- boolean version *)
Definition endpoint_eqb (a b : endpoint) : bool :=
  String.eqb (ep_binding a) (ep_binding b) && String.eqb (ep_location a) (ep_location b)
  && opt_eqb String.eqb (ep_index a) (ep_index b) && opt_eqb String.eqb (ep_resp a) (ep_resp b).

(* all endpoints published for (eid, typ, svc) *)
Definition published (m : md) (eid typ svc : string) : list endpoint :=
  flat_map (fun s : source =>
    flat_map (fun p : string * entity =>
      if String.eqb (fst p) eid then
        flat_map (fun q : string * descriptor =>
          if String.eqb (fst q) typ then select svc (d_eps (snd q)) else []) (snd p)
      else []) s) m.

Definition registered_disco (m : md) (eid : string) : list string :=
  flat_map (fun s : source =>
    flat_map (fun p : string * entity =>
      if String.eqb (fst p) eid then
        flat_map (fun q : string * descriptor =>
          if String.eqb (fst q) R_SP then select B_DISCO (d_disco (snd q)) else []) (snd p)
      else []) s) m.

Definition answer_target_b (ep : endpoint) (d : string) : bool :=
  String.eqb (ep_location ep) d || opt_eqb String.eqb (ep_resp ep) (Some d).

Definition chosen_by_b (r : request) (ep : endpoint) (d : string) : bool :=
  if is_authn (rq_class r) then
    match truthy (rq_url r), truthy (rq_index r) with
    | Some u, _ => String.eqb d u && String.eqb (ep_location ep) u
    | None, Some i => opt_eqb String.eqb (ep_index ep) (Some i) && String.eqb (ep_location ep) d
    | None, None => answer_target_b ep d
    end
  else answer_target_b ep d.

Definition answer_spec_b (m : md) (etype : string) (req : request) (bindings : list string) (descr : string)
    (out : outcome) : bool :=
  match out with
  | Dest b (Some d) =>
      (list_eqb String.eqb bindings [B_SOAP] && String.eqb b B_SOAP && is_empty d)
      || match answer_service etype descr (rq_class req) with
         | Some (svc, typ) =>
             existsb (fun ep => String.eqb (ep_binding ep) b && chosen_by_b req ep d)
                     (published m (requester req) typ svc)
         | None => false
         end
  | Dest _ None => false
  | NoDest | Fail _ => true
  | _ => false
  end.

Definition pick_target_b (svc : string) (ep : endpoint) (d : string) : bool :=
  String.eqb (ep_location ep) d || (negb (location_only svc) && opt_eqb String.eqb (ep_resp ep) (Some d)).

Definition pick_spec_b (m : md) (svc typ eid : string) (out : outcome) : bool :=
  match out with
  | Dest b (Some d) =>
      existsb (fun ep => String.eqb (ep_binding ep) b && pick_target_b svc ep d) (published m eid typ svc)
  | Dest _ None => false
  | Fail _ => true
  | _ => false
  end.

Definition entity_ids (m : md) : list string := flat_map (fun s : source => map fst s) m.

Definition sso_endpoint_b (m : md) (target : option string) (b d : string) : bool :=
  let ok e := existsb (fun ep => String.eqb (ep_binding ep) b && String.eqb (ep_location ep) d)
                      (published m e R_IDP S_SSO) in
  match truthy target with
  | Some t => ok t
  | None => existsb ok (entity_ids m)
  end.

Definition spec_b (m : md) (o : op) (out : outcome) : bool :=
  match o with
  | OpAnswer etype prefs req bindings descr => answer_spec_b m etype req bindings descr out
  | OpPick etype prefs svc bindings descr entity_id =>
      pick_spec_b m svc (service_role svc etype descr) entity_id out
  | OpSso eid b =>
      match out with
      | Loc (Some d) => sso_endpoint_b m eid b d
      | Loc None => false
      | Fail _ => true
      | _ => false
      end
  | OpNegotiate eid binding =>
      match out with
      | Dest b (Some d) =>
          sso_endpoint_b m eid b d
          && match truthy binding with
             | Some x => String.eqb b x
             | None => String.eqb b B_REDIRECT || String.eqb b B_POST
             end
      | Dest _ None => false
      | Fail _ => true
      | _ => false
      end
  | OpAuthenticate eid binding =>
      match out with
      | Dest b (Some d) => sso_endpoint_b m eid b d && String.eqb b binding
      | Dest _ None => false
      | Fail _ => true
      | _ => false
      end
  | OpLogout pref expected eids =>
      match out with
      | Trace sent _ =>
          forallb (fun x : string * string * string =>
                     let '(e, b, d) := x in
                     mem e eids
                     && existsb (fun ep => String.eqb (ep_binding ep) b && String.eqb (ep_location ep) d)
                                (published m e R_IDP S_SLO)) sent
      | _ => false
      end
  | OpDisco eid url =>
      match out with
      | Approved true => existsb (fun loc => String.prefix loc url) (registered_disco m eid)
      | Approved false | Fail _ => true
      | _ => false
      end
  end.

(* ---------------------------------------------------------------- long-lived entities (round 3) *)
(* "Published in the requester's metadata" / "found in the target provider's metadata" / "registered for
   that requester" mean the metadata the entity holds WHEN it handles the operation: what the latest
   refresh that the entity reported as successful (reload_metadata returned True) loaded into the entity
   that handles the operation, else what it was created with.  A configuration that does not load never
   comes into force, and a refresh of one entity says nothing about another entity of the process.
   steps = what was done, obs = what was observed (the outcome of every operation, the verdict of every
   refresh). *)
Fixpoint spec_seq (st : stores) (steps : list sstep) (obs : list sobs) : Prop :=
  match steps, obs with
  | [], [] => True
  | SOp k o :: r, OOut out :: r' => spec (st k) o out /\ spec_seq st r r'
  | SReload k m :: r, OReloaded ok :: r' => spec_seq (if ok then upd k m st else st) r r'
  | SReloadFail k :: r, OReloaded _ :: r' => spec_seq st r r'
  | _, _ => False
  end.

Fixpoint spec_seq_b (st : stores) (steps : list sstep) (obs : list sobs) : bool :=
  match steps, obs with
  | [], [] => true
  | SOp k o :: r, OOut out :: r' => spec_b (st k) o out && spec_seq_b st r r'
  | SReload k m :: r, OReloaded ok :: r' => spec_seq_b (if ok then upd k m st else st) r r'
  | SReloadFail k :: r, OReloaded _ :: r' => spec_seq_b st r r'
  | _, _ => false
  end.

(* the metadata in force for every entity after the steps, as judged from the recorded verdicts *)
Fixpoint stores_seen (st : stores) (steps : list sstep) (obs : list sobs) : stores :=
  match steps, obs with
  | SReload k m :: r, OReloaded ok :: r' => stores_seen (if ok then upd k m st else st) r r'
  | _ :: r, _ :: r' => stores_seen st r r'
  | _, _ => st
  end.

(* ---------------------------------------------------------------- the SERVED metadata (round 7) *)
(* "The requester's metadata" / "the target provider's metadata" when several sources of the store carry an
   EntityDescriptor for one entityID: the descriptor the store serves for that entityID (store[entity_id]: the first
   source, in load order, that has the entity).  A same-entityID descriptor shadowed in a later source is not the
   entity's metadata: an endpoint or role found only there must not be used (the request is to be refused).
   Stated for the operations aimed at one named entity; `spec` (some source publishes it) stays as it is and
   both are required of every observed outcome. *)
Definition describes (e : string) (s : source) : bool := existsb (fun p : string * entity => String.eqb (fst p) e) s.

Definition served (m : md) (e : string) : md :=
  match find (describes e) m with Some s => [s] | None => m end.

Definition target_of (o : op) : option string :=
  match o with
  | OpAnswer _ _ req _ _ => Some (requester req)
  | OpPick _ _ _ _ _ entity_id => Some entity_id
  | OpSso eid _ | OpNegotiate eid _ | OpAuthenticate eid _ => truthy eid
  | OpLogout _ _ _ | OpDisco _ _ => None
  end.

Definition spec_served (m : md) (o : op) (out : outcome) : Prop :=
  match target_of o with Some e => spec (served m e) o out | None => True end.

Definition spec_served_b (m : md) (o : op) (out : outcome) : bool :=
  match target_of o with Some e => spec_b (served m e) o out | None => true end.

Fixpoint served_seq (st : stores) (steps : list sstep) (obs : list sobs) : Prop :=
  match steps, obs with
  | [], [] => True
  | SOp k o :: r, OOut out :: r' => spec_served (st k) o out /\ served_seq st r r'
  | SReload k m :: r, OReloaded ok :: r' => served_seq (if ok then upd k m st else st) r r'
  | SReloadFail k :: r, OReloaded _ :: r' => served_seq st r r'
  | _, _ => False
  end.

Fixpoint served_seq_b (st : stores) (steps : list sstep) (obs : list sobs) : bool :=
  match steps, obs with
  | [], [] => true
  | SOp k o :: r, OOut out :: r' => spec_served_b (st k) o out && served_seq_b st r r'
  | SReload k m :: r, OReloaded ok :: r' => served_seq_b (if ok then upd k m st else st) r r'
  | SReloadFail k :: r, OReloaded _ :: r' => served_seq_b st r r'
  | _, _ => false
  end.
