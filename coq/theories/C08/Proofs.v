(* C08/Proofs.v *)
From Coq Require Import String List Bool.
From Verif Require Import Base.Str C08.Model C08.Spec.
Import ListNotations.
Open Scope string_scope.

(* ---------------------------------------------------------------- basics *)
Lemma is_empty_true s : is_empty s = true <-> s = "".
Proof. destruct s; cbn; split; congruence. Qed.

Lemma is_empty_false s : is_empty s = false <-> s <> "".
Proof. destruct s; cbn; split; congruence. Qed.

Lemma truthy_some o v : truthy o = Some v <-> given o v.
Proof.
  unfold truthy, given. destruct o as [s|].
  - destruct (is_empty s) eqn:E.
    + apply is_empty_true in E. subst. split; [discriminate|]. intros [H1 H2]. inversion H1. subst. contradiction.
    + apply is_empty_false in E. split.
      * intros H. inversion H. subst. split; [reflexivity|exact E].
      * intros [H _]. exact H.
  - split; [discriminate|]. intros [H _]. discriminate.
Qed.

Lemma truthy_none o : truthy o = None <-> absent o.
Proof.
  unfold truthy, absent. destruct o as [s|].
  - destruct (is_empty s) eqn:E.
    + apply is_empty_true in E. subst. split; [right; reflexivity|reflexivity].
    + apply is_empty_false in E. split; [discriminate|]. intros [H|H]; [discriminate|]. inversion H. contradiction.
  - split; [left; reflexivity|reflexivity].
Qed.

Lemma given_not_absent o v : given o v -> absent o -> False.
Proof. intros [H1 H2] [H|H]; rewrite H1 in H; [discriminate|]. inversion H. contradiction. Qed.

Lemma opt_eqb_some_eq (a : option string) b : opt_eqb String.eqb a (Some b) = true <-> a = Some b.
Proof.
  destruct a as [x|]; cbn; [|split; discriminate]. rewrite String.eqb_eq. split; [intros ->; reflexivity|].
  intros H. inversion H. reflexivity.
Qed.

Lemma select_In {A} k (l : list (string * A)) v : In v (select k l) <-> In (k, v) l.
Proof.
  unfold select. rewrite in_map_iff. split.
  - intros [[k' v'] [Hv Hf]]. cbn in Hv. subst v'. apply filter_In in Hf as [Hin Hk]. cbn in Hk.
    apply String.eqb_eq in Hk. subst. exact Hin.
  - intros H. exists (k, v). split; [reflexivity|]. apply filter_In. split; [exact H|]. cbn. apply String.eqb_refl.
Qed.

Lemma assoc_In {A} k (l : list (string * A)) v : assoc k l = Some v -> In (k, v) l.
Proof.
  induction l as [|[k' v'] r IH]; cbn [assoc]; [discriminate|].
  destruct (String.eqb k' k) eqn:E.
  - apply String.eqb_eq in E. intros H. inversion H. subst. left; reflexivity.
  - intros H. right. apply IH; exact H.
Qed.

Lemma descriptors_In s eid typ ds d :
  descriptors s eid typ = Some ds -> In d ds -> exists e, In (eid, e) s /\ In (typ, d) e.
Proof.
  unfold descriptors. destruct (assoc eid s) as [e|] eqn:Ea; [|discriminate].
  intros H Hd. exists e. split; [apply assoc_In; exact Ea|]. apply select_In.
  destruct (select typ e) as [|d0 r]; [discriminate|]. inversion H. subst. exact Hd.
Qed.

Lemma descriptors_nonempty s eid typ ds : descriptors s eid typ = Some ds -> ds <> [].
Proof.
  unfold descriptors. destruct (assoc eid s); [|discriminate].
  destruct (select typ e); [discriminate|]. intros H. inversion H. discriminate.
Qed.

Lemma src_service_In typ svc eid s l ep :
  src_service typ svc eid s = Some l -> In ep l ->
  exists e d, In (eid, e) s /\ In (typ, d) e /\ In (svc, ep) (d_eps d).
Proof.
  unfold src_service. destruct (descriptors s eid typ) as [ds|] eqn:Ed; [|discriminate].
  intros H Hin. inversion H. subst l. apply in_flat_map in Hin as [d [Hd Hep]].
  destruct (descriptors_In _ _ _ _ _ Ed Hd) as [e [He Hde]].
  exists e, d. split; [exact He|]. split; [exact Hde|]. apply select_In; exact Hep.
Qed.

Lemma src_disco_In b eid s l loc :
  src_disco b eid s = Some l -> In loc l ->
  exists e d, In (eid, e) s /\ In (R_SP, d) e /\ In (b, loc) (d_disco d).
Proof.
  unfold src_disco. destruct (descriptors s eid R_SP) as [ds|] eqn:Ed; [|discriminate].
  intros H Hin. inversion H. subst l. apply in_flat_map in Hin as [d [Hd Hep]].
  destruct (descriptors_In _ _ _ _ _ Ed Hd) as [e [He Hde]].
  exists e, d. split; [exact He|]. split; [exact Hde|]. apply select_In; exact Hep.
Qed.

(* the store answers with the kept part of ONE source's answer, and never with an empty list *)
Lemma store_first_sound {A} (get : source -> option (list A)) keep m known l :
  store_first get keep m known = Found l ->
  l <> [] /\ exists s l0, In s m /\ get s = Some l0 /\ l = filter keep l0.
Proof.
  revert known. induction m as [|s r IH]; intros known; cbn [store_first].
  - destruct known; discriminate.
  - destruct (get s) as [l0|] eqn:Eg.
    + destruct (filter keep l0) as [|x l'] eqn:Ef.
      * intros H. destruct (IH _ H) as [Hne [s' [l1 [Hs [Hg Hl]]]]].
        split; [exact Hne|]. exists s', l1. split; [right; exact Hs|]. split; assumption.
      * intros H. inversion H. subst l. split; [discriminate|].
        exists s, l0. split; [left; reflexivity|]. split; [exact Eg|]. symmetry; exact Ef.
    + intros H. destruct (IH _ H) as [Hne [s' [l1 [Hs [Hg Hl]]]]].
      split; [exact Hne|]. exists s', l1. split; [right; exact Hs|]. split; assumption.
Qed.

(* ---- the first source that has the entity *)
Lemma In_assoc {A} k (v : A) l : In (k, v) l -> exists v', assoc k l = Some v'.
Proof.
  induction l as [|[k' v'] r IH]; cbn [assoc In]; [contradiction|].
  intros [H|H].
  - inversion H. subst. rewrite String.eqb_refl. exists v. reflexivity.
  - destruct (String.eqb k' k); [exists v'; reflexivity|exact (IH H)].
Qed.

Lemma has_entity_iff eid s : has_entity eid s = true <-> exists e, In (eid, e) s.
Proof.
  unfold has_entity. split.
  - destruct (assoc eid s) as [e|] eqn:Ea; [|discriminate]. intros _. exists e. apply assoc_In; exact Ea.
  - intros [e He]. destruct (In_assoc _ _ _ He) as [e' ->]. reflexivity.
Qed.

Lemma descriptors_has_entity s eid typ ds : descriptors s eid typ = Some ds -> has_entity eid s = true.
Proof. unfold descriptors, has_entity. destruct (assoc eid s); [reflexivity|discriminate]. Qed.

(* first_with is exactly "the first source, in load order, that has the entity" *)
Lemma first_with_spec eid m s :
  first_with eid m = Some s <->
  exists pre post, m = (pre ++ s :: post)%list /\ has_entity eid s = true
                   /\ forall s', In s' pre -> has_entity eid s' = false.
Proof.
  split.
  - revert s. induction m as [|x r IH]; intros s; cbn [first_with]; [discriminate|].
    destruct (has_entity eid x) eqn:Ex.
    + intros H. inversion H. subst x. exists [], r. split; [reflexivity|]. split; [exact Ex|]. intros s' [].
    + intros H. destruct (IH _ H) as [pre [post [Hm [Hs Hpre]]]]. exists (x :: pre), post.
      split; [cbn; rewrite Hm; reflexivity|]. split; [exact Hs|].
      intros s' [<-|Hin]; [exact Ex|exact (Hpre _ Hin)].
  - intros [pre [post [-> [Hs Hpre]]]]. induction pre as [|x r IH]; cbn [app first_with].
    + rewrite Hs. reflexivity.
    + rewrite (Hpre x (or_introl eq_refl)). apply IH. intros s' Hin. apply Hpre. right; exact Hin.
Qed.

Lemma first_with_In eid m s : first_with eid m = Some s -> In s m /\ has_entity eid s = true.
Proof.
  intros H. apply first_with_spec in H as [pre [post [-> [Hs _]]]].
  split; [apply in_or_app; right; left; reflexivity|exact Hs].
Qed.

Lemma first_with_none eid m : first_with eid m = None <-> forall s, In s m -> has_entity eid s = false.
Proof.
  induction m as [|x r IH]; cbn [first_with].
  - split; [intros _ s []|reflexivity].
  - destruct (has_entity eid x) eqn:Ex.
    + split; [discriminate|]. intros H. rewrite (H x (or_introl eq_refl)) in Ex. discriminate.
    + rewrite IH. split.
      * intros H s [<-|Hin]; [exact Ex|exact (H _ Hin)].
      * intros H s Hin. apply H. right; exact Hin.
Qed.

Lemma first_with_single eid s : has_entity eid s = true -> first_with eid [s] = Some s.
Proof. intros H. cbn [first_with]. rewrite H. reflexivity. Qed.

(* MetadataStore.service with any number of sources IS the lookup in the first source that has
   the entity: later sources are never consulted for an entity an earlier source has *)
Lemma store_service_first m eid typ svc ob s :
  first_with eid m = Some s -> store_service m eid typ svc ob = store_service [s] eid typ svc ob.
Proof.
  intros H. unfold store_service. rewrite H.
  rewrite (first_with_single eid s (proj2 (first_with_In _ _ _ H))). reflexivity.
Qed.

Lemma store_service_unknown m eid typ svc ob :
  first_with eid m = None -> store_service m eid typ svc ob = Unknown.
Proof. intros H. unfold store_service. rewrite H. reflexivity. Qed.

Definition keep_of (ob : option string) : endpoint -> bool :=
  match ob with Some b => has_binding b | None => fun _ => true end.

(* what the store answers, exactly: the kept part of the first source's answer, never empty *)
Lemma store_service_found m eid typ svc ob l :
  store_service m eid typ svc ob = Found l <->
  l <> [] /\ exists s l0, first_with eid m = Some s /\ src_service typ svc eid s = Some l0
                          /\ l = filter (keep_of ob) l0.
Proof.
  unfold store_service. fold (keep_of ob). split.
  - destruct (first_with eid m) as [s|] eqn:Ef; [|discriminate].
    destruct (src_service typ svc eid s) as [l0|] eqn:Eg; [|discriminate].
    destruct (filter (keep_of ob) l0) as [|x l'] eqn:Efl; [discriminate|].
    intros H. inversion H. subst l. split; [discriminate|]. exists s, l0.
    split; [reflexivity|]. split; [exact Eg|]. symmetry; exact Efl.
  - intros [Hne [s [l0 [-> [-> Hl]]]]]. rewrite <- Hl. destruct l; [contradiction|reflexivity].
Qed.

Lemma store_service_sound m eid typ svc ob l :
  store_service m eid typ svc ob = Found l ->
  l <> [] /\ forall ep, In ep l -> publishes m eid typ svc ep /\ (forall b, ob = Some b -> ep_binding ep = b).
Proof.
  intros H. apply store_service_found in H as [Hne [s [l0 [Hf [Hg Hl]]]]].
  split; [exact Hne|]. intros ep Hep. subst l. apply filter_In in Hep as [Hin Hk]. split.
  - destruct (src_service_In _ _ _ _ _ _ Hg Hin) as [e [d [H1 [H2 H3]]]].
    exists s, e, d. split; [exact (proj1 (first_with_In _ _ _ Hf))|]. repeat split; assumption.
  - intros b ->. unfold keep_of, has_binding in Hk. apply String.eqb_eq in Hk. exact Hk.
Qed.

(* soundness AND completeness of the lookup against the first source that has the entity, for any
   number of sources: an endpoint is served for (role, service, binding) iff THAT source lists it *)
Lemma store_service_exact m eid typ svc b s ep :
  first_with eid m = Some s ->
  ((exists l, store_service m eid typ svc (Some b) = Found l /\ In ep l) <->
   (exists ds, descriptors s eid typ = Some ds
               /\ In ep (flat_map (fun d => select svc (d_eps d)) ds) /\ ep_binding ep = b)).
Proof.
  intros Hf. split.
  - intros [l [H Hin]]. apply store_service_found in H as [_ [s' [l0 [Hf' [Hg Hl]]]]].
    rewrite Hf in Hf'. inversion Hf'. subst s'. subst l. apply filter_In in Hin as [Hin Hk].
    unfold src_service in Hg. destruct (descriptors s eid typ) as [ds|]; [|discriminate].
    inversion Hg. subst l0. exists ds. split; [reflexivity|]. split; [exact Hin|].
    apply String.eqb_eq; exact Hk.
  - intros [ds [Hd [Hin Hb]]].
    assert (Hk : In ep (filter (keep_of (Some b)) (flat_map (fun d => select svc (d_eps d)) ds))).
    { apply filter_In. split; [exact Hin|]. cbn. unfold has_binding. apply String.eqb_eq; exact Hb. }
    exists (filter (keep_of (Some b)) (flat_map (fun d => select svc (d_eps d)) ds)). split; [|exact Hk].
    apply store_service_found. split; [intros E; rewrite E in Hk; contradiction|].
    exists s, (flat_map (fun d => select svc (d_eps d)) ds). split; [exact Hf|]. split; [|reflexivity].
    unfold src_service. rewrite Hd. reflexivity.
Qed.

Lemma store_disco_sound m eid l :
  store_disco m eid = Found l -> forall loc, In loc l -> registers_disco m eid loc.
Proof.
  unfold store_disco. intros H loc Hin. apply store_first_sound in H as [_ [s [l0 [Hs [Hg Hl]]]]].
  subst l. apply filter_In in Hin as [Hin _].
  destruct (src_disco_In _ _ _ _ _ Hg Hin) as [e [d [H1 [H2 H3]]]].
  exists s, e, d. repeat split; assumption.
Qed.

(* ---------------------------------------------------------------- pick_binding *)
Lemma scan_url_sound l u : scan_url l u = true -> exists ep, In ep l /\ ep_location ep = u.
Proof.
  unfold scan_url. intros H. apply existsb_exists in H as [ep [Hin He]].
  exists ep. split; [exact Hin|]. apply String.eqb_eq; exact He.
Qed.

Lemma scan_index_sound l i loc :
  scan_index l i = Hit loc -> exists ep, In ep l /\ ep_index ep = Some i /\ ep_location ep = loc.
Proof.
  induction l as [|ep r IH]; cbn [scan_index]; [discriminate|].
  destruct (ep_index ep) as [j|] eqn:Ej; [|discriminate].
  destruct (String.eqb j i) eqn:E.
  - apply String.eqb_eq in E. subst j. intros H. inversion H. exists ep. split; [left; reflexivity|]. split; [exact Ej|reflexivity].
  - intros H. destruct (IH H) as [ep' [Hin Hx]]. exists ep'. split; [right; exact Hin|exact Hx].
Qed.

Lemma all_locations_sound svc l d :
  In d (all_locations svc l) -> exists ep, In ep l /\ pick_target svc ep d.
Proof.
  unfold all_locations, response_locations, locations. intros H. apply in_app_or in H as [H|H].
  - destruct (resp_excluded svc) eqn:Ex; [contradiction|]. apply in_flat_map in H as [ep [Hin Hd]].
    exists ep. split; [exact Hin|]. right. split; [exact Ex|]. destruct (ep_resp ep) as [r|]; [|contradiction].
    destruct Hd as [->|[]]. reflexivity.
  - apply in_map_iff in H as [ep [He Hin]]. exists ep. split; [exact Hin|]. left; exact He.
Qed.

Lemma pick_target_answer svc ep d : pick_target svc ep d -> answer_target ep d.
Proof. intros [H|[_ H]]; [left|right]; exact H. Qed.

Lemma hd_error_In {A} (l : list A) x : hd_error l = Some x -> In x l.
Proof. destruct l; cbn; [discriminate|]. intros H. inversion H. left; reflexivity. Qed.

Lemma all_locations_nonempty svc l : l <> [] -> hd_error (all_locations svc l) <> None.
Proof.
  intros Hne. unfold all_locations, locations. destruct l as [|ep r]; [contradiction|].
  destruct (response_locations svc (ep :: r)); cbn; discriminate.
Qed.

(* what pick_loop guarantees about a selected destination *)
Definition selected (m : md) (eid typ svc : string) (url index : option string) (bs : list string)
    (b : string) (od : option string) : Prop :=
  exists d ep, od = Some d /\ In b bs /\ publishes m eid typ svc ep /\ ep_binding ep = b
    /\ match url, index with
       | Some u, _ => d = u /\ ep_location ep = u
       | None, Some i => ep_index ep = Some i /\ ep_location ep = d
       | None, None => pick_target svc ep d
       end.

Lemma pick_loop_sound m eid typ svc url index bs :
  match pick_loop m eid typ svc url index bs with
  | Dest b od => selected m eid typ svc url index bs b od
  | Fail _ => True
  | _ => False
  end.
Proof.
  induction bs as [|b r IH]; cbn [pick_loop]; [exact I|].
  assert (Hrec : match pick_loop m eid typ svc url index r with
                 | Dest b0 od => selected m eid typ svc url index (b :: r) b0 od
                 | Fail _ => True
                 | _ => False
                 end).
  { destruct (pick_loop m eid typ svc url index r); try exact IH.
    destruct IH as [d [ep [H1 [H2 H3]]]]. exists d, ep. split; [exact H1|]. split; [right; exact H2|exact H3]. }
  destruct (store_service m eid typ svc (Some b)) as [l| |] eqn:Es; [|exact Hrec|exact I].
  apply store_service_sound in Es as [Hne Hl].
  destruct url as [u|].
  - destruct (scan_url l u) eqn:Eu; [|exact Hrec].
    apply scan_url_sound in Eu as [ep [Hin Hloc]]. destruct (Hl ep Hin) as [Hp Hb].
    exists u, ep. split; [reflexivity|]. split; [left; reflexivity|]. split; [exact Hp|].
    split; [apply Hb; reflexivity|]. split; [reflexivity|exact Hloc].
  - destruct index as [i|].
    + destruct (scan_index l i) as [loc| |] eqn:Ei; [|exact Hrec|exact I].
      apply scan_index_sound in Ei as [ep [Hin [Hi Hloc]]]. destruct (Hl ep Hin) as [Hp Hb].
      exists loc, ep. split; [reflexivity|]. split; [left; reflexivity|]. split; [exact Hp|].
      split; [apply Hb; reflexivity|]. split; assumption.
    + destruct (hd_error (all_locations svc l)) as [d|] eqn:Eh.
      * apply hd_error_In in Eh. apply all_locations_sound in Eh as [ep [Hin Ht]].
        destruct (Hl ep Hin) as [Hp Hb]. exists d, ep. split; [reflexivity|]. split; [left; reflexivity|].
        split; [exact Hp|]. split; [apply Hb; reflexivity|exact Ht].
      * exfalso. exact (all_locations_nonempty svc l Hne Eh).
Qed.

Lemma pb_descr_idem etype descr : pb_descr etype (pb_descr etype descr) = pb_descr etype descr.
Proof.
  unfold pb_descr. destruct (is_empty descr) eqn:E; [|rewrite E; reflexivity].
  unfold default_descr. destruct (String.eqb etype "sp"); reflexivity.
Qed.

Lemma pick_binding_sound m etype prefs svc bindings descr req entity_id :
  match pick_binding m etype prefs svc bindings descr req entity_id with
  | Dest b od => exists bs, effective_bindings prefs svc bindings req = inl bs
                   /\ selected m (pb_eid req entity_id) (typ_of svc (pb_descr etype descr)) svc
                               (fst (pb_ui req svc)) (snd (pb_ui req svc)) bs b od
  | Fail _ => True
  | _ => False
  end.
Proof.
  unfold pick_binding. destruct (effective_bindings prefs svc bindings req) as [bs|e]; [|exact I].
  pose proof (pick_loop_sound m (pb_eid req entity_id) (typ_of svc (pb_descr etype descr)) svc
                              (fst (pb_ui req svc)) (snd (pb_ui req svc)) bs) as H.
  destruct (pick_loop _ _ _ _ _ _ bs); try exact H. exists bs. split; [reflexivity|exact H].
Qed.

Lemma peer_role_typ etype descr : peer_role etype descr = pb_descr etype descr ++ "_descriptor".
Proof. reflexivity. Qed.

Lemma target_non_authn r ep d : is_authn (rq_class r) = false -> answer_target ep d -> chosen_by r ep d.
Proof. unfold chosen_by. destruct (rq_class r); [discriminate|..]; intros _ H; exact H. Qed.

(* response_args: every selected (binding, destination) is published for the requester and chosen
   as the request asks *)
Lemma answer_sound m etype prefs req bindings descr :
  answer_spec m etype req bindings descr (response_args m etype prefs req bindings descr).
Proof.
  unfold response_args. cbv zeta.
  set (go := answer_with m etype prefs req bindings).
  assert (Hgo : forall svc typ d0,
             answer_service etype descr (rq_class req) = Some (svc, typ) ->
             is_empty svc = false ->
             typ = typ_of svc (pb_descr etype d0) ->
             (is_authn (rq_class req) && String.eqb svc S_ACS = is_authn (rq_class req)) ->
             answer_spec m etype req bindings descr (go svc d0)).
  { intros svc typ d0 Hs Hne Htyp Hacs. unfold go, answer_with.
    destruct (list_eqb String.eqb bindings [B_SOAP]) eqn:Eb.
    { apply (list_eqb_eq String.eqb String.eqb_eq) in Eb. cbn. left. repeat split; [exact Eb]. }
    rewrite Hne.
    pose proof (pick_binding_sound m etype prefs svc bindings (pb_descr etype d0) (Some req) "") as H.
    destruct (pick_binding m etype prefs svc bindings (pb_descr etype d0) (Some req) "") as [b od| | | | |e];
      try exact H; try exact I.
    destruct H as [bs [_ [d [ep [Hod [_ [Hp [Hb Hsel]]]]]]]]. subst od. cbn [answer_spec]. right.
    exists svc, typ, ep. split; [exact Hs|]. rewrite pb_descr_idem in Hp. rewrite <- Htyp in Hp.
    split; [exact Hp|]. split; [exact Hb|].
    unfold pb_ui in Hsel. rewrite Hacs in Hsel.
    destruct (is_authn (rq_class req)) eqn:Ea.
    - unfold chosen_by. destruct (rq_class req); try discriminate. cbn [fst snd] in Hsel.
      destruct (truthy (rq_url req)) as [u|] eqn:Eu.
      + destruct Hsel as [-> Hl]. apply truthy_some in Eu. split; [|split].
        * intros u' Hu'. destruct Eu as [E1 _]. destruct Hu' as [E2 _]. assert (Ex : u' = u) by congruence. subst u'. split; [reflexivity|exact Hl].
        * intros Ha. exfalso. exact (given_not_absent _ _ Eu Ha).
        * intros Ha. exfalso. exact (given_not_absent _ _ Eu Ha).
      + apply truthy_none in Eu. destruct (truthy (rq_index req)) as [i|] eqn:Ei.
        * apply truthy_some in Ei. split; [|split].
          -- intros u' Hu'. exfalso. exact (given_not_absent _ _ Hu' Eu).
          -- intros _ i' Hi'. destruct Ei as [E1 _]. destruct Hi' as [E2 _]. assert (Ex : i' = i) by congruence. subst i'. exact Hsel.
          -- intros _ Ha. exfalso. exact (given_not_absent _ _ Ei Ha).
        * apply truthy_none in Ei. split; [|split].
          -- intros u' Hu'. exfalso. exact (given_not_absent _ _ Hu' Eu).
          -- intros _ i' Hi'. exfalso. exact (given_not_absent _ _ Hi' Ei).
          -- intros _ _. exact (pick_target_answer _ _ _ Hsel).
    - cbn [fst snd] in Hsel. apply target_non_authn; [exact Ea|exact (pick_target_answer _ _ _ Hsel)]. }
  destruct (rq_class req) eqn:Ec.
  - apply (Hgo S_ACS R_SP "spsso"); reflexivity.
  - apply (Hgo S_SLO (peer_role etype descr) descr); reflexivity.
  - apply (Hgo S_ATTRC R_SP "spsso"); reflexivity.
  - apply (Hgo S_MNI (peer_role etype descr) descr); reflexivity.
  - unfold go, answer_with. destruct (list_eqb String.eqb bindings [B_SOAP]) eqn:Eb.
    + apply (list_eqb_eq String.eqb String.eqb_eq) in Eb. cbn. left. repeat split; exact Eb.
    + cbn. exact I.
  - exact I.
Qed.

(* where the binding comes from: the caller's list, else the request's ProtocolBinding, else the
   configured preference for the service *)
Lemma answer_binding_origin m etype prefs req bindings descr b od :
  response_args m etype prefs req bindings descr = Dest b od ->
  bindings = [B_SOAP] \/
  (bindings <> [] /\ In b bindings) \/
  (bindings = [] /\ rq_class req = MAuthn /\
     ((exists pb, given (rq_pb req) pb /\ b = pb) \/
      (absent (rq_pb req) /\ exists l, assoc S_ACS prefs = Some l /\ In b l))).
Proof.
  unfold response_args. cbv zeta.
  set (go := answer_with m etype prefs req bindings).
  assert (Hgo : forall svc d0, go svc d0 = Dest b od ->
            bindings = [B_SOAP] \/ exists bs, effective_bindings prefs svc bindings (Some req) = inl bs /\ In b bs).
  { intros svc d0. unfold go, answer_with. destruct (list_eqb String.eqb bindings [B_SOAP]) eqn:Eb.
    { apply (list_eqb_eq String.eqb String.eqb_eq) in Eb. intros _. left; exact Eb. }
    destruct (is_empty svc); [discriminate|]. intros H. right.
    pose proof (pick_binding_sound m etype prefs svc bindings (pb_descr etype d0) (Some req) "") as Hs.
    rewrite H in Hs. destruct Hs as [bs [He [d [ep [_ [Hin _]]]]]]. exists bs. split; assumption. }
  assert (Heff : forall svc bs, effective_bindings prefs svc bindings (Some req) = inl bs -> In b bs ->
            (bindings <> [] /\ In b bindings) \/
            (bindings = [] /\ rq_class req = MAuthn /\
               ((exists pb, given (rq_pb req) pb /\ b = pb) \/
                (absent (rq_pb req) /\ exists l, assoc svc prefs = Some l /\ In b l)))).
  { intros svc bs He Hin. unfold effective_bindings in He. destruct bindings as [|x r].
    - right. split; [reflexivity|]. destruct (rq_class req); cbn [is_authn] in He; try discriminate.
      split; [reflexivity|]. destruct (truthy (rq_pb req)) as [pb|] eqn:Ep.
      + left. exists pb. apply truthy_some in Ep. split; [exact Ep|]. inversion He. subst bs.
        destruct Hin as [->|[]]. reflexivity.
      + right. apply truthy_none in Ep. split; [exact Ep|]. destruct (assoc svc prefs) as [l|]; [|discriminate].
        inversion He. subst. exists bs. split; [reflexivity|exact Hin].
    - left. inversion He. subst bs. split; [discriminate|exact Hin]. }
  destruct (rq_class req) eqn:Ec; intros H; try discriminate.
  - destruct (Hgo _ _ H) as [Hs|[bs [He Hin]]]; [left; exact Hs|]. right.
    destruct (Heff _ _ He Hin) as [Hx|[H1 [_ H3]]]; [left; exact Hx|right]. split; [exact H1|]. split; [reflexivity|exact H3].
  - destruct (Hgo _ _ H) as [Hs|[bs [He Hin]]]; [left; exact Hs|]. right.
    destruct (Heff _ _ He Hin) as [Hx|[_ [Hc _]]]; [left; exact Hx|discriminate].
  - destruct (Hgo _ _ H) as [Hs|[bs [He Hin]]]; [left; exact Hs|]. right.
    destruct (Heff _ _ He Hin) as [Hx|[_ [Hc _]]]; [left; exact Hx|discriminate].
  - destruct (Hgo _ _ H) as [Hs|[bs [He Hin]]]; [left; exact Hs|]. right.
    destruct (Heff _ _ He Hin) as [Hx|[_ [Hc _]]]; [left; exact Hx|discriminate].
  - destruct (Hgo _ _ H) as [Hs|[bs [He Hin]]]; [left; exact Hs|]. right.
    destruct (Heff _ _ He Hin) as [Hx|[_ [Hc _]]]; [left; exact Hx|discriminate].
Qed.

(* ---------------------------------------------------------------- pick_binding for an entity *)
Lemma service_role_typ svc etype descr : service_role svc etype descr = typ_of svc (pb_descr etype descr).
Proof. reflexivity. Qed.

Lemma pick_sound_entity m etype prefs svc bindings descr entity_id :
  pick_spec m svc (service_role svc etype descr) entity_id
            (pick_binding m etype prefs svc bindings descr None entity_id).
Proof.
  pose proof (pick_binding_sound m etype prefs svc bindings descr None entity_id) as H.
  destruct (pick_binding m etype prefs svc bindings descr None entity_id) as [b od| | | | |e]; try exact H.
  destruct H as [bs [_ [d [ep [Hod [_ [Hp [Hb Hsel]]]]]]]]. subst od. cbn in Hsel |- *.
  exists ep. rewrite service_role_typ. repeat split; assumption.
Qed.

(* round 7: for the services that must not have a ResponseLocation (SingleSignOnService,
   ArtifactResolutionService, NameIDMappingService) the destination is the LOCATION of a published endpoint,
   whatever stray ResponseLocation attributes the metadata carries: for the model ... *)
Lemma pick_location_only m etype prefs svc bindings descr entity_id b d :
  location_only svc = true ->
  pick_binding m etype prefs svc bindings descr None entity_id = Dest b (Some d) ->
  exists ep, publishes m entity_id (service_role svc etype descr) svc ep /\ ep_binding ep = b /\ ep_location ep = d.
Proof.
  intros Hlo He. pose proof (pick_sound_entity m etype prefs svc bindings descr entity_id) as H.
  rewrite He in H. cbn [pick_spec] in H. destruct H as [ep [Hp [Hb [Hl|[Hx _]]]]].
  - exists ep. repeat split; assumption.
  - rewrite Hlo in Hx. discriminate.
Qed.

(* ... and for every outcome that passes the spec (the outcomes recorded on the real code) *)
Lemma spec_location_only m etype prefs svc bindings descr entity_id b d :
  location_only svc = true ->
  spec m (OpPick etype prefs svc bindings descr entity_id) (Dest b (Some d)) ->
  exists ep, publishes m entity_id (service_role svc etype descr) svc ep /\ ep_binding ep = b /\ ep_location ep = d.
Proof.
  intros Hlo H. cbn [spec pick_spec] in H. destruct H as [ep [Hp [Hb [Hl|[Hx _]]]]].
  - exists ep. repeat split; assumption.
  - rewrite Hlo in Hx. discriminate.
Qed.

(* ---------------------------------------------------------------- SSO *)
Lemma sso_of_sound m e b :
  match sso_of m e b with
  | Loc (Some d) => exists ep, publishes m e R_IDP S_SSO ep /\ ep_binding ep = b /\ ep_location ep = d
  | Loc None => False
  | Fail _ => True
  | _ => False
  end.
Proof.
  unfold sso_of. destruct (store_service m e R_IDP S_SSO (Some b)) as [l| |] eqn:Es; try exact I.
  apply store_service_sound in Es as [Hne Hl]. destruct l as [|ep r]; [contradiction|]. cbn.
  destruct (Hl ep (or_introl eq_refl)) as [Hp Hb]. exists ep. repeat split; [exact Hp|apply Hb; reflexivity].
Qed.

Lemma sso_sound m eid b :
  match sso_location m eid b with
  | Loc (Some d) => sso_endpoint m eid b d
  | Loc None => False
  | Fail _ => True
  | _ => False
  end.
Proof.
  unfold sso_location, sso_endpoint. destruct (truthy eid) as [e|] eqn:Et.
  - pose proof (sso_of_sound m e b) as H. destruct (sso_of m e b) as [| |[d|]| | |]; try exact H.
    destruct H as [ep H]. exists e, ep. split; [|exact H]. intros t Ht. apply truthy_some in Et.
    destruct Et as [E1 _]. destruct Ht as [E2 _]. congruence.
  - destruct (with_idp m) as [|e [|e' r]]; try exact I.
    pose proof (sso_of_sound m e b) as H. destruct (sso_of m e b) as [| |[d|]| | |]; try exact H.
    destruct H as [ep H]. exists e, ep. split; [|exact H]. intros t Ht. exfalso.
    apply truthy_none in Et. exact (given_not_absent _ _ Ht Et).
Qed.

Lemma first_sso_sound m eid bs b od :
  first_sso m eid bs = Some (b, od) -> In b bs /\ exists d, od = Some d /\ sso_endpoint m eid b d.
Proof.
  induction bs as [|x r IH]; cbn [first_sso]; [discriminate|].
  pose proof (sso_sound m eid x) as H.
  destruct (sso_location m eid x) as [| |[d|]| | |] eqn:E; try contradiction;
    try (intros H'; destruct (IH H') as [Hin Hx]; split; [right; exact Hin|exact Hx]).
  intros H'. inversion H'. subst. split; [left; reflexivity|]. exists d. split; [reflexivity|exact H].
Qed.

Lemma negotiated_sound m eid binding :
  spec m (OpNegotiate eid binding) (negotiated m eid binding).
Proof.
  cbn [spec]. unfold negotiated.
  destruct (first_sso m eid (bindings_to_try binding)) as [[b od]|] eqn:E; [|exact I].
  apply first_sso_sound in E as [Hin [d [-> Hs]]].
  destruct (known_binding b); [|exact I]. split; [exact Hs|].
  unfold bindings_to_try in Hin. destruct (truthy binding) as [x|] eqn:Et.
  - destruct Hin as [->|[]]. apply truthy_some in Et. split.
    + intros y Hy. destruct Et as [E1 _]. destruct Hy as [E2 _]. congruence.
    + intros Ha. exfalso. exact (given_not_absent _ _ Et Ha).
  - apply truthy_none in Et. split.
    + intros y Hy. exfalso. exact (given_not_absent _ _ Hy Et).
    + intros _. destruct Hin as [<-|[<-|[]]]; [left|right]; reflexivity.
Qed.

Lemma authenticate_sound m eid binding :
  spec m (OpAuthenticate eid binding) (authenticate m eid binding).
Proof.
  cbn [spec]. unfold authenticate. pose proof (negotiated_sound m eid (Some binding)) as H. cbn [spec] in H.
  destruct (negotiated m eid (Some binding)) as [b [d|]| | | | |e]; try exact H; try contradiction.
  destruct (String.eqb b binding) eqn:Eb; [|exact I]. apply String.eqb_eq in Eb.
  destruct H as [Hs _]. split; assumption.
Qed.

(* ---------------------------------------------------------------- SLO *)
Lemma slo_one_sound m pref expected e b d :
  slo_one m pref expected e = Send b d ->
  exists ep, publishes m e R_IDP S_SLO ep /\ ep_binding ep = b /\ ep_location ep = d.
Proof.
  unfold slo_one. destruct (store_service m e R_IDP S_SLO None) as [l| |] eqn:Es; try discriminate.
  apply store_service_sound in Es as [_ Hl].
  destruct (slo_choice pref expected l) as [b0|]; [|discriminate].
  destruct (filter (has_binding b0) l) as [|ep r] eqn:Ef; [discriminate|].
  destruct (is_empty (ep_location ep)); [discriminate|]. destruct (known_binding b0); [|discriminate].
  intros H. inversion H. subst b0 d.
  assert (Hin : In ep (filter (has_binding b) l)) by (rewrite Ef; left; reflexivity).
  apply filter_In in Hin as [Hin Hb]. exists ep. destruct (Hl ep Hin) as [Hp _].
  split; [exact Hp|]. split; [apply String.eqb_eq; exact Hb|reflexivity].
Qed.

Lemma slo_all_sound m pref expected eids :
  forall e b d, In (e, b, d) (fst (slo_all m pref expected eids)) ->
    In e eids /\ exists ep, publishes m e R_IDP S_SLO ep /\ ep_binding ep = b /\ ep_location ep = d.
Proof.
  induction eids as [|x r IH]; cbn [slo_all]; intros e b d; [cbn; contradiction|].
  destruct (slo_one m pref expected x) as [b0 d0| |err] eqn:E1.
  - destruct (slo_all m pref expected r) as [t er] eqn:Er. cbn [fst]. intros [H|H].
    + inversion H. subst. split; [left; reflexivity|]. exact (slo_one_sound _ _ _ _ _ _ E1).
    + cbn [fst] in IH. destruct (IH _ _ _ H) as [Hin Hx]. split; [right; exact Hin|exact Hx].
  - intros H. destruct (IH _ _ _ H) as [Hin Hx]. split; [right; exact Hin|exact Hx].
  - cbn. contradiction.
Qed.

Lemma logout_sound m pref expected eids :
  spec m (OpLogout pref expected eids) (do_logout m pref expected eids).
Proof.
  cbn [spec]. unfold do_logout. pose proof (slo_all_sound m pref expected eids) as H.
  destruct (slo_all m pref expected eids) as [t x]. exact H.
Qed.

(* ---------------------------------------------------------------- discovery *)
Lemma disco_sound m eid url :
  spec m (OpDisco eid url) (verify_return m eid url).
Proof.
  cbn [spec]. unfold verify_return. destruct (store_disco m eid) as [l| |] eqn:Es; try exact I.
  destruct (existsb (fun loc => startswith url loc) l) eqn:Ee; [|exact I].
  apply existsb_exists in Ee as [loc [Hin Hp]]. exists loc. split; [|exact Hp].
  exact (store_disco_sound _ _ _ Es _ Hin).
Qed.

(* ---------------------------------------------------------------- main theorem *)
Lemma destinations_from_metadata m o : spec m o (run_op m o).
Proof.
  destruct o as [etype prefs req bindings descr|etype prefs svc bindings descr entity_id|eid b|eid b|eid b|pref expected eids|eid url].
  - apply answer_sound.
  - apply pick_sound_entity.
  - exact (sso_sound m eid b).
  - apply negotiated_sound.
  - apply authenticate_sound.
  - apply logout_sound.
  - apply disco_sound.
Qed.

(* ---------------------------------------------------------------- the boolean spec IS the spec *)
Lemma published_In m eid typ svc ep : In ep (published m eid typ svc) <-> publishes m eid typ svc ep.
Proof.
  unfold published, publishes. rewrite in_flat_map. split.
  - intros [s [Hs H]]. apply in_flat_map in H as [[k e] [Hp H]]. cbn [fst snd] in H.
    destruct (String.eqb k eid) eqn:Ek; [|contradiction]. apply String.eqb_eq in Ek. subst k.
    apply in_flat_map in H as [[t d] [Hq H]]. cbn [fst snd] in H.
    destruct (String.eqb t typ) eqn:Et; [|contradiction]. apply String.eqb_eq in Et. subst t.
    exists s, e, d. repeat split; try assumption. apply select_In; exact H.
  - intros [s [e [d [Hs [He [Hd Hep]]]]]]. exists s. split; [exact Hs|].
    apply in_flat_map. exists (eid, e). split; [exact He|]. cbn [fst snd]. rewrite String.eqb_refl.
    apply in_flat_map. exists (typ, d). split; [exact Hd|]. cbn [fst snd]. rewrite String.eqb_refl.
    apply select_In; exact Hep.
Qed.

Lemma registered_In m eid loc : In loc (registered_disco m eid) <-> registers_disco m eid loc.
Proof.
  unfold registered_disco, registers_disco. rewrite in_flat_map. split.
  - intros [s [Hs H]]. apply in_flat_map in H as [[k e] [Hp H]]. cbn [fst snd] in H.
    destruct (String.eqb k eid) eqn:Ek; [|contradiction]. apply String.eqb_eq in Ek. subst k.
    apply in_flat_map in H as [[t d] [Hq H]]. cbn [fst snd] in H.
    destruct (String.eqb t R_SP) eqn:Et; [|contradiction]. apply String.eqb_eq in Et. subst t.
    exists s, e, d. repeat split; try assumption. apply select_In; exact H.
  - intros [s [e [d [Hs [He [Hd Hep]]]]]]. exists s. split; [exact Hs|].
    apply in_flat_map. exists (eid, e). split; [exact He|]. cbn [fst snd]. rewrite String.eqb_refl.
    apply in_flat_map. exists (R_SP, d). split; [exact Hd|]. cbn [fst snd]. rewrite String.eqb_refl.
    apply select_In; exact Hep.
Qed.

Lemma answer_target_b_iff ep d : answer_target_b ep d = true <-> answer_target ep d.
Proof.
  unfold answer_target_b, answer_target. rewrite orb_true_iff, String.eqb_eq, opt_eqb_some_eq. tauto.
Qed.

Lemma chosen_by_b_iff r ep d : chosen_by_b r ep d = true <-> chosen_by r ep d.
Proof.
  unfold chosen_by_b, chosen_by.
  destruct (rq_class r); cbn [is_authn]; try apply answer_target_b_iff.
  destruct (truthy (rq_url r)) as [u|] eqn:Eu.
  - apply truthy_some in Eu. rewrite andb_true_iff, !String.eqb_eq. split.
    + intros [-> Hl]. split; [|split].
      * intros u' Hu'. destruct Eu as [E1 _]. destruct Hu' as [E2 _]. assert (Ex : u' = u) by congruence.
        subst u'. split; [reflexivity|exact Hl].
      * intros Ha. exfalso. exact (given_not_absent _ _ Eu Ha).
      * intros Ha. exfalso. exact (given_not_absent _ _ Eu Ha).
    + intros [H _]. exact (H u Eu).
  - apply truthy_none in Eu. destruct (truthy (rq_index r)) as [i|] eqn:Ei.
    + apply truthy_some in Ei. rewrite andb_true_iff, String.eqb_eq, opt_eqb_some_eq. split.
      * intros Hx. split; [|split].
        -- intros u' Hu'. exfalso. exact (given_not_absent _ _ Hu' Eu).
        -- intros _ i' Hi'. destruct Ei as [E1 _]. destruct Hi' as [E2 _]. assert (Ex : i' = i) by congruence.
           subst i'. exact Hx.
        -- intros _ Ha. exfalso. exact (given_not_absent _ _ Ei Ha).
      * intros [_ [H _]]. exact (H Eu i Ei).
    + apply truthy_none in Ei. rewrite answer_target_b_iff. split.
      * intros Hx. split; [|split].
        -- intros u' Hu'. exfalso. exact (given_not_absent _ _ Hu' Eu).
        -- intros _ i' Hi'. exfalso. exact (given_not_absent _ _ Hi' Ei).
        -- intros _ _. exact Hx.
      * intros [_ [_ H]]. exact (H Eu Ei).
Qed.

Lemma existsb_published m eid typ svc (f : endpoint -> bool) :
  existsb f (published m eid typ svc) = true <-> exists ep, publishes m eid typ svc ep /\ f ep = true.
Proof.
  rewrite existsb_exists. split; intros [ep [H1 H2]]; exists ep; (split; [apply published_In; exact H1|exact H2]).
Qed.

Lemma answer_spec_b_iff m etype req bindings descr out :
  answer_spec_b m etype req bindings descr out = true <-> answer_spec m etype req bindings descr out.
Proof.
  unfold answer_spec_b, answer_spec.
  destruct out as [b [d|]| | | | |e]; try (split; [discriminate|contradiction]); try tauto.
  rewrite orb_true_iff, !andb_true_iff, (list_eqb_eq String.eqb String.eqb_eq), String.eqb_eq, is_empty_true.
  split.
  - intros [[[H1 H2] H3]|H]; [left; tauto|right].
    destruct (answer_service etype descr (rq_class req)) as [[svc typ]|]; [|discriminate].
    apply existsb_published in H as [ep [Hp Hf]]. apply andb_true_iff in Hf as [Hb Hc].
    exists svc, typ, ep. split; [reflexivity|]. split; [exact Hp|]. split; [apply String.eqb_eq; exact Hb|].
    apply chosen_by_b_iff; exact Hc.
  - intros [[H1 [H2 H3]]|[svc [typ [ep [Hs [Hp [Hb Hc]]]]]]]; [left; tauto|right].
    rewrite Hs. apply existsb_published. exists ep. split; [exact Hp|]. apply andb_true_iff.
    split; [apply String.eqb_eq; exact Hb|apply chosen_by_b_iff; exact Hc].
Qed.

Lemma pick_target_b_iff svc ep d : pick_target_b svc ep d = true <-> pick_target svc ep d.
Proof.
  unfold pick_target_b, pick_target.
  rewrite orb_true_iff, andb_true_iff, negb_true_iff, String.eqb_eq, opt_eqb_some_eq. tauto.
Qed.

Lemma pick_spec_b_iff m svc typ eid out : pick_spec_b m svc typ eid out = true <-> pick_spec m svc typ eid out.
Proof.
  unfold pick_spec_b, pick_spec.
  destruct out as [b [d|]| | | | |e]; try (split; [discriminate|contradiction]); try tauto.
  rewrite existsb_published. split; intros [ep H]; exists ep.
  - destruct H as [Hp Hf]. apply andb_true_iff in Hf as [Hb Ht]. split; [exact Hp|].
    split; [apply String.eqb_eq; exact Hb|apply pick_target_b_iff; exact Ht].
  - destruct H as [Hp [Hb Ht]]. split; [exact Hp|]. apply andb_true_iff.
    split; [apply String.eqb_eq; exact Hb|apply pick_target_b_iff; exact Ht].
Qed.

Lemma entity_ids_In m e : In e (entity_ids m) <-> exists s x, In s m /\ In (e, x) s.
Proof.
  unfold entity_ids. rewrite in_flat_map. split.
  - intros [s [Hs H]]. apply in_map_iff in H as [[k x] [Hk Hin]]. cbn in Hk. subst k. exists s, x. split; assumption.
  - intros [s [x [Hs Hin]]]. exists s. split; [exact Hs|]. apply in_map_iff. exists (e, x). split; [reflexivity|exact Hin].
Qed.

Lemma sso_endpoint_b_iff m target b d : sso_endpoint_b m target b d = true <-> sso_endpoint m target b d.
Proof.
  unfold sso_endpoint_b, sso_endpoint.
  assert (Hok : forall e, existsb (fun ep => String.eqb (ep_binding ep) b && String.eqb (ep_location ep) d)
                            (published m e R_IDP S_SSO) = true
                   <-> exists ep, publishes m e R_IDP S_SSO ep /\ ep_binding ep = b /\ ep_location ep = d).
  { intros e. rewrite existsb_published. split; intros [ep [Hp H]]; exists ep; (split; [exact Hp|]).
    - apply andb_true_iff in H as [H1 H2]. split; apply String.eqb_eq; assumption.
    - apply andb_true_iff. destruct H as [H1 H2]. split; apply String.eqb_eq; assumption. }
  destruct (truthy target) as [t|] eqn:Et.
  - apply truthy_some in Et. rewrite Hok. split.
    + intros [ep H]. exists t, ep. split; [|exact H]. intros t' Ht'. destruct Et as [E1 _]. destruct Ht' as [E2 _]. congruence.
    + intros [e [ep [He H]]]. rewrite (He t Et) in H. exists ep. exact H.
  - apply truthy_none in Et. rewrite existsb_exists. split.
    + intros [e [_ H]]. apply Hok in H as [ep H]. exists e, ep. split; [|exact H].
      intros t Ht. exfalso. exact (given_not_absent _ _ Ht Et).
    + intros [e [ep [_ H]]]. exists e. split.
      * destruct H as [[s [x [dd [Hs [Hx _]]]]] _]. apply entity_ids_In. exists s, x. split; assumption.
      * apply Hok. exists ep. exact H.
Qed.

Lemma spec_b_iff m o out : spec_b m o out = true <-> spec m o out.
Proof.
  destruct o as [etype prefs req bindings descr|etype prefs svc bindings descr entity_id|eid b|eid binding|eid binding|pref expected eids|eid url];
    cbn [spec_b spec].
  - apply answer_spec_b_iff.
  - apply pick_spec_b_iff.
  - destruct out as [| |[d|]| | |]; try (split; [discriminate|contradiction]); try tauto. apply sso_endpoint_b_iff.
  - destruct out as [b [d|]| | | | |]; try (split; [discriminate|contradiction]); try tauto.
    rewrite andb_true_iff, sso_endpoint_b_iff.
    destruct (truthy binding) as [x|] eqn:Et.
    + apply truthy_some in Et. rewrite String.eqb_eq. split.
      * intros [H1 ->]. split; [exact H1|]. split.
        -- intros y Hy. destruct Et as [E1 _]. destruct Hy as [E2 _]. congruence.
        -- intros Ha. exfalso. exact (given_not_absent _ _ Et Ha).
      * intros [H1 [H2 _]]. split; [exact H1|exact (H2 x Et)].
    + apply truthy_none in Et. rewrite orb_true_iff, !String.eqb_eq. split.
      * intros [H1 H2]. split; [exact H1|]. split; [|intros _; exact H2].
        intros y Hy. exfalso. exact (given_not_absent _ _ Hy Et).
      * intros [H1 [_ H3]]. split; [exact H1|exact (H3 Et)].
  - destruct out as [b [d|]| | | | |]; try (split; [discriminate|contradiction]); try tauto.
    rewrite andb_true_iff, sso_endpoint_b_iff, String.eqb_eq. tauto.
  - destruct out as [| | |sent x| |]; try (split; [discriminate|contradiction]).
    rewrite forallb_forall. split.
    + intros H e b d Hin. specialize (H _ Hin). cbn in H. apply andb_true_iff in H as [H1 H2].
      split; [apply mem_In; exact H1|]. apply existsb_published in H2 as [ep [Hp Hf]].
      apply andb_true_iff in Hf as [Hb Hd]. exists ep. split; [exact Hp|]. split; apply String.eqb_eq; assumption.
    + intros H [[e b] d] Hin. destruct (H _ _ _ Hin) as [H1 [ep [Hp [Hb Hd]]]]. apply andb_true_iff.
      split; [apply mem_In; exact H1|]. apply existsb_published. exists ep. split; [exact Hp|].
      apply andb_true_iff. split; apply String.eqb_eq; assumption.
  - destruct out as [| | | |[|]|]; try (split; [discriminate|contradiction]); try tauto.
    rewrite existsb_exists. split; intros [loc [H1 H2]]; exists loc; (split; [apply registered_In; exact H1|exact H2]).
Qed.

(* ---------------------------------------------------------------- refusal: consequences of the spec,
   hence valid for ANY outcome that satisfies it (the model's and the implementation's alike) *)
Definition no_destination (out : outcome) : Prop :=
  match out with Dest _ _ => False | _ => True end.

Lemma spec_refuses_url m etype prefs req bindings descr out u :
  spec m (OpAnswer etype prefs req bindings descr) out ->
  rq_class req = MAuthn -> given (rq_url req) u -> bindings <> [B_SOAP] ->
  (forall ep, publishes m (requester req) R_SP S_ACS ep -> ep_location ep <> u) ->
  no_destination out.
Proof.
  cbn [spec]. unfold answer_spec. intros H Hc Hu Hb Hno.
  destruct out as [b [d|]| | | | |e]; cbn; try exact I; [|exact H].
  destruct H as [[H1 _]|[svc [typ [ep [Hs [Hp [_ Hch]]]]]]]; [contradiction|].
  rewrite Hc in Hs. cbn in Hs. inversion Hs. subst svc typ.
  unfold chosen_by in Hch. rewrite Hc in Hch. destruct Hch as [H1 _].
  destruct (H1 u Hu) as [_ Hl]. exact (Hno ep Hp Hl).
Qed.

Lemma spec_refuses_index m etype prefs req bindings descr out i :
  spec m (OpAnswer etype prefs req bindings descr) out ->
  rq_class req = MAuthn -> absent (rq_url req) -> given (rq_index req) i -> bindings <> [B_SOAP] ->
  (forall ep, publishes m (requester req) R_SP S_ACS ep -> ep_index ep <> Some i) ->
  no_destination out.
Proof.
  cbn [spec]. unfold answer_spec. intros H Hc Hu Hi Hb Hno.
  destruct out as [b [d|]| | | | |e]; cbn; try exact I; [|exact H].
  destruct H as [[H1 _]|[svc [typ [ep [Hs [Hp [_ Hch]]]]]]]; [contradiction|].
  rewrite Hc in Hs. cbn in Hs. inversion Hs. subst svc typ.
  unfold chosen_by in Hch. rewrite Hc in Hch. destruct Hch as [_ [H2 _]].
  destruct (H2 Hu i Hi) as [Hx _]. exact (Hno ep Hp Hx).
Qed.

(* on the model the refusal is an exception *)
Lemma authn_dest_or_fail m etype prefs req bindings descr :
  rq_class req = MAuthn ->
  match response_args m etype prefs req bindings descr with Dest _ _ | Fail _ => True | _ => False end.
Proof.
  intros Hc. unfold response_args. rewrite Hc. unfold answer_with.
  destruct (list_eqb String.eqb bindings [B_SOAP]); [exact I|]. cbn [is_empty S_ACS].
  pose proof (pick_binding_sound m etype prefs S_ACS bindings (pb_descr etype "spsso") (Some req) "") as H.
  destruct (pick_binding m etype prefs S_ACS bindings (pb_descr etype "spsso") (Some req) ""); try exact H; exact I.
Qed.

Lemma pick_refuses_url m etype prefs req bindings descr u :
  rq_class req = MAuthn -> given (rq_url req) u -> bindings <> [B_SOAP] ->
  (forall ep, publishes m (requester req) R_SP S_ACS ep -> ep_location ep <> u) ->
  exists e, response_args m etype prefs req bindings descr = Fail e.
Proof.
  intros Hc Hu Hb Hno.
  pose proof (spec_refuses_url m etype prefs req bindings descr _ u
                (destinations_from_metadata m (OpAnswer etype prefs req bindings descr)) Hc Hu Hb Hno) as H.
  pose proof (authn_dest_or_fail m etype prefs req bindings descr Hc) as H2. cbn [run_op] in H.
  destruct (response_args m etype prefs req bindings descr) as [| | | | |e]; try contradiction. exists e; reflexivity.
Qed.

Lemma pick_refuses_index m etype prefs req bindings descr i :
  rq_class req = MAuthn -> absent (rq_url req) -> given (rq_index req) i -> bindings <> [B_SOAP] ->
  (forall ep, publishes m (requester req) R_SP S_ACS ep -> ep_index ep <> Some i) ->
  exists e, response_args m etype prefs req bindings descr = Fail e.
Proof.
  intros Hc Hu Hi Hb Hno.
  pose proof (spec_refuses_index m etype prefs req bindings descr _ i
                (destinations_from_metadata m (OpAnswer etype prefs req bindings descr)) Hc Hu Hi Hb Hno) as H.
  pose proof (authn_dest_or_fail m etype prefs req bindings descr Hc) as H2. cbn [run_op] in H.
  destruct (response_args m etype prefs req bindings descr) as [| | | | |e]; try contradiction. exists e; reflexivity.
Qed.

(* a requester that is in no metadata source gets no destination *)
Lemma spec_refuses_unknown m etype prefs req bindings descr out :
  spec m (OpAnswer etype prefs req bindings descr) out -> bindings <> [B_SOAP] ->
  (forall s e, In s m -> ~ In (requester req, e) s) -> no_destination out.
Proof.
  cbn [spec]. unfold answer_spec. intros H Hb Hno.
  destruct out as [b [d|]| | | | |e]; cbn; try exact I; [|exact H].
  destruct H as [[H1 _]|[svc [typ [ep [_ [[s [e [dd [Hs [He _]]]]] _]]]]]]; [contradiction|].
  exact (Hno s e Hs He).
Qed.

(* ---------------------------------------------------------------- the first source decides
   (any number of sources): every operation aimed at one entity gives, on the whole store, exactly
   what it gives on the store reduced to the first source that has that entity *)
Lemma pick_loop_first m s eid typ svc url index bs :
  first_with eid m = Some s ->
  pick_loop m eid typ svc url index bs = pick_loop [s] eid typ svc url index bs.
Proof.
  intros Hf. induction bs as [|b r IH]; cbn [pick_loop]; [reflexivity|].
  rewrite (store_service_first m eid typ svc (Some b) s Hf), IH. reflexivity.
Qed.

Lemma pick_binding_first m s etype prefs svc bindings descr req entity_id :
  first_with (pb_eid req entity_id) m = Some s ->
  pick_binding m etype prefs svc bindings descr req entity_id
  = pick_binding [s] etype prefs svc bindings descr req entity_id.
Proof.
  intros Hf. unfold pick_binding. destruct (effective_bindings prefs svc bindings req); [|reflexivity].
  apply pick_loop_first; exact Hf.
Qed.

Lemma pb_eid_requester req : pb_eid (Some req) "" = requester req.
Proof. reflexivity. Qed.

Lemma response_args_first m s etype prefs req bindings descr :
  first_with (requester req) m = Some s ->
  response_args m etype prefs req bindings descr = response_args [s] etype prefs req bindings descr.
Proof.
  intros Hf. rewrite <- pb_eid_requester in Hf. unfold response_args. cbv zeta. unfold answer_with.
  destruct (list_eqb String.eqb bindings [B_SOAP]); [destruct (rq_class req); reflexivity|].
  destruct (rq_class req); try reflexivity;
    match goal with |- context [is_empty ?x] => destruct (is_empty x); [reflexivity|] end;
    apply pick_binding_first; exact Hf.
Qed.

Lemma sso_of_first m s e b : first_with e m = Some s -> sso_of m e b = sso_of [s] e b.
Proof. intros Hf. unfold sso_of. rewrite (store_service_first m e R_IDP S_SSO (Some b) s Hf). reflexivity. Qed.

Lemma sso_location_first m s eid e b :
  truthy eid = Some e -> first_with e m = Some s -> sso_location m eid b = sso_location [s] eid b.
Proof. intros Ht Hf. unfold sso_location. rewrite Ht. apply sso_of_first; exact Hf. Qed.

Lemma first_sso_first m s eid e bs :
  truthy eid = Some e -> first_with e m = Some s -> first_sso m eid bs = first_sso [s] eid bs.
Proof.
  intros Ht Hf. induction bs as [|b r IH]; cbn [first_sso]; [reflexivity|].
  rewrite (sso_location_first m s eid e b Ht Hf), IH. reflexivity.
Qed.

Lemma negotiated_first m s eid e binding :
  truthy eid = Some e -> first_with e m = Some s -> negotiated m eid binding = negotiated [s] eid binding.
Proof. intros Ht Hf. unfold negotiated. rewrite (first_sso_first m s eid e _ Ht Hf). reflexivity. Qed.

Lemma slo_one_first m s pref expected e :
  first_with e m = Some s -> slo_one m pref expected e = slo_one [s] pref expected e.
Proof. intros Hf. unfold slo_one. rewrite (store_service_first m e R_IDP S_SLO None s Hf). reflexivity. Qed.

(* the entity an operation is aimed at, when it names one *)
Definition op_target (o : op) : option string :=
  match o with
  | OpAnswer _ _ req _ _ => Some (requester req)
  | OpPick _ _ _ _ _ entity_id => Some entity_id
  | OpSso eid _ | OpNegotiate eid _ | OpAuthenticate eid _ => truthy eid
  | OpLogout _ _ _ | OpDisco _ _ => None
  end.

Lemma first_source_decides m s o e :
  op_target o = Some e -> first_with e m = Some s -> run_op m o = run_op [s] o.
Proof.
  destruct o as [etype prefs req bindings descr|etype prefs svc bindings descr entity_id|eid b|eid b|eid b|pref expected eids|eid url];
    cbn [op_target run_op]; intros Ht Hf; try discriminate.
  - inversion Ht. subst e. apply response_args_first; exact Hf.
  - inversion Ht. subst e. apply pick_binding_first; exact Hf.
  - exact (sso_location_first m s eid e b Ht Hf).
  - exact (negotiated_first m s eid e b Ht Hf).
  - unfold authenticate. rewrite (negotiated_first m s eid e (Some b) Ht Hf). reflexivity.
Qed.

(* hence soundness against the first source: whatever is selected is published by THAT source
   (the spec evaluated on the one-source store [s]), not merely by some source *)
Lemma first_source_sound m s o e :
  op_target o = Some e -> first_with e m = Some s -> spec [s] o (run_op m o).
Proof. intros Ht Hf. rewrite (first_source_decides m s o e Ht Hf). apply destinations_from_metadata. Qed.

Lemma unknown_entity_refused m etype prefs req bindings descr :
  first_with (requester req) m = None ->
  no_destination (response_args m etype prefs req bindings descr) \/ bindings = [B_SOAP].
Proof.
  intros Hf.
  destruct (list_eqb String.eqb bindings [B_SOAP]) eqn:Eb.
  { right. apply (list_eqb_eq String.eqb String.eqb_eq); exact Eb. }
  left. apply (spec_refuses_unknown m etype prefs req bindings descr).
  - apply (destinations_from_metadata m (OpAnswer etype prefs req bindings descr)).
  - intros E. rewrite E in Eb. cbn in Eb. discriminate.
  - intros s e Hs He. pose proof (proj1 (first_with_none _ _) Hf s Hs) as Hn.
    assert (Ht : has_entity (requester req) s = true) by (apply has_entity_iff; exists e; exact He).
    rewrite Hn in Ht. discriminate.
Qed.

(* logout: each request of the trace is decided by the first source that has its IdP *)
Lemma slo_sent_first_source m pref expected eids e b d :
  In (e, b, d) (fst (slo_all m pref expected eids)) ->
  exists s, first_with e m = Some s /\ slo_one [s] pref expected e = Send b d.
Proof.
  induction eids as [|x r IH]; cbn [slo_all]; [cbn; contradiction|].
  destruct (slo_one m pref expected x) as [b0 d0| |err] eqn:E1.
  - destruct (slo_all m pref expected r) as [t er] eqn:Er. cbn [fst] in IH |- *. intros [H|H]; [|exact (IH H)].
    inversion H. subst x b0 d0.
    destruct (first_with e m) as [s|] eqn:Ef.
    + exists s. split; [reflexivity|]. rewrite <- (slo_one_first m s pref expected e Ef). exact E1.
    + exfalso. unfold slo_one in E1. rewrite (store_service_unknown m e R_IDP S_SLO None Ef) in E1. discriminate.
  - exact IH.
  - cbn. contradiction.
Qed.

(* the sole IdP that _sso_location falls back to is an entity whose FIRST source describes it as IdP *)
Lemma dedup_In x l : In x (dedup l) -> In x l.
Proof.
  induction l as [|y r IH]; cbn [dedup]; [intros []|].
  intros [H|H]; [left; exact H|]. apply filter_In in H as [H _]. right. exact (IH H).
Qed.

Lemma mem_false_not_In x l : mem x l = false -> ~ In x l.
Proof. intros H Hin. apply mem_In in Hin. rewrite Hin in H. discriminate. Qed.

Lemma with_idp_from_In seen m e :
  In e (with_idp_from seen m) ->
  mem e seen = false /\ exists s ent, first_with e m = Some s /\ In (e, ent) s /\ entity_has R_IDP ent = true.
Proof.
  revert seen. induction m as [|s r IH]; intros seen; cbn [with_idp_from]; [intros []|].
  intros H. apply in_app_or in H as [H|H].
  - apply in_map_iff in H as [[k ent] [Hk Hin]]. cbn in Hk. subst k. apply filter_In in Hin as [Hin Hc].
    cbn [fst snd] in Hc. apply andb_true_iff in Hc as [Hidp Hseen]. apply negb_true_iff in Hseen.
    split; [exact Hseen|]. exists s, ent. split; [|split; assumption].
    cbn [first_with]. assert (Hh : has_entity e s = true) by (apply has_entity_iff; exists ent; exact Hin).
    rewrite Hh. reflexivity.
  - destruct (IH _ H) as [Hseen [s' [ent [Hf Hx]]]].
    assert (Hn1 : ~ In e (map fst s ++ seen)%list) by (apply mem_false_not_In; exact Hseen).
    split.
    + destruct (mem e seen) eqn:Em; [|reflexivity]. exfalso. apply Hn1. apply in_or_app. right. apply mem_In; exact Em.
    + exists s', ent. split; [|exact Hx]. cbn [first_with].
      destruct (has_entity e s) eqn:Eh; [|exact Hf]. exfalso. apply has_entity_iff in Eh as [x Hin].
      apply Hn1. apply in_or_app. left. apply in_map_iff. exists (e, x). split; [reflexivity|exact Hin].
Qed.

Lemma sole_idp_first_source m b d :
  sso_location m None b = Loc (Some d) ->
  exists e s ent, with_idp m = [e] /\ first_with e m = Some s /\ In (e, ent) s
                  /\ entity_has R_IDP ent = true /\ sso_of [s] e b = Loc (Some d).
Proof.
  unfold sso_location. cbn [truthy]. destruct (with_idp m) as [|e [|e' r]] eqn:Ew; try discriminate.
  intros H. assert (Hin : In e (with_idp_from [] m)).
  { apply dedup_In. unfold with_idp in Ew. rewrite Ew. left; reflexivity. }
  apply with_idp_from_In in Hin as [_ [s [ent [Hf [Hi Hr]]]]].
  exists e, s, ent. split; [reflexivity|]. split; [exact Hf|]. split; [exact Hi|]. split; [exact Hr|].
  rewrite <- (sso_of_first m s e b Hf). exact H.
Qed.

(* ---------------------------------------------------------------- completeness (any number of sources) *)
Lemma answer_complete_single s eid ds ep b u etype prefs req descr :
  descriptors s eid R_SP = Some ds ->
  In ep (flat_map (fun d => select S_ACS (d_eps d)) ds) ->
  ep_binding ep = b -> ep_location ep = u -> u <> "" ->
  rq_class req = MAuthn -> requester req = eid -> rq_url req = Some u -> b <> B_SOAP ->
  response_args [s] etype prefs req [b] descr = Dest b (Some u).
Proof.
  intros Hd Hin Hb Hl Hu Hc Hr Hurl Hsoap.
  unfold response_args. rewrite Hc. unfold answer_with.
  assert (Es : list_eqb String.eqb [b] [B_SOAP] = false).
  { cbn. apply String.eqb_neq in Hsoap. rewrite Hsoap. reflexivity. }
  rewrite Es. cbn [is_empty S_ACS]. unfold pick_binding. cbn [effective_bindings].
  unfold pb_eid, pb_ui. cbn [is_empty]. rewrite Hc. cbn [is_authn andb].
  change (String.eqb S_ACS S_ACS) with true. cbn [fst snd].
  assert (Et : truthy (rq_url req) = Some u) by (apply truthy_some; split; assumption).
  rewrite Et. fold (requester req). rewrite Hr.
  change (typ_of S_ACS (pb_descr etype (pb_descr etype "spsso"))) with R_SP.
  cbn [pick_loop].
  assert (Hf : In ep (filter (has_binding b) (flat_map (fun d => select S_ACS (d_eps d)) ds))).
  { apply filter_In. split; [exact Hin|]. unfold has_binding. apply String.eqb_eq; exact Hb. }
  destruct (filter (has_binding b) (flat_map (fun d => select S_ACS (d_eps d)) ds)) as [|x r] eqn:Ef; [contradiction|].
  assert (Hs : store_service [s] eid R_SP S_ACS (Some b) = Found (x :: r)).
  { apply store_service_found. split; [discriminate|].
    exists s, (flat_map (fun d => select S_ACS (d_eps d)) ds).
    split; [apply first_with_single; exact (descriptors_has_entity _ _ _ _ Hd)|].
    split; [unfold src_service; rewrite Hd; reflexivity|]. symmetry; exact Ef. }
  rewrite Hs.
  assert (Hscan : scan_url (x :: r) u = true).
  { unfold scan_url. apply existsb_exists. exists ep. split; [exact Hf|]. apply String.eqb_eq; exact Hl. }
  rewrite Hscan. reflexivity.
Qed.

(* a URL registered, for the binding, in the first source that has the requester is accepted,
   whatever later sources say about the same entityID *)
Lemma answer_complete m s eid ds ep b u etype prefs req descr :
  first_with eid m = Some s ->
  descriptors s eid R_SP = Some ds ->
  In ep (flat_map (fun d => select S_ACS (d_eps d)) ds) ->
  ep_binding ep = b -> ep_location ep = u -> u <> "" ->
  rq_class req = MAuthn -> requester req = eid -> rq_url req = Some u -> b <> B_SOAP ->
  response_args m etype prefs req [b] descr = Dest b (Some u).
Proof.
  intros Hf Hd Hin Hb Hl Hu Hc Hr Hurl Hsoap. subst eid.
  rewrite (response_args_first m s etype prefs req [b] descr Hf).
  exact (answer_complete_single s (requester req) ds ep b u etype prefs req descr Hd Hin Hb Hl Hu Hc eq_refl Hurl Hsoap).
Qed.

(* a sign-on endpoint listed, for the binding, in the first source that has the IdP is found *)
Lemma sso_complete m s e ds ep b :
  first_with e m = Some s ->
  descriptors s e R_IDP = Some ds ->
  In ep (flat_map (fun d => select S_SSO (d_eps d)) ds) -> ep_binding ep = b ->
  exists ep', In ep' (flat_map (fun d => select S_SSO (d_eps d)) ds) /\ ep_binding ep' = b
              /\ sso_of m e b = Loc (Some (ep_location ep')).
Proof.
  intros Hf Hd Hin Hb.
  assert (Hk : In ep (filter (has_binding b) (flat_map (fun d => select S_SSO (d_eps d)) ds))).
  { apply filter_In. split; [exact Hin|]. unfold has_binding. apply String.eqb_eq; exact Hb. }
  destruct (filter (has_binding b) (flat_map (fun d => select S_SSO (d_eps d)) ds)) as [|x r] eqn:Ef; [contradiction|].
  assert (Hx : In x (filter (has_binding b) (flat_map (fun d => select S_SSO (d_eps d)) ds))) by (rewrite Ef; left; reflexivity).
  apply filter_In in Hx as [Hx1 Hx2]. exists x. split; [exact Hx1|]. split; [apply String.eqb_eq; exact Hx2|].
  assert (Hs : store_service m e R_IDP S_SSO (Some b) = Found (x :: r)).
  { apply store_service_found. split; [discriminate|].
    exists s, (flat_map (fun d => select S_SSO (d_eps d)) ds). split; [exact Hf|].
    split; [unfold src_service; rewrite Hd; reflexivity|]. symmetry; exact Ef. }
  unfold sso_of. rewrite Hs. reflexivity.
Qed.

(* the discovery-response lookup (MetadataStore.ext_service) was NOT changed: it still takes the
   first source with a non-empty answer, so its completeness is stated for one source *)
Lemma disco_complete_single s eid ds loc url :
  descriptors s eid R_SP = Some ds ->
  In loc (flat_map (fun d => select B_DISCO (d_disco d)) ds) ->
  String.prefix loc url = true ->
  verify_return [s] eid url = Approved true.
Proof.
  intros Hd Hin Hp. unfold verify_return, store_disco. cbn [store_first]. unfold src_disco. rewrite Hd.
  set (l := flat_map (fun d => select B_DISCO (d_disco d)) ds) in *.
  assert (Hf : filter (fun _ : string => true) l = l).
  { clear. induction l as [|x r IH]; cbn; [reflexivity|rewrite IH; reflexivity]. }
  rewrite Hf. destruct l as [|x r] eqn:El; [contradiction|].
  assert (He : existsb (fun loc0 => startswith url loc0) (x :: r) = true).
  { apply existsb_exists. exists loc. split; [exact Hin|exact Hp]. }
  rewrite He. reflexivity.
Qed.

(* with more sources: the earlier sources must have nothing to say about the requester's
   discovery responses (ext_service skips them) *)
Lemma store_first_skip {A} (get : source -> option (list A)) keep pre rest known :
  (forall s', In s' pre -> get s' = None \/ exists l0, get s' = Some l0 /\ filter keep l0 = []) ->
  exists known', store_first get keep (pre ++ rest)%list known = store_first get keep rest known'.
Proof.
  revert known. induction pre as [|x r IH]; intros known Hpre; cbn [app store_first].
  - exists known. reflexivity.
  - destruct (Hpre x (or_introl eq_refl)) as [->|[l0 [-> ->]]]; apply IH; intros s' Hin; apply Hpre; right; exact Hin.
Qed.

Lemma disco_complete m pre s post eid ds loc url :
  m = (pre ++ s :: post)%list ->
  (forall s', In s' pre -> src_disco B_DISCO eid s' = None \/ src_disco B_DISCO eid s' = Some []) ->
  descriptors s eid R_SP = Some ds ->
  In loc (flat_map (fun d => select B_DISCO (d_disco d)) ds) ->
  String.prefix loc url = true ->
  verify_return m eid url = Approved true.
Proof.
  intros -> Hpre Hd Hin Hp. unfold verify_return, store_disco.
  destruct (store_first_skip (src_disco B_DISCO eid) (fun _ => true) pre (s :: post) false) as [k ->].
  { intros s' Hs'. destruct (Hpre s' Hs') as [H|H]; [left; exact H|right]. exists []. split; [exact H|reflexivity]. }
  cbn [store_first]. unfold src_disco. rewrite Hd.
  set (l := flat_map (fun d => select B_DISCO (d_disco d)) ds) in *.
  assert (Hf : filter (fun _ : string => true) l = l).
  { clear. induction l as [|x r IH]; cbn; [reflexivity|rewrite IH; reflexivity]. }
  rewrite Hf. destruct l as [|x r] eqn:El; [contradiction|].
  assert (He : existsb (fun loc0 => startswith url loc0) (x :: r) = true).
  { apply existsb_exists. exists loc. split; [exact Hin|exact Hp]. }
  rewrite He. reflexivity.
Qed.

(* approval is exactly "some effective registered location is a prefix" *)
Lemma disco_exact m eid url l :
  store_disco m eid = Found l ->
  (verify_return m eid url = Approved true <-> exists loc, In loc l /\ String.prefix loc url = true).
Proof.
  intros H. unfold verify_return. rewrite H. split.
  - intros Ha. assert (He : existsb (fun loc => startswith url loc) l = true) by (inversion Ha; reflexivity).
    apply existsb_exists in He. exact He.
  - intros He. assert (Hx : existsb (fun loc => startswith url loc) l = true) by (apply existsb_exists; exact He).
    rewrite Hx. reflexivity.
Qed.

(* "starts with", spelled out: the prefix test is literal string extension, character for character
   (no trimming of a trailing '/', no case folding, no URL normalisation on either side) *)
Lemma prefix_app p : forall s, String.prefix p s = true <-> exists r, s = (p ++ r)%string.
Proof.
  induction p as [|a p IH]; intros s.
  - destruct s; cbn; (split; [intros _; eexists; reflexivity | reflexivity]).
  - destruct s as [|b s]; cbn [String.prefix String.append].
    + split; [discriminate | intros [r H]; discriminate].
    + destruct (Ascii.ascii_dec a b) as [->|N].
      * rewrite IH. split; intros [r H]; exists r; [rewrite H; reflexivity | injection H; auto].
      * split; [discriminate | intros [r H]; injection H; intros; congruence].
Qed.

(* an approved return URL IS a registered discovery-response location followed by some rest *)
Lemma disco_approved_extends m eid url :
  verify_return m eid url = Approved true ->
  exists loc rest, registers_disco m eid loc /\ url = (loc ++ rest)%string.
Proof.
  intros H. pose proof (disco_sound m eid url) as S. cbn [spec] in S. rewrite H in S.
  destruct S as [loc [Hr Hp]]. apply prefix_app in Hp as [rest ->]. exists loc, rest. split; [exact Hr|reflexivity].
Qed.

(* ... so a URL that is no such extension (a look-alike of a registered location: its slash-less,
   case-changed, re-encoded, otherwise normalised form continued by anything) is never approved *)
Lemma disco_lookalike_refused m eid url :
  (forall loc rest, registers_disco m eid loc -> url <> (loc ++ rest)%string) ->
  verify_return m eid url <> Approved true.
Proof.
  intros Hn H. destruct (disco_approved_extends _ _ _ H) as [loc [rest [Hr He]]]. exact (Hn loc rest Hr He).
Qed.

(* the spec alone says the same of any observed verdict *)
Lemma spec_disco_extends m eid url :
  spec m (OpDisco eid url) (Approved true) ->
  exists loc rest, registers_disco m eid loc /\ url = (loc ++ rest)%string.
Proof.
  cbn [spec]. intros [loc [Hr Hp]]. apply prefix_app in Hp as [rest ->]. exists loc, rest. split; [exact Hr|reflexivity].
Qed.

(* ---------------------------------------------------------------- non-vacuity *)
Definition ex_sp : string * entity :=
  ("https://sp.example.org/sp.xml",
   [(R_SP, Desc [(S_SLO, EPt B_REDIRECT "https://sp.example.org/slo" None (Some "https://sp.example.org/slo/resp"));
                 (S_ACS, EPt B_POST "https://sp.example.org/acs/post" (Some "1") None);
                 (S_ACS, EPt B_REDIRECT "https://sp.example.org/acs/redirect" (Some "2") None)]
               [(B_DISCO, "https://sp.example.org/disco")])]).
Definition ex_idp : string * entity :=
  ("https://idp.example.org/idp.xml",
   [(R_IDP, Desc [(S_SLO, EPt B_SOAP "https://idp.example.org/slo/soap" None None);
                  (S_SLO, EPt B_REDIRECT "https://idp.example.org/slo/redirect" None None);
                  (S_SSO, EPt B_REDIRECT "https://idp.example.org/sso/redirect" None None)] [])]).
Definition ex_md : md := [[ex_sp]; [ex_idp]].
Definition ex_prefs : list (string * list string) :=
  [(S_ACS, [B_POST; B_REDIRECT; B_ARTIFACT]); (S_SLO, [B_SOAP; B_REDIRECT; B_POST; B_ARTIFACT])].
Definition ex_req url idx pb := Req MAuthn " https://sp.example.org/sp.xml " url idx pb.

Example ex_by_url :
  response_args ex_md "idp" ex_prefs (ex_req (Some "https://sp.example.org/acs/redirect") None None) [] ""
  = Dest B_REDIRECT (Some "https://sp.example.org/acs/redirect").
Proof. vm_compute. reflexivity. Qed.

Example ex_by_index :
  response_args ex_md "idp" ex_prefs (ex_req None (Some "2") None) [] ""
  = Dest B_REDIRECT (Some "https://sp.example.org/acs/redirect").
Proof. vm_compute. reflexivity. Qed.

Example ex_default :
  response_args ex_md "idp" ex_prefs (ex_req None None None) [] "" = Dest B_POST (Some "https://sp.example.org/acs/post").
Proof. vm_compute. reflexivity. Qed.

Example ex_url_wrong_binding_refused :
  response_args ex_md "idp" ex_prefs (ex_req (Some "https://sp.example.org/acs/redirect") None (Some B_POST)) [] ""
  = Fail ESaml.
Proof. vm_compute. reflexivity. Qed.

Example ex_lookalike_refused :
  response_args ex_md "idp" ex_prefs (ex_req (Some "https://sp.example.org/acs/post.evil.com") None None) [] ""
  = Fail ESaml.
Proof. vm_compute. reflexivity. Qed.

Example ex_logout_answer :
  response_args ex_md "idp" ex_prefs (Req MLogout "https://sp.example.org/sp.xml" None None None) [B_REDIRECT] ""
  = Dest B_REDIRECT (Some "https://sp.example.org/slo/resp").
Proof. vm_compute. reflexivity. Qed.

Example ex_sso : sso_location ex_md None B_REDIRECT = Loc (Some "https://idp.example.org/sso/redirect").
Proof. vm_compute. reflexivity. Qed.

Example ex_slo :
  do_logout ex_md [B_SOAP; B_REDIRECT] None ["https://idp.example.org/idp.xml"]
  = Trace [("https://idp.example.org/idp.xml", B_SOAP, "https://idp.example.org/slo/soap")] None.
Proof. vm_compute. reflexivity. Qed.

Example ex_disco_yes : verify_return ex_md "https://sp.example.org/sp.xml" "https://sp.example.org/disco?x=1" = Approved true.
Proof. vm_compute. reflexivity. Qed.
Example ex_disco_no : verify_return ex_md "https://sp.example.org/sp.xml" "https://evil.example.com/disco" = Approved false.
Proof. vm_compute. reflexivity. Qed.
(* "starts with" is literal: a registered location is also a prefix of look-alike continuations.
   This is what the property text asks for; see notes/C08.md (hardening remark, not a finding). *)
Example ex_disco_prefix_is_literal :
  verify_return ex_md "https://sp.example.org/sp.xml" "https://sp.example.org/disco.evil.com/" = Approved true.
Proof. vm_compute. reflexivity. Qed.

(* the trailing slash of a registered location is significant: a site root / directory-style
   registration approves neither its slash-less form nor what continues that form *)
Definition ex_md_slash : md :=
  [[("https://sp.example.org/sp.xml",
     [(R_SP, Desc [(S_ACS, EPt B_POST "https://sp.example.org/acs/post" (Some "1") None)]
                  [(B_DISCO, "https://sp.example.org/"); (B_DISCO, "https://sp.example.org/Shibboleth.sso/")])])]].
Example ex_disco_slash_significant :
  map (fun u => verify_return ex_md_slash "https://sp.example.org/sp.xml" u)
      ["https://sp.example.org/x?y"; "https://sp.example.org/Shibboleth.sso/Login";
       "https://sp.example.org"; "https://sp.example.org.evil.example/"; "https://sp.example.org@evil.example/";
       "https://sp.example.org:8443/"; "HTTPS://SP.EXAMPLE.ORG/"; "https://sp.example.org%2F"]
  = [Approved true; Approved true; Approved false; Approved false; Approved false; Approved false; Approved false;
     Approved false].
Proof. vm_compute. reflexivity. Qed.

(* first source wins (d8b1d2a4): the same entityID in two sources; the Artifact consumer service
   only the SECOND source lists is not served any more, the first source's POST endpoint is *)
Definition ex_sp_later : string * entity :=
  ("https://sp.example.org/sp.xml",
   [(R_SP, Desc [(S_ACS, EPt B_ARTIFACT "https://sp.example.org/v2/acs/artifact" (Some "1") None)]
               [(B_DISCO, "https://sp.example.org/v2/disco")])]).
Definition ex_md2 : md := [[ex_idp]; [ex_sp]; [ex_sp_later]].

Example ex_first_with : first_with "https://sp.example.org/sp.xml" ex_md2 = Some [ex_sp].
Proof. vm_compute. reflexivity. Qed.

Example ex_later_source_not_served :
  response_args ex_md2 "idp" ex_prefs (ex_req (Some "https://sp.example.org/v2/acs/artifact") None None) [B_ARTIFACT] ""
  = Fail ESaml
  /\ store_service ex_md2 "https://sp.example.org/sp.xml" R_SP S_ACS (Some B_ARTIFACT) = Unsupported
  /\ store_service_v0 ex_md2 "https://sp.example.org/sp.xml" R_SP S_ACS (Some B_ARTIFACT)
     = Found [EPt B_ARTIFACT "https://sp.example.org/v2/acs/artifact" (Some "1") None].
Proof. vm_compute. repeat split. Qed.

Example ex_first_source_served :
  response_args ex_md2 "idp" ex_prefs (ex_req (Some "https://sp.example.org/acs/post") None None) [B_POST] ""
  = Dest B_POST (Some "https://sp.example.org/acs/post").
Proof.
  eapply (answer_complete ex_md2 [ex_sp] "https://sp.example.org/sp.xml" _
            (EPt B_POST "https://sp.example.org/acs/post" (Some "1") None)); try reflexivity.
  - vm_compute. left. reflexivity.
  - discriminate.
  - discriminate.
Qed.

(* an entity the first source knows only as SP is not an IdP for the store, even if a later
   source describes it as one (18964551) *)
Example ex_with_idp_first_source :
  with_idp [[("https://x.example.org", [(R_SP, Desc [] [])])];
            [("https://x.example.org", [(R_IDP, Desc [] [])]); ex_idp]]
  = ["https://idp.example.org/idp.xml"].
Proof. vm_compute. reflexivity. Qed.

(* ext_service still falls through: the discovery response of the later source is approved *)
Example ex_disco_still_falls_through :
  verify_return [[("https://sp.example.org/sp.xml", [(R_SP, Desc [] [])])]; [ex_sp_later]]
                "https://sp.example.org/sp.xml" "https://sp.example.org/v2/disco?x" = Approved true.
Proof. vm_compute. reflexivity. Qed.

(* the pinned snapshot's verify_return violated the property: a return URL that extends no
   registered location was approved *)
Lemma disco_v0_refuted : exists m eid url, ~ spec m (OpDisco eid url) (verify_return_v0 m eid url).
Proof.
  exists ex_md, "https://sp.example.org/sp.xml", "https://evil.example.com/steal".
  intros H. apply spec_b_iff in H. vm_compute in H. discriminate.
Qed.

(* the hypotheses of the refusal and completeness lemmas are satisfiable *)
Example ex_refusal_hyps :
  forall ep, publishes ex_md (requester (ex_req (Some "https://evil.example.com/acs") None None)) R_SP S_ACS ep ->
             ep_location ep <> "https://evil.example.com/acs".
Proof.
  intros ep Hp. apply published_In in Hp. vm_compute in Hp.
  destruct Hp as [<-|[<-|[]]]; discriminate.
Qed.

Example ex_complete_hyps :
  response_args [[ex_sp]] "idp" ex_prefs (ex_req (Some "https://sp.example.org/acs/post") None None) [B_POST] ""
  = Dest B_POST (Some "https://sp.example.org/acs/post").
Proof.
  eapply (answer_complete_single [ex_sp] "https://sp.example.org/sp.xml" _
            (EPt B_POST "https://sp.example.org/acs/post" (Some "1") None)); try reflexivity.
  - vm_compute. left. reflexivity.
  - discriminate.
  - discriminate.
Qed.
