(* C08/Property.v — property theorems only. *)
From Coq Require Import String List Bool.
From Verif Require Import Base.Str Base.Py Base.Py2 C08.Model C08.Spec C08.Proofs C08.SeqProofs C08.Source C08.Source2.
From VerifGen Require Import C08Src C08Src2.
Import ListNotations.
Open Scope list_scope.

(* C08: for every loaded metadata (any number of sources, entities, descriptors, endpoints), every
   operation of the property (IdP answering a request, pick_binding for an entity, SP choosing the
   sign-on endpoint / preparing an authentication request, SP logging out of any list of IdPs,
   discovery service checking a return URL) and all their arguments, whatever is selected as
   (binding, destination) is published in the metadata of the party concerned, chosen by the
   request's URL / index when given; approved return URLs extend a registered location. *)
Theorem c08_destinations_from_metadata : forall m o, spec m o (run_op m o).
Proof. exact destinations_from_metadata. Qed.
Print Assumptions c08_destinations_from_metadata.

(* the boolean spec that Coq evaluates on the implementation's recorded output is the stated spec *)
Theorem c08_spec_reflect : forall m o out, spec_b m o out = true <-> spec m o out.
Proof. exact spec_b_iff. Qed.
Print Assumptions c08_spec_reflect.

(* pick_sound: the (binding, destination) response_args selects is a published pair of the
   requester, equal to the request's URL / registered under the request's index when given *)
Theorem c08_pick_sound : forall m etype prefs req bindings descr,
  answer_spec m etype req bindings descr (response_args m etype prefs req bindings descr).
Proof. exact answer_sound. Qed.
Print Assumptions c08_pick_sound.

(* pick_refuses: an unregistered URL (resp. index) is refused with an exception, never a destination *)
Theorem c08_pick_refuses_url : forall m etype prefs req bindings descr u,
  rq_class req = MAuthn -> given (rq_url req) u -> bindings <> [B_SOAP] ->
  (forall ep, publishes m (requester req) R_SP S_ACS ep -> ep_location ep <> u) ->
  exists e, response_args m etype prefs req bindings descr = Fail e.
Proof. exact pick_refuses_url. Qed.
Print Assumptions c08_pick_refuses_url.

Theorem c08_pick_refuses_index : forall m etype prefs req bindings descr i,
  rq_class req = MAuthn -> absent (rq_url req) -> given (rq_index req) i -> bindings <> [B_SOAP] ->
  (forall ep, publishes m (requester req) R_SP S_ACS ep -> ep_index ep <> Some i) ->
  exists e, response_args m etype prefs req bindings descr = Fail e.
Proof. exact pick_refuses_index. Qed.
Print Assumptions c08_pick_refuses_index.

(* the same refusals follow from the spec alone, i.e. for every outcome on which spec_b evaluates
   to true — in particular for the outcomes recorded on the real implementation *)
Theorem c08_spec_refuses_url : forall m etype prefs req bindings descr out u,
  spec m (OpAnswer etype prefs req bindings descr) out ->
  rq_class req = MAuthn -> given (rq_url req) u -> bindings <> [B_SOAP] ->
  (forall ep, publishes m (requester req) R_SP S_ACS ep -> ep_location ep <> u) ->
  no_destination out.
Proof. exact spec_refuses_url. Qed.
Print Assumptions c08_spec_refuses_url.

Theorem c08_spec_refuses_index : forall m etype prefs req bindings descr out i,
  spec m (OpAnswer etype prefs req bindings descr) out ->
  rq_class req = MAuthn -> absent (rq_url req) -> given (rq_index req) i -> bindings <> [B_SOAP] ->
  (forall ep, publishes m (requester req) R_SP S_ACS ep -> ep_index ep <> Some i) ->
  no_destination out.
Proof. exact spec_refuses_index. Qed.
Print Assumptions c08_spec_refuses_index.

Theorem c08_spec_refuses_unknown : forall m etype prefs req bindings descr out,
  spec m (OpAnswer etype prefs req bindings descr) out -> bindings <> [B_SOAP] ->
  (forall s e, In s m -> ~ In (requester req, e) s) -> no_destination out.
Proof. exact spec_refuses_unknown. Qed.
Print Assumptions c08_spec_refuses_unknown.

(* round 7: SingleSignOnService / ArtifactResolutionService / NameIDMappingService: only the Location of a
   published endpoint is a destination, a stray ResponseLocation never is (model; any outcome passing the spec) *)
Theorem c08_pick_location_only : forall m etype prefs svc bindings descr entity_id b d,
  location_only svc = true ->
  pick_binding m etype prefs svc bindings descr None entity_id = Dest b (Some d) ->
  exists ep, publishes m entity_id (service_role svc etype descr) svc ep /\ ep_binding ep = b /\ ep_location ep = d.
Proof. exact pick_location_only. Qed.
Print Assumptions c08_pick_location_only.

Theorem c08_spec_location_only : forall m etype prefs svc bindings descr entity_id b d,
  location_only svc = true ->
  spec m (OpPick etype prefs svc bindings descr entity_id) (Dest b (Some d)) ->
  exists ep, publishes m entity_id (service_role svc etype descr) svc ep /\ ep_binding ep = b /\ ep_location ep = d.
Proof. exact spec_location_only. Qed.
Print Assumptions c08_spec_location_only.

(* the binding used is one the caller allowed, else the request's ProtocolBinding, else a configured preference *)
Theorem c08_binding_origin : forall m etype prefs req bindings descr b od,
  response_args m etype prefs req bindings descr = Dest b od ->
  bindings = [B_SOAP] \/
  (bindings <> [] /\ In b bindings) \/
  (bindings = [] /\ rq_class req = MAuthn /\
     ((exists pb, given (rq_pb req) pb /\ b = pb) \/
      (absent (rq_pb req) /\ exists l, assoc S_ACS prefs = Some l /\ In b l))).
Proof. exact answer_binding_origin. Qed.
Print Assumptions c08_binding_origin.

(* sso_sound *)
Theorem c08_sso_sound : forall m eid b d, sso_location m eid b = Loc (Some d) -> sso_endpoint m eid b d.
Proof. intros m eid b d H. pose proof (sso_sound m eid b) as S. rewrite H in S. exact S. Qed.
Print Assumptions c08_sso_sound.

(* slo_sound: for every list of IdPs to log out from, every request goes to a published
   single-logout endpoint of the IdP it is meant for *)
Theorem c08_slo_sound : forall m pref expected eids e b d,
  In (e, b, d) (fst (slo_all m pref expected eids)) ->
  In e eids /\ exists ep, publishes m e R_IDP S_SLO ep /\ ep_binding ep = b /\ ep_location ep = d.
Proof. exact slo_all_sound. Qed.
Print Assumptions c08_slo_sound.

(* disco_sound / disco_complete / exactness *)
Theorem c08_disco_sound : forall m eid url,
  verify_return m eid url = Approved true ->
  exists loc, registers_disco m eid loc /\ String.prefix loc url = true.
Proof. intros m eid url H. pose proof (disco_sound m eid url) as S. cbn [spec] in S. rewrite H in S. exact S. Qed.
Print Assumptions c08_disco_sound.

(* any number of sources; ext_service (unchanged by d8b1d2a4) skips the earlier sources that have
   nothing to say about the requester's discovery responses.  pre = [] is the one-source case *)
Theorem c08_disco_complete : forall m pre s post eid ds loc url,
  m = (pre ++ s :: post)%list ->
  (forall s', In s' pre -> src_disco B_DISCO eid s' = None \/ src_disco B_DISCO eid s' = Some []) ->
  descriptors s eid R_SP = Some ds ->
  In loc (flat_map (fun d => select B_DISCO (d_disco d)) ds) ->
  String.prefix loc url = true ->
  verify_return m eid url = Approved true.
Proof. exact disco_complete. Qed.
Print Assumptions c08_disco_complete.

Theorem c08_disco_exact : forall m eid url l,
  store_disco m eid = Found l ->
  (verify_return m eid url = Approved true <-> exists loc, In loc l /\ String.prefix loc url = true).
Proof. exact disco_exact. Qed.
Print Assumptions c08_disco_exact.

(* "starts with" is literal extension: an approved return URL is a registered location followed by
   some rest, so no look-alike of a registered location (slash-less, case-changed, re-encoded,
   normalised form, continued by anything) is approved; stated for the model and for any verdict
   on which the spec evaluates to true (the verdicts recorded on the real code) *)
Theorem c08_disco_approved_extends : forall m eid url,
  verify_return m eid url = Approved true ->
  exists loc rest, registers_disco m eid loc /\ url = (loc ++ rest)%string.
Proof. exact disco_approved_extends. Qed.
Print Assumptions c08_disco_approved_extends.

Theorem c08_disco_lookalike_refused : forall m eid url,
  (forall loc rest, registers_disco m eid loc -> url <> (loc ++ rest)%string) ->
  verify_return m eid url <> Approved true.
Proof. exact disco_lookalike_refused. Qed.
Print Assumptions c08_disco_lookalike_refused.

Theorem c08_spec_disco_extends : forall m eid url,
  spec m (OpDisco eid url) (Approved true) ->
  exists loc rest, registers_disco m eid loc /\ url = (loc ++ rest)%string.
Proof. exact spec_disco_extends. Qed.
Print Assumptions c08_spec_disco_extends.

(* a URL registered for the binding in the FIRST source that has the requester is accepted, for any
   number of sources and whatever later sources say (the model does not refuse everything) *)
Theorem c08_answer_complete : forall m s eid ds ep b u etype prefs req descr,
  first_with eid m = Some s ->
  descriptors s eid R_SP = Some ds ->
  In ep (flat_map (fun d => select S_ACS (d_eps d)) ds) ->
  ep_binding ep = b -> ep_location ep = u -> u <> EmptyString ->
  rq_class req = MAuthn -> requester req = eid -> rq_url req = Some u -> b <> B_SOAP ->
  response_args m etype prefs req [b] descr = Dest b (Some u).
Proof. exact answer_complete. Qed.
Print Assumptions c08_answer_complete.

(* ---- first source wins (MetadataStore.service after d8b1d2a4), any number of sources ---- *)

(* first_with is "the first source, in load order, that has the entity" *)
Theorem c08_first_with_spec : forall eid m s,
  first_with eid m = Some s <->
  exists pre post, m = (pre ++ s :: post)%list /\ has_entity eid s = true
                   /\ forall s', In s' pre -> has_entity eid s' = false.
Proof. exact first_with_spec. Qed.
Print Assumptions c08_first_with_spec.

(* soundness AND completeness of the endpoint lookup against that source: an endpoint is served for
   (entity, role, service, binding) iff the first source that has the entity lists it *)
Theorem c08_lookup_exact : forall m eid typ svc b s ep,
  first_with eid m = Some s ->
  ((exists l, store_service m eid typ svc (Some b) = Found l /\ In ep l) <->
   (exists ds, descriptors s eid typ = Some ds
               /\ In ep (flat_map (fun d => select svc (d_eps d)) ds) /\ ep_binding ep = b)).
Proof. exact store_service_exact. Qed.
Print Assumptions c08_lookup_exact.

(* every operation aimed at one entity (answering a request, pick_binding, sign-on endpoint,
   preparing an authentication request) gives on the whole store exactly what it gives on the
   store reduced to the first source that has that entity: later sources never matter *)
Theorem c08_first_source_decides : forall m s o e,
  op_target o = Some e -> first_with e m = Some s -> run_op m o = run_op [s] o.
Proof. exact first_source_decides. Qed.
Print Assumptions c08_first_source_decides.

(* ... hence whatever is selected is published by THAT source, not merely by some source *)
Theorem c08_first_source_sound : forall m s o e,
  op_target o = Some e -> first_with e m = Some s -> spec [s] o (run_op m o).
Proof. exact first_source_sound. Qed.
Print Assumptions c08_first_source_sound.

(* a requester no source has gets no destination *)
Theorem c08_unknown_entity_refused : forall m etype prefs req bindings descr,
  first_with (requester req) m = None ->
  no_destination (response_args m etype prefs req bindings descr) \/ bindings = [B_SOAP].
Proof. exact unknown_entity_refused. Qed.
Print Assumptions c08_unknown_entity_refused.

(* sign-on: an endpoint the first source lists for the binding is found (completeness), and the sole
   IdP _sso_location falls back to is described as an IdP by the first source that has it *)
Theorem c08_sso_complete : forall m s e ds ep b,
  first_with e m = Some s ->
  descriptors s e R_IDP = Some ds ->
  In ep (flat_map (fun d => select S_SSO (d_eps d)) ds) -> ep_binding ep = b ->
  exists ep', In ep' (flat_map (fun d => select S_SSO (d_eps d)) ds) /\ ep_binding ep' = b
              /\ sso_of m e b = Loc (Some (ep_location ep')).
Proof. exact sso_complete. Qed.
Print Assumptions c08_sso_complete.

Theorem c08_sole_idp_first_source : forall m b d,
  sso_location m None b = Loc (Some d) ->
  exists e s ent, with_idp m = [e] /\ first_with e m = Some s /\ In (e, ent) s
                  /\ entity_has R_IDP ent = true /\ sso_of [s] e b = Loc (Some d).
Proof. exact sole_idp_first_source. Qed.
Print Assumptions c08_sole_idp_first_source.

(* logout: every request of the trace was decided by the first source that has its IdP *)
Theorem c08_slo_first_source : forall m pref expected eids e b d,
  In (e, b, d) (fst (slo_all m pref expected eids)) ->
  exists s, first_with e m = Some s /\ slo_one [s] pref expected e = Send b d.
Proof. exact slo_sent_first_source. Qed.
Print Assumptions c08_slo_first_source.

(* ---- long-lived entities (round 3): sequences of operations and metadata refreshes, several entities ---- *)

(* C08 along every sequence, of any length, on any number of entities: every outcome satisfies the spec
   against the metadata the handling entity holds at that moment (after its latest successful refresh) *)
Theorem c08_sequences : forall st steps, spec_seq st steps (run_seq st steps).
Proof. intros st steps. exact (sequences_sound steps st). Qed.
Print Assumptions c08_sequences.

(* round 7: ... and against the SERVED metadata: for an operation aimed at a named entity, against the one source
   that serves that entityID (the first that has it), so a same-entityID descriptor shadowed in a later source never
   supplies a destination *)
Theorem c08_served_metadata : forall m o, spec_served m o (run_op m o).
Proof. exact served_sound. Qed.
Print Assumptions c08_served_metadata.

Theorem c08_sequences_served : forall st steps, served_seq st steps (run_seq st steps).
Proof. intros st steps. exact (sequences_served steps st). Qed.
Print Assumptions c08_sequences_served.

Theorem c08_served_seq_reflect : forall st steps obs, served_seq_b st steps obs = true <-> served_seq st steps obs.
Proof. intros st steps obs. exact (served_seq_b_iff steps st obs). Qed.
Print Assumptions c08_served_seq_reflect.

Theorem c08_shadowed_role_refused : forall m s etype prefs req bindings descr,
  first_with (requester req) m = Some s -> rq_class req = MAuthn -> bindings <> [B_SOAP] ->
  (forall ep, ~ publishes [s] (requester req) R_SP S_ACS ep) ->
  no_destination (response_args m etype prefs req bindings descr).
Proof. exact shadowed_role_refused. Qed.
Print Assumptions c08_shadowed_role_refused.

Theorem c08_spec_seq_reflect : forall st steps obs, spec_seq_b st steps obs = true <-> spec_seq st steps obs.
Proof. intros st steps obs. exact (spec_seq_b_iff steps st obs). Qed.
Print Assumptions c08_spec_seq_reflect.

(* history independence: an operation's outcome depends on what went before only through the metadata the
   handling entity holds; that metadata is what the entity's latest refresh loaded, and operations, failed
   refreshes and refreshes of other entities leave it alone *)
Theorem c08_seq_history_independent : forall st pre k o,
  run_seq st (pre ++ [SOp k o]) = (run_seq st pre ++ [OOut (run_op (stores_after st pre k) o)])%list.
Proof. exact seq_history_independent. Qed.
Print Assumptions c08_seq_history_independent.

Theorem c08_metadata_in_force : forall st pre k m post,
  forallb (fun s => negb (reloads k s)) post = true ->
  stores_after st (pre ++ SReload k m :: post) k = m.
Proof. exact stores_after_latest. Qed.
Print Assumptions c08_metadata_in_force.

Theorem c08_metadata_untouched : forall st steps k,
  forallb (fun s => negb (reloads k s)) steps = true -> stores_after st steps k = st k.
Proof. intros st steps k. exact (stores_after_untouched steps st k). Qed.
Print Assumptions c08_metadata_untouched.

(* a consumer-service URL retired by a refresh is refused from then on, whatever was looked up before *)
Theorem c08_retired_url_refused : forall st pre k m post etype prefs req bindings descr u,
  forallb (fun s => negb (reloads k s)) post = true ->
  rq_class req = MAuthn -> given (rq_url req) u -> bindings <> [B_SOAP] ->
  (forall ep, publishes m (requester req) R_SP S_ACS ep -> ep_location ep <> u) ->
  exists e, run_seq st (pre ++ SReload k m :: post ++ [SOp k (OpAnswer etype prefs req bindings descr)])
            = (run_seq st (pre ++ SReload k m :: post) ++ [OOut (Fail e)])%list.
Proof. exact retired_url_refused. Qed.
Print Assumptions c08_retired_url_refused.

(* for recorded sequences (those on which spec_seq_b evaluates to true): the outcome recorded for step i
   satisfies the single-operation spec against the metadata the recorded refresh verdicts put in force *)
Theorem c08_spec_seq_nth : forall st steps obs i k o,
  spec_seq st steps obs -> nth_error steps i = Some (SOp k o) ->
  exists out, nth_error obs i = Some (OOut out)
              /\ spec (stores_seen st (firstn i steps) (firstn i obs) k) o out.
Proof. intros st steps obs i k o. exact (spec_seq_nth steps st obs i k o). Qed.
Print Assumptions c08_spec_seq_nth.

(* the pinned snapshot's (inverted) verify_return violated the property *)
Theorem c08_disco_v0_refuted : exists m eid url, ~ spec m (OpDisco eid url) (verify_return_v0 m eid url).
Proof. exact disco_v0_refuted. Qed.
Print Assumptions c08_disco_v0_refuted.

(* tie to the source TEXT: DiscoveryServer.verify_return as translated from /repo's current source on this
   run (coq/gen/C08Src.v, harness/py2coq.py) computes the model's prefix test over the registered
   discovery-response locations, for every location list and return URL *)
Theorem c08_source_verify_return : forall (lookup : pyval -> pyval) self eid url l,
  lookup (PStr eid) = PList (map enc_endpoint l) ->
  src_verify_return lookup self (PStr eid) (PStr url) = PBool (existsb (fun loc => startswith url loc) l).
Proof. exact src_verify_return_is_model. Qed.
Print Assumptions c08_source_verify_return.

(* ---- source tie, translator v2: the functions below are re-translated from the CURRENT source text on every run
   (coq/gen/C08Src2.v by harness/py2coq2.py; encodings and proofs in C08/Source2.v).  Each theorem: for ALL inputs
   of the model's domain the translated function on the encoded input is the encoded output of the model function
   (exceptions included); external calls are hypotheses (each shown satisfiable in Source2.v) ---- *)

(* mdstore.py MetadataStore.service = Model.store_service: the first source that has the entity answers *)
Theorem c08_source2_store_service :
  forall (m : md) (eid typ svc : string) (ob : option string)
         (md_service : pyval -> pyval -> pyval -> pyval -> pyval -> pyval),
  (forall s : source, In s m ->
     md_service (enc_source s) (PStr eid) (PStr typ) (PStr svc) (enc_ostr ob)
     = match src_service typ svc eid s with
       | Some l => PList (map enc_ep (filter (keep_ob ob) l))
       | None => PNone
       end) ->
  (forall s : source, In s m -> plain_source s) ->
  src2_store_service md_service (enc_store m) (PStr eid) (PStr typ) (PStr svc) (enc_ostr ob)
  = enc_sres enc_ep (store_service m eid typ svc ob).
Proof. exact src2_store_service_is_model. Qed.
Print Assumptions c08_source2_store_service.

(* mdstore.py MetadataStore.ext_service = Model.store_first (falls through to later sources); store_disco is the
   instance the discovery service uses (Source2.src2_store_ext_service_disco) *)
Theorem c08_source2_store_ext_service :
  forall (A : Type) (enc : A -> pyval) (m : md) (eid typ svc : string) (ob : option string)
         (get : source -> option (list A)) (keep : A -> bool)
         (md_ext_service : pyval -> pyval -> pyval -> pyval -> pyval -> pyval),
  (forall s : source, In s m ->
     md_ext_service (enc_source s) (PStr eid) (PStr typ) (PStr svc) (enc_ostr ob)
     = match get s with
       | Some l => PList (map enc (filter keep l))
       | None => PNone
       end) ->
  src2_store_ext_service md_ext_service (enc_store m) (PStr eid) (PStr typ) (PStr svc) (enc_ostr ob)
  = enc_sres enc (store_first get keep m false).
Proof. intros A. exact (@src2_store_ext_service_is_model A). Qed.
Print Assumptions c08_source2_store_ext_service.

(* client_base.py Base._sso_location = Model.sso_location (every path but the "too many IdPs" raise) *)
Theorem c08_source2_sso_location :
  forall (m : md) (b : string) (sso_service : pyval -> pyval -> pyval)
         (with_descriptor_ locations_ : pyval -> pyval) (next_ : pyval -> pyval -> pyval),
  (forall e : string, sso_service (PStr e) (PStr b) = enc_sres enc_ep (store_service m e R_IDP S_SSO (Some b))) ->
  with_descriptor_ (PStr "idpsso") = PObj (map (fun e : string => (e, PStr "entity")) (with_idp m)) ->
  match with_idp m with [] => True | e :: _ => e <> "__class__"%string end ->
  (forall l : list endpoint, locations_ (PList (map enc_ep l)) = PList (map PStr (locations l))) ->
  (forall (l : list pyval) (d : pyval), next_ (PList l) d = first_or d l) ->
  forall eid : option string,
  (truthy eid = None -> (length (with_idp m) <= 1)%nat) ->
  src2_sso_location sso_service with_descriptor_ locations_ next_ (PStr "self") (enc_ostr eid) (PStr b)
  = enc_out (sso_location m eid b).
Proof. exact src2_sso_location_is_model. Qed.
Print Assumptions c08_source2_sso_location.

(* entity.py Entity.response_args = Model.response_args, whole function, every request class *)
Theorem c08_source2_response_args :
  forall (m : md) (svc0 etype : string) (prefs : list (string * list string)) (bindings : list string)
         (cn mid issuer : string) (url idx pb : option string)
         (pick_binding_ : pyval -> pyval -> pyval -> pyval -> pyval),
  (forall rsrv descr : string,
     pick_binding_ (PStr rsrv) (enc_strs bindings) (PStr descr) (ra_msg cn mid issuer url idx pb)
     = enc_out (pick_binding m etype prefs rsrv bindings descr (Some (ra_req cn issuer url idx pb)) "")) ->
  forall descr : string,
  src2_response_args pick_binding_ (enc_entity svc0 etype prefs) (ra_msg cn mid issuer url idx pb)
                     (enc_strs bindings) (PStr descr)
  = enc_info cn mid issuer (response_args m etype prefs (ra_req cn issuer url idx pb) bindings descr).
Proof. exact src2_response_args_is_model. Qed.
Print Assumptions c08_source2_response_args.

(* entity.py Entity.pick_binding = Model.pick_binding, whole function: entity id, bindings tried, descriptor type,
   URL / index / default destination, every exception *)
Theorem c08_source2_pick_binding :
  forall (m : md) (etype : string) (prefs : list (string * list string)) (svc : string)
         (sfunc : pyval -> pyval -> pyval -> pyval) (all_locations_ : pyval -> pyval)
         (next_ : pyval -> pyval -> pyval),
  In svc known_services ->
  (forall eid b descr : string,
     sfunc (PStr eid) (PStr b) (PStr descr) = enc_sres enc_ep (store_service m eid (typ_of svc descr) svc (Some b))) ->
  (forall l : list endpoint, all_locations_ (PList (map enc_ep l)) = PList (map PStr (all_locations svc l))) ->
  (forall (l : list pyval) (d : pyval), next_ (PList l) d = first_or d l) ->
  match prefs with [] => True | (k, _) :: _ => k <> "__class__"%string end ->
  forall (bindings : list string) (descr : string)
         (req : option (string * string * string * option string * option string * option string))
         (entity_id : string),
  (forall q : request, model_req req = Some q -> end_ascii (strip (rq_issuer q)) = true) ->
  src2_pick_binding sfunc all_locations_ next_ (enc_entity svc etype prefs) (PStr svc) (enc_strs bindings)
                    (PStr descr) (enc_oreq req) (PStr entity_id)
  = enc_out (pick_binding m etype prefs svc bindings descr (model_req req) entity_id).
Proof. exact src2_pick_binding_is_model. Qed.
Print Assumptions c08_source2_pick_binding.
