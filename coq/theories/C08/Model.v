(* C08/Model.v — where messages and browsers are sent, as coded.
   Mirrors: mdstore.InMemoryMetaData.service / ext_service / __getitem__ (647-684, 333-350, 551),
   MetadataStore.service (1199-1221, after "fix:" d8b1d2a4: the first source that has the entity
   answers) / ext_service (1239-1253, unchanged: falls through) / with_descriptor (1414-1423, after
   "fix:" 18964551) / the per-service wrappers, mdstore.locations / response_locations / all_locations (156-200),
   Entity.pick_binding (entity.py 313-356), Entity.response_args (370-421; Server does not
   override it), Base._sso_location (client_base.py 209-233),
   Saml2Client.prepare_for_(negotiated_)authenticate (client.py 39-178),
   Saml2Client.do_logout endpoint choice (client.py 227-376),
   DiscoveryServer.verify_return (discovery.py 94-98, after the "fix:" commit 796203d6). *)
From Coq Require Import String List Bool.
From Verif Require Import Base.Str.
Import ListNotations.
Open Scope string_scope.

Definition B_REDIRECT := "urn:oasis:names:tc:SAML:2.0:bindings:HTTP-Redirect".
Definition B_POST := "urn:oasis:names:tc:SAML:2.0:bindings:HTTP-POST".
Definition B_SOAP := "urn:oasis:names:tc:SAML:2.0:bindings:SOAP".
Definition B_PAOS := "urn:oasis:names:tc:SAML:2.0:bindings:PAOS".
Definition B_ARTIFACT := "urn:oasis:names:tc:SAML:2.0:bindings:HTTP-Artifact".
Definition B_URI := "urn:oasis:names:tc:SAML:2.0:bindings:URI".
Definition B_DISCO := "urn:oasis:names:tc:SAML:profiles:SSO:idp-discovery-protocol".

Definition S_ACS := "assertion_consumer_service".
Definition S_SLO := "single_logout_service".
Definition S_MNI := "manage_name_id_service".
Definition S_SSO := "single_sign_on_service".
Definition S_ATTRC := "attribute_consuming_service".
Definition S_ARS := "artifact_resolution_service".
Definition S_NIM := "name_id_mapping_service".

Definition R_SP := "spsso_descriptor".
Definition R_IDP := "idpsso_descriptor".

(* ---------------------------------------------------------------- metadata as loaded *)
(* one endpoint element: Binding, Location, index?, ResponseLocation? (all as the strings of the XML) *)
Record endpoint := EPt {
  ep_binding : string; ep_location : string; ep_index : option string; ep_resp : option string }.

(* one role descriptor: its endpoint elements (service name, endpoint) in document order, and the
   idpdisc:DiscoveryResponse elements (Binding, Location) of its md:Extensions *)
Record descriptor := Desc { d_eps : list (string * endpoint); d_disco : list (string * string) }.

Definition entity := list (string * descriptor).     (* (role key, descriptor) in document order *)
Definition source := list (string * entity).         (* one metadata source: entityID -> entity *)
Definition md := list source.                        (* MetadataStore.metadata, in load order *)

Fixpoint assoc {A} (k : string) (l : list (string * A)) : option A :=
  match l with
  | [] => None
  | (k', v) :: r => if String.eqb k' k then Some v else assoc k r
  end.

Definition select {A} (k : string) (l : list (string * A)) : list A :=
  map snd (filter (fun p => String.eqb (fst p) k) l).

(* self[entity_id][typ] : None = KeyError *)
Definition descriptors (s : source) (eid typ : string) : option (list descriptor) :=
  match assoc eid s with
  | None => None
  | Some e => match select typ e with [] => None | ds => Some ds end
  end.

(* InMemoryMetaData.service before the binding filter: every t[service] concatenated *)
Definition src_service (typ svc eid : string) (s : source) : option (list endpoint) :=
  match descriptors s eid typ with
  | None => None
  | Some ds => Some (flat_map (fun d => select svc (d_eps d)) ds)
  end.

(* InMemoryMetaData.ext_service: DiscoveryResponse extension elements with the asked binding *)
Definition src_disco (binding eid : string) (s : source) : option (list string) :=
  match descriptors s eid R_SP with
  | None => None
  | Some ds => Some (flat_map (fun d => select binding (d_disco d)) ds)
  end.

Inductive sres (A : Type) := Found (l : list A) | Unsupported | Unknown.
Arguments Found {A} l.
Arguments Unsupported {A}.
Arguments Unknown {A}.

(* MetadataStore.ext_service (NOT changed by d8b1d2a4): the first source with a non-empty answer
   wins; a source that knows the entity (and role) but has nothing for the binding only sets
   known_entity, and the loop goes on to the later sources *)
Fixpoint store_first {A} (get : source -> option (list A)) (keep : A -> bool) (m : md) (known : bool) : sres A :=
  match m with
  | [] => if known then Unsupported else Unknown
  | s :: r =>
      match get s with
      | None => store_first get keep r known
      | Some l => match filter keep l with
                  | [] => store_first get keep r true
                  | l' => Found l'
                  end
      end
  end.

Definition has_binding (b : string) (ep : endpoint) : bool := String.eqb (ep_binding ep) b.

(* _md[entity_id] does not raise KeyError: the source has the entity (whatever its roles) *)
Definition has_entity (eid : string) (s : source) : bool :=
  match assoc eid s with Some _ => true | None => false end.

(* the first source, in load order, that has the entity: the one MetadataStore.__getitem__ and
   (since d8b1d2a4) MetadataStore.service answer from *)
Fixpoint first_with (eid : string) (m : md) : option source :=
  match m with
  | [] => None
  | s :: r => if has_entity eid s then Some s else first_with eid r
  end.

(* MetadataStore.service after "fix:" d8b1d2a4: sources without the entity are skipped; the FIRST
   source that has it answers and the loop stops there: a non-empty answer is returned, an empty
   one ([] / {}) is UnsupportedBinding, None (no descriptor of that role) is UnknownSystemEntity.
   binding = None is do_logout's call: all endpoints of the service (grouped later) *)
Definition store_service (m : md) (eid typ svc : string) (binding : option string) : sres endpoint :=
  match first_with eid m with
  | None => Unknown
  | Some s =>
      match src_service typ svc eid s with
      | None => Unknown
      | Some l =>
          match filter (match binding with Some b => has_binding b | None => fun _ => true end) l with
          | [] => Unsupported
          | l' => Found l'
          end
      end
  end.

(* MetadataStore.service as it was before d8b1d2a4 (fall-through like ext_service); kept for
   classifying a regression and for the theorem that tells the two apart *)
Definition store_service_v0 (m : md) (eid typ svc : string) (binding : option string) : sres endpoint :=
  store_first (src_service typ svc eid)
              (match binding with Some b => has_binding b | None => fun _ => true end) m false.

Definition store_disco (m : md) (eid : string) : sres string :=
  store_first (src_disco B_DISCO eid) (fun _ => true) m false.

(* which role key the per-service wrapper of MetadataStore looks in *)
Definition typ_of (svc descr : string) : string :=
  if String.eqb svc S_ACS || String.eqb svc S_ATTRC then R_SP
  else if String.eqb svc S_SSO then R_IDP
  else descr ++ "_descriptor".

(* mdstore.response_locations / locations / all_locations *)
Definition resp_excluded (svc : string) : bool :=
  String.eqb svc S_SSO || String.eqb svc S_ARS || String.eqb svc S_NIM.

Definition response_locations (svc : string) (l : list endpoint) : list string :=
  if resp_excluded svc then []
  else flat_map (fun ep => match ep_resp ep with Some r => [r] | None => [] end) l.

Definition locations (l : list endpoint) : list string := map ep_location l.
Definition all_locations (svc : string) (l : list endpoint) : list string :=
  response_locations svc l ++ locations l.

(* ---------------------------------------------------------------- outcomes *)
Inductive err :=
| EUnknownEntity      (* saml2.s_utils.UnknownSystemEntity *)
| EUnsupported        (* saml2.s_utils.UnsupportedBinding *)
| ESaml               (* saml2.SAMLError itself *)
| EKey                (* KeyError *)
| EAttr               (* AttributeError *)
| EIdpUnspecified     (* saml2.client_base.IdpUnspecified *)
| ESignOn             (* saml2.client_base.SignOnError *)
| EValue              (* ValueError *)
| EOther.

Definition err_eqb (a b : err) : bool :=
  match a, b with
  | EUnknownEntity, EUnknownEntity | EUnsupported, EUnsupported | ESaml, ESaml | EKey, EKey
  | EAttr, EAttr | EIdpUnspecified, EIdpUnspecified | ESignOn, ESignOn | EValue, EValue | EOther, EOther => true
  | _, _ => false
  end.

Inductive outcome :=
| Dest (b : string) (loc : option string)            (* binding and destination selected *)
| NoDest                                             (* nothing selected (info without binding/destination) *)
| Loc (loc : option string)                          (* _sso_location *)
| Trace (sent : list (string * string * string)) (e : option err)
                                                     (* do_logout: (entity, binding, location) of every request
                                                        handed to apply_binding, then the exception if any *)
| Approved (b : bool)                                (* verify_return *)
| Fail (e : err).

(* Python truthiness of an optional string attribute *)
Definition truthy (o : option string) : option string :=
  match o with
  | Some s => if is_empty s then None else Some s
  | None => None
  end.

(* ---------------------------------------------------------------- pick_binding *)
Inductive msgclass := MAuthn | MLogout | MAttrQuery | MManageNameID | MSoapOnly | MOther.

Record request := Req {
  rq_class : msgclass;
  rq_issuer : string;                 (* Issuer text, unstripped *)
  rq_url : option string;             (* AssertionConsumerServiceURL *)
  rq_index : option string;           (* AssertionConsumerServiceIndex *)
  rq_pb : option string               (* ProtocolBinding *)
}.

Definition is_authn (c : msgclass) : bool := match c with MAuthn => true | _ => false end.

Inductive scan := Hit (loc : string) | Miss | Crash.

(* for srv in srvs: if srv["index"] == _index: ...   (KeyError when an endpoint has no index) *)
Fixpoint scan_index (l : list endpoint) (i : string) : scan :=
  match l with
  | [] => Miss
  | ep :: r =>
      match ep_index ep with
      | None => Crash
      | Some j => if String.eqb j i then Hit (ep_location ep) else scan_index r i
      end
  end.

Definition scan_url (l : list endpoint) (u : string) : bool :=
  existsb (fun ep => String.eqb (ep_location ep) u) l.

Fixpoint pick_loop (m : md) (eid typ svc : string) (url index : option string) (bindings : list string) : outcome :=
  match bindings with
  | [] => Fail ESaml
  | b :: r =>
      match store_service m eid typ svc (Some b) with
      | Unknown => Fail EUnknownEntity            (* not caught by pick_binding *)
      | Unsupported => pick_loop m eid typ svc url index r
      | Found l =>
          match url, index with
          | Some u, _ => if scan_url l u then Dest b (Some u) else pick_loop m eid typ svc url index r
          | None, Some i =>
              match scan_index l i with
              | Hit loc => Dest b (Some loc)
              | Miss => pick_loop m eid typ svc url index r
              | Crash => Fail EKey
              end
          | None, None => Dest b (hd_error (all_locations svc l))
          end
      end
  end.

Definition default_descr (etype : string) : string :=
  if String.eqb etype "sp" then "idpsso" else "spsso".

(* prefs = config.preferred_binding (service -> bindings); bindings = [] stands for None / [] *)
Definition pb_eid (req : option request) (entity_id : string) : string :=
  match req with
  | Some r => if is_empty entity_id then strip (rq_issuer r) else entity_id
  | None => entity_id
  end.

(* the bindings that are tried, in order: the caller's, else the request's ProtocolBinding, else
   the configured preference for the service *)
Definition effective_bindings (prefs : list (string * list string)) (svc : string) (bindings : list string)
    (req : option request) : list string + err :=
  let pref := match assoc svc prefs with Some l => inl l | None => inr EKey end in
  match bindings with
  | _ :: _ => inl bindings
  | [] => match req with
          | None => pref
          | Some r => if is_authn (rq_class r)
                      then match truthy (rq_pb r) with Some pb => inl [pb] | None => pref end
                      else inr EAttr       (* no protocol_binding attribute on the other classes *)
          end
  end.

Definition pb_descr (etype descr : string) : string :=
  if is_empty descr then default_descr etype else descr.

(* getattr(request, service + "_url" / "_index", None), by truthiness *)
Definition pb_ui (req : option request) (svc : string) : option string * option string :=
  match req with
  | Some r => if is_authn (rq_class r) && String.eqb svc S_ACS
              then (truthy (rq_url r), truthy (rq_index r)) else (None, None)
  | None => (None, None)
  end.

Definition pick_binding (m : md) (etype : string) (prefs : list (string * list string))
    (svc : string) (bindings : list string) (descr : string) (req : option request) (entity_id : string) : outcome :=
  match effective_bindings prefs svc bindings req with
  | inr e => Fail e
  | inl bs =>
      pick_loop m (pb_eid req entity_id) (typ_of svc (pb_descr etype descr)) svc
                (fst (pb_ui req svc)) (snd (pb_ui req svc)) bs
  end.

(* ---------------------------------------------------------------- response_args *)
(* the tail of response_args once the service (rsrv) and descriptor type are fixed *)
Definition answer_with (m : md) (etype : string) (prefs : list (string * list string))
    (req : request) (bindings : list string) (rsrv descr : string) : outcome :=
  if list_eqb String.eqb bindings [B_SOAP] then Dest B_SOAP (Some "")
  else if is_empty rsrv then NoDest
  else pick_binding m etype prefs rsrv bindings (pb_descr etype descr) (Some req) "".

Definition response_args (m : md) (etype : string) (prefs : list (string * list string))
    (req : request) (bindings : list string) (descr : string) : outcome :=
  let go := answer_with m etype prefs req bindings in
  match rq_class req with
  | MAuthn => go S_ACS "spsso"
  | MLogout => go S_SLO descr
  | MAttrQuery => go S_ATTRC "spsso"
  | MManageNameID => go S_MNI descr
  | MSoapOnly => go "" descr
  | MOther => Fail ESaml
  end.

(* ---------------------------------------------------------------- SP side: SSO *)
Definition entity_has (typ : string) (e : entity) : bool := existsb (fun p => String.eqb (fst p) typ) e.

Fixpoint dedup (l : list string) : list string :=
  match l with
  | [] => []
  | x :: r => x :: filter (fun y => negb (String.eqb y x)) (dedup r)
  end.

(* MetadataStore.with_descriptor("idpsso").keys() after "fix:" 18964551: an entity is described by
   the first source that has it, so a source contributes its IdPs only when no earlier source has
   the same entityID (seen = every key of the earlier sources, whatever the role) *)
Fixpoint with_idp_from (seen : list string) (m : md) : list string :=
  match m with
  | [] => []
  | s :: r =>
      map fst (filter (fun p => entity_has R_IDP (snd p) && negb (mem (fst p) seen)) s)
      ++ with_idp_from (map fst s ++ seen) r
  end.

Definition with_idp (m : md) : list string := dedup (with_idp_from [] m).

Definition sso_of (m : md) (e b : string) : outcome :=
  match store_service m e R_IDP S_SSO (Some b) with
  | Found l => Loc (hd_error (locations l))
  | Unsupported => Fail EUnsupported
  | Unknown => Fail EUnknownEntity
  end.

Definition sso_location (m : md) (eid : option string) (b : string) : outcome :=
  match truthy eid with
  | Some e => sso_of m e b
  | None => match with_idp m with
            | [e] => sso_of m e b
            | _ => Fail EIdpUnspecified
            end
  end.

(* the bindings apply_binding knows *)
Definition known_binding (b : string) : bool :=
  mem b [B_POST; B_REDIRECT; B_SOAP; B_PAOS; B_URI; B_ARTIFACT].

Fixpoint first_sso (m : md) (eid : option string) (bs : list string) : option (string * option string) :=
  match bs with
  | [] => None
  | b :: r => match sso_location m eid b with
              | Loc l => Some (b, l)
              | _ => first_sso m eid r
              end
  end.

Definition bindings_to_try (binding : option string) : list string :=
  match truthy binding with None => [B_REDIRECT; B_POST] | Some b => [b] end.

Definition negotiated (m : md) (eid : option string) (binding : option string) : outcome :=
  match first_sso m eid (bindings_to_try binding) with
  | None => Fail ESignOn
  | Some (b, l) => if known_binding b then Dest b l else Fail ESaml
  end.

Definition authenticate (m : md) (eid : option string) (binding : string) : outcome :=
  match negotiated m eid (Some binding) with
  | Dest nb l => if String.eqb nb binding then Dest nb l else Fail EValue
  | o => o
  end.

(* ---------------------------------------------------------------- SP side: SLO *)
Inductive step := Send (b loc : string) | Skip | Stop (e : err).

Definition slo_choice (pref : list string) (expected : option string) (l : list endpoint) : option string :=
  let sup := dedup (map ep_binding l) in
  hd_error (filter (fun b => negb (is_empty b))
                   ((match expected with Some b => [b] | None => [] end)
                    ++ filter (fun b => mem b sup) pref ++ sup)).

Definition slo_one (m : md) (pref : list string) (expected : option string) (eid : string) : step :=
  match store_service m eid R_IDP S_SLO None with
  | Unknown => Stop EUnknownEntity
  | Unsupported => Stop EUnsupported
  | Found l =>
      match slo_choice pref expected l with
      | None => Skip
      | Some b =>
          match filter (has_binding b) l with
          | [] => Stop EKey                               (* bindings_slo_supported[binding] *)
          | ep :: _ =>
              if is_empty (ep_location ep) then Skip
              else if known_binding b then Send b (ep_location ep)
              else Stop ESaml                             (* apply_binding: unknown binding type *)
          end
      end
  end.

Fixpoint slo_all (m : md) (pref : list string) (expected : option string) (eids : list string)
  : list (string * string * string) * option err :=
  match eids with
  | [] => ([], None)
  | e :: r =>
      match slo_one m pref expected e with
      | Send b loc => let (t, x) := slo_all m pref expected r in ((e, b, loc) :: t, x)
      | Skip => slo_all m pref expected r
      | Stop x => ([], Some x)
      end
  end.

Definition do_logout (m : md) (pref : list string) (expected : option string) (eids : list string) : outcome :=
  let (t, x) := slo_all m pref expected eids in Trace t x.

(* ---------------------------------------------------------------- discovery service *)
Definition verify_return (m : md) (eid url : string) : outcome :=
  match store_disco m eid with
  | Found l => Approved (existsb (fun loc => startswith url loc) l)
  | Unsupported => Fail EUnsupported
  | Unknown => Fail EUnknownEntity
  end.

(* verify_return at the pinned snapshot 28480bb7 (before "fix:" 796203d6): the test was inverted.
   Kept for the refutation theorem and for classifying a regression. *)
Definition verify_return_v0 (m : md) (eid url : string) : outcome :=
  match store_disco m eid with
  | Found l => Approved (existsb (fun loc => negb (startswith url loc)) l)
  | Unsupported => Fail EUnsupported
  | Unknown => Fail EUnknownEntity
  end.

(* ---------------------------------------------------------------- the operations of the property *)
Inductive op :=
| OpAnswer (etype : string) (prefs : list (string * list string)) (req : request) (bindings : list string) (descr : string)
| OpPick (etype : string) (prefs : list (string * list string)) (svc : string) (bindings : list string)
         (descr entity_id : string)
| OpSso (eid : option string) (binding : string)
| OpNegotiate (eid : option string) (binding : option string)
| OpAuthenticate (eid : option string) (binding : string)
| OpLogout (pref : list string) (expected : option string) (eids : list string)
| OpDisco (eid url : string).

Definition run_op (m : md) (o : op) : outcome :=
  match o with
  | OpAnswer etype prefs req bindings descr => response_args m etype prefs req bindings descr
  | OpPick etype prefs svc bindings descr entity_id => pick_binding m etype prefs svc bindings descr None entity_id
  | OpSso eid b => sso_location m eid b
  | OpNegotiate eid b => negotiated m eid b
  | OpAuthenticate eid b => authenticate m eid b
  | OpLogout pref expected eids => do_logout m pref expected eids
  | OpDisco eid url => verify_return m eid url
  end.

(* ---------------------------------------------------------------- long-lived entities (round 3) *)
(* An entity lives for a long time: it handles many operations, and its metadata is refreshed in between
   through Entity.reload_metadata(conf) -> MetadataStore.reload(conf) (mdstore.py 1133-1143: the old
   metadata dict is set aside, conf is loaded into a new one, and when that raises the old one is put back;
   reload_metadata returns True / False).  Several entities live in one process, each with a store of its
   own.  As coded, NOTHING but the metadata currently in the store of the entity that handles the operation
   enters an answer: no memo, no state shared between entities.  The state of the model is therefore the
   metadata of each entity, entity k = the k-th object the harness created. *)
Inductive sstep :=
| SOp (k : nat) (o : op)          (* entity k handles operation o *)
| SReload (k : nat) (m : md)      (* entity k is given a metadata configuration that loads as m *)
| SReloadFail (k : nat).          (* entity k is given a configuration that does not load (raises half-way) *)

Inductive sobs :=
| OOut (out : outcome)            (* what the operation gave *)
| OReloaded (ok : bool).          (* what reload_metadata returned *)

Definition stores := nat -> md.
Definition init_stores (l : list md) : stores := fun k => nth k l [].
Definition upd (k : nat) (m : md) (st : stores) : stores := fun j => if Nat.eqb j k then m else st j.

Fixpoint run_seq (st : stores) (steps : list sstep) : list sobs :=
  match steps with
  | [] => []
  | SOp k o :: r => OOut (run_op (st k) o) :: run_seq st r
  | SReload k m :: r => OReloaded true :: run_seq (upd k m st) r
  | SReloadFail k :: r => OReloaded false :: run_seq st r
  end.

(* the metadata every entity holds after the steps *)
Fixpoint stores_after (st : stores) (steps : list sstep) : stores :=
  match steps with
  | [] => st
  | SReload k m :: r => stores_after (upd k m st) r
  | _ :: r => stores_after st r
  end.
