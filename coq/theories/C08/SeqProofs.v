(* C08/SeqProofs.v — long-lived entities: sequences of operations and metadata refreshes on several
   entities (Model.run_seq, Spec.spec_seq).  All statements are for every sequence, any length. *)
From Coq Require Import String List Bool Arith.
From Verif Require Import Base.Str C08.Model C08.Spec C08.Proofs.
Import ListNotations.
Open Scope string_scope.

Lemma spec_seq_b_iff steps : forall st obs, spec_seq_b st steps obs = true <-> spec_seq st steps obs.
Proof.
  induction steps as [|s r IH]; intros st obs.
  - destruct obs; cbn; split; intros H; try reflexivity; try exact I; try discriminate; contradiction.
  - destruct s as [k o|k m|k]; destruct obs as [|[out|ok] r']; cbn [spec_seq_b spec_seq];
      try (split; intros H; [discriminate|contradiction]).
    + rewrite andb_true_iff, spec_b_iff, IH. reflexivity.
    + apply IH.
    + apply IH.
Qed.

(* the property along every sequence: each outcome satisfies the spec against the metadata in force for the
   entity that handled the operation at that moment *)
Lemma sequences_sound steps : forall st, spec_seq st steps (run_seq st steps).
Proof.
  induction steps as [|s r IH]; intros st; [exact I|].
  destruct s as [k o|k m|k]; cbn [run_seq spec_seq].
  - split; [apply destinations_from_metadata|apply IH].
  - apply IH.
  - apply IH.
Qed.

Lemma run_seq_app a : forall st b, run_seq st (a ++ b) = (run_seq st a ++ run_seq (stores_after st a) b)%list.
Proof.
  induction a as [|s r IH]; intros st b; [reflexivity|].
  destruct s as [k o|k m|k]; cbn [app run_seq stores_after]; rewrite IH; reflexivity.
Qed.

Lemma run_seq_length steps : forall st, length (run_seq st steps) = length steps.
Proof. induction steps as [|[k o|k m|k] r IH]; intros st; cbn; [reflexivity|..]; rewrite IH; reflexivity. Qed.

(* history independence: what an operation gives depends on the sequence before it only through the
   metadata the handling entity holds at that moment *)
Lemma seq_history_independent st pre k o :
  run_seq st (pre ++ [SOp k o]) = (run_seq st pre ++ [OOut (run_op (stores_after st pre k) o)])%list.
Proof. rewrite run_seq_app. reflexivity. Qed.

Lemma stores_after_app a : forall st b, stores_after st (a ++ b) = stores_after (stores_after st a) b.
Proof.
  induction a as [|s r IH]; intros st b; [reflexivity|].
  destruct s as [k o|k m|k]; cbn [app stores_after]; apply IH.
Qed.

Definition reloads (k : nat) (s : sstep) : bool :=
  match s with SReload j _ => Nat.eqb j k | _ => false end.

(* steps that do not refresh entity k leave its metadata alone: operations (of any entity), failed
   refreshes, and refreshes of OTHER entities *)
Lemma stores_after_untouched steps : forall st k,
  forallb (fun s => negb (reloads k s)) steps = true -> stores_after st steps k = st k.
Proof.
  induction steps as [|s r IH]; intros st k H; [reflexivity|].
  cbn [forallb] in H. apply andb_true_iff in H. destruct H as [H1 H2].
  destruct s as [j o|j m|j]; cbn [stores_after]; try (apply IH; exact H2).
  rewrite (IH _ _ H2). unfold upd. cbn [reloads] in H1. rewrite Nat.eqb_sym. destruct (Nat.eqb j k); [discriminate|reflexivity].
Qed.

(* the metadata in force for entity k is what its latest refresh loaded *)
Lemma stores_after_latest st pre k m post :
  forallb (fun s => negb (reloads k s)) post = true ->
  stores_after st (pre ++ SReload k m :: post) k = m.
Proof.
  intros H. rewrite stores_after_app. cbn [stores_after]. rewrite (stores_after_untouched post _ k H).
  unfold upd. rewrite Nat.eqb_refl. reflexivity.
Qed.

(* the seeded scenario, for every history: once entity k has been refreshed with metadata in which the
   requester no longer registers the URL, a request naming that URL is refused — whatever was looked up,
   answered or cached before the refresh, and whatever other entities of the process hold *)
Lemma retired_url_refused st pre k m post etype prefs req bindings descr u :
  forallb (fun s => negb (reloads k s)) post = true ->
  rq_class req = MAuthn -> given (rq_url req) u -> bindings <> [B_SOAP] ->
  (forall ep, publishes m (requester req) R_SP S_ACS ep -> ep_location ep <> u) ->
  exists e, run_seq st (pre ++ SReload k m :: post ++ [SOp k (OpAnswer etype prefs req bindings descr)])
            = (run_seq st (pre ++ SReload k m :: post) ++ [OOut (Fail e)])%list.
Proof.
  intros Hp Hc Hu Hb Hno.
  destruct (pick_refuses_url m etype prefs req bindings descr u Hc Hu Hb Hno) as [e He].
  exists e.
  replace (pre ++ SReload k m :: post ++ [SOp k (OpAnswer etype prefs req bindings descr)])%list
    with ((pre ++ SReload k m :: post) ++ [SOp k (OpAnswer etype prefs req bindings descr)])%list
    by (rewrite <- app_assoc; reflexivity).
  rewrite seq_history_independent, (stores_after_latest st pre k m post Hp). cbn [run_op]. rewrite He. reflexivity.
Qed.

(* the same from the spec alone, i.e. for RECORDED sequences on which spec_seq_b evaluates to true: the
   outcome recorded for the i-th step, an operation of entity k, satisfies the spec against the metadata
   that the recorded refresh verdicts put in force for entity k *)
Lemma spec_seq_nth steps : forall st obs i k o,
  spec_seq st steps obs -> nth_error steps i = Some (SOp k o) ->
  exists out, nth_error obs i = Some (OOut out)
              /\ spec (stores_seen st (firstn i steps) (firstn i obs) k) o out.
Proof.
  induction steps as [|s r IH]; intros st obs i k o H Hn; [destruct i; discriminate|].
  destruct i as [|i].
  - cbn in Hn. inversion Hn. subst s. destruct obs as [|[out|ok] r']; cbn [spec_seq] in H; try contradiction.
    exists out. split; [reflexivity|]. cbn. exact (proj1 H).
  - cbn [nth_error] in Hn.
    destruct s as [j o'|j m|j]; destruct obs as [|[out|ok] r']; cbn [spec_seq] in H; try contradiction;
      cbn [nth_error firstn stores_seen].
    + exact (IH st r' i k o (proj2 H) Hn).
    + exact (IH _ r' i k o H Hn).
    + exact (IH st r' i k o H Hn).
Qed.

(* ---------------------------------------------------------------- non-vacuity: the seeded scenario *)
Definition ex_sp_v1 : string * entity :=
  ("https://sp.example.org/sp.xml",
   [(R_SP, Desc [(S_ACS, EPt B_POST "https://old-host.sp.example.org/acs/post" (Some "0") None);
                 (S_ACS, EPt B_POST "https://sp.example.org/acs/post" (Some "1") None)] [])]).
Definition ex_sp_v2 : string * entity :=
  ("https://sp.example.org/sp.xml",
   [(R_SP, Desc [(S_ACS, EPt B_POST "https://sp.example.org/acs/post" (Some "1") None);
                 (S_ACS, EPt B_REDIRECT "https://sp.example.org/acs/redirect" (Some "2") None)] [])]).
Definition ex_old_url := OpAnswer "idp" ex_prefs (Req MAuthn "https://sp.example.org/sp.xml"
                                    (Some "https://old-host.sp.example.org/acs/post") None (Some B_POST)) [] "".
Definition ex_old_idx := OpAnswer "idp" ex_prefs (Req MAuthn "https://sp.example.org/sp.xml" None (Some "0") (Some B_POST)) [] "".
Definition ex_dflt := OpAnswer "idp" ex_prefs (Req MAuthn "https://sp.example.org/sp.xml" None None (Some B_POST)) [] "".

(* entity 0 is refreshed, entity 1 (same process, same requester id) is not; a failed refresh changes nothing *)
Example ex_refresh :
  run_seq (init_stores [[[ex_sp_v1]]; [[ex_sp_v1]]])
          [SOp 0 ex_old_url; SOp 0 ex_old_idx; SOp 0 ex_dflt; SReloadFail 0; SOp 0 ex_old_url;
           SReload 0 [[ex_sp_v2]];
           SOp 0 ex_old_url; SOp 0 ex_old_idx; SOp 0 ex_dflt; SOp 1 ex_old_url]
  = [OOut (Dest B_POST (Some "https://old-host.sp.example.org/acs/post"));
     OOut (Dest B_POST (Some "https://old-host.sp.example.org/acs/post"));
     OOut (Dest B_POST (Some "https://old-host.sp.example.org/acs/post"));
     OReloaded false; OOut (Dest B_POST (Some "https://old-host.sp.example.org/acs/post"));
     OReloaded true;
     OOut (Fail ESaml); OOut (Fail ESaml); OOut (Dest B_POST (Some "https://sp.example.org/acs/post"));
     OOut (Dest B_POST (Some "https://old-host.sp.example.org/acs/post"))].
Proof. vm_compute. reflexivity. Qed.

(* ... and an entity that goes on answering from the metadata it held before the refresh violates the spec *)
Example ex_stale_answer_violates :
  spec_seq_b (init_stores [[[ex_sp_v1]]])
             [SOp 0 ex_old_url; SReload 0 [[ex_sp_v2]]; SOp 0 ex_old_url]
             [OOut (Dest B_POST (Some "https://old-host.sp.example.org/acs/post")); OReloaded true;
              OOut (Dest B_POST (Some "https://old-host.sp.example.org/acs/post"))] = false.
Proof. vm_compute. reflexivity. Qed.

(* ---------------------------------------------------------------- the served metadata (round 7) *)
Lemma describes_has_entity e s : describes e s = has_entity e s.
Proof.
  unfold describes, has_entity. induction s as [|[k v] r IH]; [reflexivity|].
  cbn [existsb assoc fst]. rewrite IH. rewrite String.eqb_sym. destruct (String.eqb e k); reflexivity.
Qed.

Lemma find_describes e m : find (describes e) m = first_with e m.
Proof.
  induction m as [|s r IH]; [reflexivity|]. cbn [find first_with]. rewrite describes_has_entity, IH. reflexivity.
Qed.

Lemma spec_served_b_iff m o out : spec_served_b m o out = true <-> spec_served m o out.
Proof.
  unfold spec_served_b, spec_served. destruct (target_of o); [apply spec_b_iff|]. split; intros _; [exact I|reflexivity].
Qed.

(* the model answers from the served metadata: every outcome of an operation aimed at a named entity satisfies
   the spec against the ONE source that serves that entity *)
Lemma served_sound m o : spec_served m o (run_op m o).
Proof.
  unfold spec_served. destruct (target_of o) as [e|] eqn:Et; [|exact I].
  unfold served. rewrite find_describes. destruct (first_with e m) as [s|] eqn:Ef.
  - apply (first_source_sound m s o e); [|exact Ef].
    destruct o; cbn [target_of op_target] in *; exact Et.
  - apply destinations_from_metadata.
Qed.

Lemma served_seq_b_iff steps : forall st obs, served_seq_b st steps obs = true <-> served_seq st steps obs.
Proof.
  induction steps as [|s r IH]; intros st obs.
  - destruct obs; cbn; split; intros H; try reflexivity; try exact I; try discriminate; contradiction.
  - destruct s as [k o|k m|k]; destruct obs as [|[out|ok] r']; cbn [served_seq_b served_seq];
      try (split; intros H; [discriminate|contradiction]).
    + rewrite andb_true_iff, spec_served_b_iff, IH. reflexivity.
    + apply IH.
    + apply IH.
Qed.

Lemma sequences_served steps : forall st, served_seq st steps (run_seq st steps).
Proof.
  induction steps as [|s r IH]; intros st; [exact I|].
  destruct s as [k o|k m|k]; cbn [run_seq served_seq].
  - split; [apply served_sound|apply IH].
  - apply IH.
  - apply IH.
Qed.

(* a role or endpoint that only a shadowed, same-entityID descriptor of a later source has is never a destination:
   if the source that serves the requester does not give it the SP role, an AuthnRequest is refused *)
Lemma shadowed_role_refused m s etype prefs req bindings descr :
  first_with (requester req) m = Some s -> rq_class req = MAuthn -> bindings <> [B_SOAP] ->
  (forall ep, ~ publishes [s] (requester req) R_SP S_ACS ep) ->
  no_destination (response_args m etype prefs req bindings descr).
Proof.
  intros Hf Hc Hb Hno.
  pose proof (first_source_sound m s (OpAnswer etype prefs req bindings descr) (requester req) eq_refl Hf) as H.
  cbn [run_op spec] in H. destruct (response_args m etype prefs req bindings descr) as [b [d|]| | | | |e];
    cbn [no_destination answer_spec] in *; try exact I; try contradiction.
  destruct H as [[H1 _]|[svc [typ [ep [Hs [Hp _]]]]]]; [contradiction|].
  rewrite Hc in Hs. cbn [answer_service] in Hs. inversion Hs. subst svc typ. exact (Hno ep Hp).
Qed.
