(* C08/Source2.v — source tie, translator v2.  The functions below are re-translated from the CURRENT source
   text on every run (coq/gen/C08Src2.v, harness/py2coq2.py); each theorem says, for ALL inputs of the model's
   domain, that the translated function applied to the encoded input is the encoded output of the model
   function that mirrors it (exceptions included).  External calls are Section variables with hypotheses.

     src2_store_service      ~ Model.store_service   (MetadataStore.service: first source that has the entity)
     src2_store_ext_service  ~ Model.store_first     (MetadataStore.ext_service: falls through) / store_disco
     src2_pick_binding       ~ Model.pick_binding    (Entity.pick_binding, whole function)
     src2_response_args      ~ Model.response_args   (Entity.response_args, whole function)
     src2_sso_location       ~ Model.sso_location    (Base._sso_location; not the "too many IdPs" raise) *)
From Coq Require Import String Ascii List Bool ZArith Lia.
From Verif Require Import Base.Str Base.Py Base.Py2 C08.Model.
From VerifGen Require Import C08Src2.
Import ListNotations.
Open Scope string_scope.
Set Default Timeout 20.

(* ================================================================== encodings *)
Definition enc_ostr (o : option string) : pyval := match o with Some s => PStr s | None => PNone end.

(* an endpoint element as mdstore keeps it: a dict (to_dict); absent attributes are absent keys *)
Definition enc_ep (e : endpoint) : pyval :=
  PObj ([("binding", PStr (ep_binding e)); ("location", PStr (ep_location e))]
        ++ match ep_index e with Some i => [("index", PStr i)] | None => [] end
        ++ match ep_resp e with Some r => [("response_location", PStr r)] | None => [] end)%list.

Definition err_name (e : err) : string :=
  match e with
  | EUnknownEntity => "UnknownSystemEntity" | EUnsupported => "UnsupportedBinding" | ESaml => "SAMLError"
  | EKey => "KeyError" | EAttr => "AttributeError" | EIdpUnspecified => "IdpUnspecified"
  | ESignOn => "SignOnError" | EValue => "ValueError" | EOther => "Exception"
  end.

Definition enc_sres {A} (enc : A -> pyval) (r : sres A) : pyval :=
  match r with
  | Found l => PList (map enc l)
  | Unsupported => PExc "UnsupportedBinding"
  | Unknown => PExc "UnknownSystemEntity"
  end.

Lemma enc_ostr_good o : is_bad (enc_ostr o) = false.
Proof. destruct o; reflexivity. Qed.
Lemma enc_ep_good e : is_bad (enc_ep e) = false.
Proof. reflexivity. Qed.

(* ------------------------------------------------------------------ the store: self.metadata *)
(* MetadataStore.metadata: dict source key -> source; a source is encoded by the dict of its entities
   (InMemoryMetaData.__getitem__ is self.entity[item]); the keys only have to be str *)
Fixpoint tally (n : nat) : string := match n with O => "" | S k => String "|"%char (tally k) end.
Definition enc_source (s : source) : pyval := PObj (map (fun p => (fst p, PStr "entity")) s).
Fixpoint enc_srcs (n : nat) (m : md) : list (string * pyval) :=
  match m with
  | [] => []
  | s :: r => ("src" ++ tally n, enc_source s) :: enc_srcs (S n) r
  end.
Definition enc_store (m : md) : pyval :=
  PObj [("__class__", PStr "MetadataStore"); ("metadata", PObj (enc_srcs 0 m))].

(* no source lists an entity under the reserved key (the embedding tells objects from dicts by it) *)
Definition plain_source (s : source) : Prop := match s with (k, _) :: _ => k <> "__class__" | [] => True end.

Lemma enc_srcs_dict n m : is_obj (enc_srcs n m) = false.
Proof. destruct m; reflexivity. Qed.

Lemma enc_source_dict s : plain_source s -> is_obj (map (fun p : string * entity => (fst p, PStr "entity")) s) = false.
Proof. destruct s as [|[k e] r]; [reflexivity|]. cbn. intros H. apply String.eqb_neq. exact H. Qed.

Lemma assoc_enc_source eid s :
  assoc_py eid (map (fun p : string * entity => (fst p, PStr "entity")) s)
  = if has_entity eid s then Some (PStr "entity") else None.
Proof.
  unfold has_entity. induction s as [|[k e] r IH]; [reflexivity|]. cbn [map fst assoc_py assoc].
  rewrite String.eqb_sym. destruct (String.eqb k eid); [reflexivity|exact IH].
Qed.

Definition item_of (n : nat) (s : source) : pyval := PList [PStr ("src" ++ tally n); enc_source s].
Fixpoint items_from (n : nat) (m : md) : list pyval :=
  match m with [] => [] | s :: r => item_of n s :: items_from (S n) r end.

Lemma store_items m :
  p2_items (p2_attr (enc_store m) "metadata") = PList (items_from 0 m).
Proof.
  change (p2_attr (enc_store m) "metadata") with (PObj (enc_srcs 0 m)).
  unfold p2_items, dict_view. rewrite s1_good by reflexivity. rewrite enc_srcs_dict. f_equal.
  generalize 0%nat. induction m as [|s r IH]; intros n; [reflexivity|]. cbn [enc_srcs map items_from fst snd].
  rewrite IH. reflexivity.
Qed.

(* ================================================================== MetadataStore.service *)
Section StoreService.
  Variables (m : md) (eid typ svc : string) (ob : option string).
  Variable md_service : pyval -> pyval -> pyval -> pyval -> pyval -> pyval.
  Definition keep_ob : endpoint -> bool := match ob with Some b => has_binding b | None => fun _ => true end.
  (* _md.service(entity_id, typ, service, binding) (InMemoryMetaData.service): None when the source has no
     descriptor of that role for the entity, else the endpoints of the service with the binding (binding None:
     all of them, grouped by binding - the grouping is passed through untouched and is not modelled here) *)
  Hypothesis md_service_ok : forall s, In s m ->
    md_service (enc_source s) (PStr eid) (PStr typ) (PStr svc) (enc_ostr ob)
    = match src_service typ svc eid s with
      | None => PNone
      | Some l => PList (map enc_ep (filter keep_ob l))
      end.
  Hypothesis sources_plain : forall s, In s m -> plain_source s.

  Definition ctl_store (c : ctl2) : pyval :=
    match c with
    | NextS [_; _; k] | BrkS [_; _; k] =>
        match p2_branch k with
        | BTrue => PExc "UnsupportedBinding" | BFalse => PExc "UnknownSystemEntity" | BExc n => PExc n | BErr => PErr
        end
    | RetS r => r
    | ExcS n [_; _; _] => PExc n
    | _ => PErr
    end.

  Theorem src2_store_service_is_model :
    src2_store_service md_service (enc_store m) (PStr eid) (PStr typ) (PStr svc) (enc_ostr ob)
    = enc_sres enc_ep (store_service m eid typ svc ob).
  Proof.
    unfold src2_store_service. cbv zeta. rewrite store_items, p2_iter_check_list. cbn [py_bind py_iter2].
    match goal with |- context [pyfor2 _ _ ?B] => set (body := B) end.
    assert (Hob : is_bad (enc_ostr ob) = false) by (destruct ob; reflexivity).
    assert (Hloop : forall l n a b, (forall s, In s l -> In s m) ->
              ctl_store (pyfor2 (items_from n l) [a; b; PBool false] body)
              = enc_sres enc_ep (store_service l eid typ svc ob)).
    { induction l as [|s r IH]; intros n a b Hin; [reflexivity|].
      cbn [items_from pyfor2]. unfold body at 1. unfold item_of at 1. cbn [p2_unpack length Nat.eqb].
      unfold enc_source at 1. rewrite p2_getitem_dict by (apply enc_source_dict, sources_plain, Hin; left; reflexivity).
      rewrite assoc_enc_source. unfold store_service. cbn [first_with].
      destruct (has_entity eid s) eqn:Hh.
      - rewrite py_bindS_good by reflexivity. rewrite !py_bind_good by (exact Hob || reflexivity).
        rewrite (md_service_ok s) by (apply Hin; left; reflexivity).
        fold keep_ob. destruct (src_service typ svc eid s) as [l0|].
        + destruct (filter keep_ob l0) as [|e0 l1] eqn:Hf.
          * cbn [map]. rewrite py_bindS_good by reflexivity. reflexivity.
          * cbn [map]. rewrite py_bindS_good by reflexivity. rewrite p2_branch_good by reflexivity.
            cbn [py_truthy]. rewrite py_bindS_good by reflexivity. reflexivity.
        + rewrite py_bindS_good by reflexivity. reflexivity.
      - cbn [py_bindS p2_bind]. change (exc_matches "KeyError" ["KeyError"]) with true. cbv iota.
        rewrite (IH (S n) a b) by (intros s' Hs'; apply Hin; right; exact Hs'). reflexivity. }
    rewrite <- (Hloop m 0%nat PErr PErr (fun s H => H)).
    generalize (pyfor2 (items_from 0 m) [PErr; PErr; PBool false] body). intros c.
    destruct ob; destruct c as [st|st|r|n st]; try reflexivity;
      destruct st as [|x1 [|x2 [|x3 [|x4 st]]]]; reflexivity.
  Qed.
End StoreService.

(* ================================================================== MetadataStore.ext_service *)
Section StoreExtService.
  Context {A : Type} (enc : A -> pyval).
  Variables (m : md) (eid typ svc : string) (ob : option string).
  Variables (get : source -> option (list A)) (keep : A -> bool).
  Variable md_ext_service : pyval -> pyval -> pyval -> pyval -> pyval -> pyval.
  (* _md.ext_service(entity_id, typ, service, binding) (InMemoryMetaData.ext_service): None when the source has
     no descriptor of that role for the entity, else the extension elements of that class with the binding *)
  Hypothesis md_ext_service_ok : forall s, In s m ->
    md_ext_service (enc_source s) (PStr eid) (PStr typ) (PStr svc) (enc_ostr ob)
    = match get s with
      | None => PNone
      | Some l => PList (map enc (filter keep l))
      end.

  Definition ctl_ext (c : ctl2) : pyval :=
    match c with
    | NextS [_; k] =>
        match p2_branch k with
        | BTrue => PExc "UnsupportedBinding" | BFalse => PExc "UnknownSystemEntity" | BExc n => PExc n | BErr => PErr
        end
    | RetS r => r
    | ExcS n [_; _] => PExc n
    | _ => PErr
    end.

  Theorem src2_store_ext_service_is_model :
    src2_store_ext_service md_ext_service (enc_store m) (PStr eid) (PStr typ) (PStr svc) (enc_ostr ob)
    = enc_sres enc (store_first get keep m false).
  Proof.
    unfold src2_store_ext_service. cbv zeta. rewrite store_items, p2_iter_check_list. cbn [py_bind py_iter2].
    match goal with |- context [pyfor2 _ _ ?B] => set (body := B) end.
    assert (Hob : is_bad (enc_ostr ob) = false) by (destruct ob; reflexivity).
    assert (Hloop : forall l n a known, (forall s, In s l -> In s m) ->
              ctl_ext (pyfor2 (items_from n l) [a; PBool known] body)
              = enc_sres enc (store_first get keep l known)).
    { induction l as [|s r IH]; intros n a known Hin; [destruct known; reflexivity|].
      cbn [items_from pyfor2]. unfold body at 1. unfold item_of at 1. cbn [p2_unpack length Nat.eqb].
      rewrite !py_bind_good by (exact Hob || reflexivity).
      rewrite (md_ext_service_ok s) by (apply Hin; left; reflexivity).
      cbn [store_first]. destruct (get s) as [l0|].
      - destruct (filter keep l0) as [|e0 l1] eqn:Hf.
        + cbn [map]. rewrite py_bindS_good by reflexivity. rewrite p2_branch_good by reflexivity. cbn [py_truthy].
          rewrite p2_is_none_good by reflexivity. rewrite p2_branch_bool. cbv iota.
          apply IH. intros s' Hs'. apply Hin. right. exact Hs'.
        + cbn [map]. rewrite py_bindS_good by reflexivity. rewrite p2_branch_good by reflexivity. cbn [py_truthy].
          rewrite py_bindS_good by reflexivity. reflexivity.
      - rewrite py_bindS_good by reflexivity. rewrite p2_branch_good by reflexivity. cbn [py_truthy].
        rewrite p2_is_none_good by reflexivity. rewrite p2_branch_bool. cbv iota.
        apply IH. intros s' Hs'. apply Hin. right. exact Hs'. }
    rewrite <- (Hloop m 0%nat PErr false (fun s H => H)).
    generalize (pyfor2 (items_from 0 m) [PErr; PBool false] body). intros c.
    destruct ob; destruct c as [st|st|r|n st]; try reflexivity;
      destruct st as [|x1 [|x2 [|x3 st]]]; reflexivity.
  Qed.
End StoreExtService.

(* the instance the discovery service uses: MetadataStore.discovery_response -> ext_service(entity_id,
   "spsso_descriptor", <DiscoveryResponse class>, BINDING_DISCO) is Model.store_disco *)
Definition enc_disco (loc : string) : pyval := PObj [("binding", PStr B_DISCO); ("location", PStr loc)].

Corollary src2_store_ext_service_disco : forall m eid cls (md_ext_service : pyval -> pyval -> pyval -> pyval -> pyval -> pyval),
  (forall s, In s m ->
     md_ext_service (enc_source s) (PStr eid) (PStr R_SP) (PStr cls) (PStr B_DISCO)
     = match src_disco B_DISCO eid s with None => PNone | Some l => PList (map enc_disco l) end) ->
  src2_store_ext_service md_ext_service (enc_store m) (PStr eid) (PStr R_SP) (PStr cls) (PStr B_DISCO)
  = enc_sres enc_disco (store_disco m eid).
Proof.
  intros m eid cls f H. unfold store_disco.
  apply (src2_store_ext_service_is_model enc_disco m eid R_SP cls (Some B_DISCO)
           (src_disco B_DISCO eid) (fun _ => true) f).
  intros s Hs. cbn [enc_ostr]. rewrite (H s Hs). destruct (src_disco B_DISCO eid s) as [l|]; [|reflexivity].
  f_equal. f_equal. induction l as [|a r IH]; [reflexivity|]. cbn [filter]. f_equal. exact IH.
Qed.

(* ================================================================== outcomes *)
Definition enc_out (o : outcome) : pyval :=
  match o with
  | Dest b d => PList [PStr b; enc_ostr d]        (* pick_binding: the tuple (binding, destination) *)
  | Loc d => enc_ostr d                           (* _sso_location: the location, or None *)
  | Fail e => PExc (err_name e)
  | _ => PErr
  end.

Definition first_or (d : pyval) (l : list pyval) : pyval := match l with x :: _ => x | [] => d end.

Lemma first_or_strs l : first_or PNone (map PStr l) = enc_ostr (hd_error l).
Proof. destruct l; reflexivity. Qed.

(* ================================================================== Base._sso_location *)
Section SsoLocation.
  Variables (m : md) (b : string).
  Variables (sso_service : pyval -> pyval -> pyval) (with_descriptor_ locations_ : pyval -> pyval)
            (next_ : pyval -> pyval -> pyval).
  (* self.metadata.single_sign_on_service(entity, binding) = service(entity, "idpsso_descriptor",
     "single_sign_on_service", binding), see src2_store_service_is_model *)
  Hypothesis sso_service_ok : forall e,
    sso_service (PStr e) (PStr b) = enc_sres enc_ep (store_service m e R_IDP S_SSO (Some b)).
  (* self.metadata.with_descriptor("idpsso"): a dict keyed by entity id *)
  Hypothesis with_descriptor_ok :
    with_descriptor_ (PStr "idpsso") = PObj (map (fun e => (e, PStr "entity")) (with_idp m)).
  Hypothesis idp_ids_plain : match with_idp m with e :: _ => e <> "__class__" | [] => True end.
  (* mdstore.locations(srvs) and the builtin next(iterator, default) *)
  Hypothesis locations_ok : forall l, locations_ (PList (map enc_ep l)) = PList (map PStr (locations l)).
  Hypothesis next_ok : forall l d, next_ (PList l) d = first_or d l.

  Lemma sso_of_src e :
    py_bind (sso_service (PStr e) (PStr b)) (fun v_srvs =>
      match p2_branch v_srvs with
      | BTrue => py_bind (py_bind v_srvs (fun a => locations_ a)) (fun a => next_ a PNone)
      | BFalse => PExc "IdpUnspecified"
      | BExc n => PExc n
      | BErr => PErr
      end) = enc_out (sso_of m e b).
  Proof.
    rewrite sso_service_ok. unfold sso_of.
    destruct (store_service m e R_IDP S_SSO (Some b)) as [l| |] eqn:Hs; [|reflexivity|reflexivity].
    assert (Hne : l <> []).
    { unfold store_service in Hs. destruct (first_with e m); [|discriminate].
      destruct (src_service R_IDP S_SSO e s); [|discriminate].
      destruct (filter (has_binding b) l0); [discriminate|]. inversion Hs. discriminate. }
    cbn [enc_sres]. rewrite py_bind_good by reflexivity. rewrite p2_branch_good by reflexivity.
    destruct l as [|e0 l]; [contradiction|]. cbn [map py_truthy].
    rewrite (py_bind_good (PList _)) by reflexivity. change (enc_ep e0 :: map enc_ep l) with (map enc_ep (e0 :: l)).
    rewrite locations_ok. rewrite py_bind_good by reflexivity. rewrite next_ok. cbn [enc_out]. apply first_or_strs.
  Qed.

  (* every path except the "Too many IdPs to choose from" raise: its message formats the dict of IdPs, which
     the embedding refuses (str of a dict); so: an entity id is given, or the store describes at most one IdP *)
  Theorem src2_sso_location_is_model : forall eid,
    (truthy eid = None -> (length (with_idp m) <= 1)%nat) ->
    src2_sso_location sso_service with_descriptor_ locations_ next_ (PStr "self") (enc_ostr eid) (PStr b)
    = enc_out (sso_location m eid b).
  Proof.
    intros eid Hfew. unfold src2_sso_location. cbv zeta. unfold sso_location.
    assert (Hsole : truthy eid = None ->
      py_bind (with_descriptor_ (PStr "idpsso")) (fun v_eids =>
        match p2_branch (p2_gt (p2_len v_eids) (PInt 1)) with
        | BTrue => py_bind (p2_fconcat [PStr "Too many IdPs to choose from: "; p2_str v_eids]) (fun _ => PExc "IdpUnspecified")
        | BFalse =>
            let h_1 := fun (n_1 : string) (_ : pyval) => if exc_matches n_1 ["IndexError"] then PExc "IdpUnspecified" else PExc n_1 in
            py_bindh (fun n_8 => h_1 n_8 PErr)
              (py_bind (p2_getitem (p2_list (p2_keys v_eids)) (PInt 0)) (fun a_2 => py_bind (PStr b) (fun a_3 => sso_service a_2 a_3)))
              (fun v_srvs => py_bindh (fun n_7 => h_1 n_7 v_srvs)
                               (py_bind (py_bind v_srvs (fun a_4 => locations_ a_4)) (fun a_5 => next_ a_5 PNone)) (fun r_6 => r_6))
        | BExc n_10 => PExc n_10
        | BErr => PErr
        end) = enc_out (match with_idp m with [e] => sso_of m e b | _ => Fail EIdpUnspecified end)).
    { intros Hn. specialize (Hfew Hn). rewrite with_descriptor_ok. rewrite py_bind_good by reflexivity.
      destruct (with_idp m) as [|e [|e2 r]]; cbn [length] in Hfew; [| |lia].
      - reflexivity.
      - cbn [map]. assert (Hd : is_obj [(e, PStr "entity")] = false) by (cbn; apply String.eqb_neq; exact idp_ids_plain).
        rewrite p2_len_dict by exact Hd. change (Z.of_nat (length [(e, PStr "entity")])) with 1%Z.
        unfold p2_keys, dict_view. rewrite s1_good by reflexivity. rewrite Hd.
        cbn [map fst]. change (p2_gt (PInt 1) (PInt 1)) with (PBool false). rewrite p2_branch_bool. cbv iota zeta.
        change (p2_getitem (p2_list (PList [PStr e])) (PInt 0)) with (PStr e).
        rewrite !(py_bind_good (PStr _)) by reflexivity.
        pose proof (sso_of_src e) as Hs. rewrite sso_service_ok in Hs |- *. unfold sso_of in Hs |- *.
        destruct (store_service m e R_IDP S_SSO (Some b)) as [l| |] eqn:Hst; [|reflexivity|reflexivity].
        cbn [enc_sres] in Hs |- *. rewrite py_bind_good in Hs by reflexivity. rewrite py_bindh_good by reflexivity.
        assert (Hne : l <> []).
        { unfold store_service in Hst. destruct (first_with e m); [|discriminate].
          destruct (src_service R_IDP S_SSO e s); [|discriminate].
          destruct (filter (has_binding b) l0); [discriminate|]. inversion Hst. discriminate. }
        destruct l as [|e0 l]; [contradiction|]. rewrite p2_branch_good in Hs by reflexivity. cbn [map py_truthy] in Hs.
        cbn [map]. rewrite <- Hs.
        rewrite (py_bind_good (PList _)) by reflexivity. change (enc_ep e0 :: map enc_ep l) with (map enc_ep (e0 :: l)).
        rewrite locations_ok. rewrite py_bind_good by reflexivity. rewrite next_ok.
        rewrite py_bindh_good; [reflexivity|]. destruct (locations (e0 :: l)); reflexivity. }
    destruct eid as [e|]; cbn [enc_ostr truthy] in *.
    - rewrite p2_branch_good by reflexivity. cbn [py_truthy]. destruct (is_empty e) eqn:He; cbn [negb].
      + exact (Hsole eq_refl).
      + rewrite !(py_bind_good (PStr _)) by reflexivity. apply sso_of_src.
    - exact (Hsole eq_refl).
  Qed.
End SsoLocation.

(* ================================================================== requests, entities *)
Definition enc_strs (l : list string) : pyval := PList (map PStr l).

(* the class of a request object, by name (samlp classes; anything else is "no support for this type of query") *)
Definition msg_class (cn : string) : msgclass :=
  if String.eqb cn "AuthnRequest" then MAuthn
  else if String.eqb cn "LogoutRequest" then MLogout
  else if String.eqb cn "AttributeQuery" then MAttrQuery
  else if String.eqb cn "ManageNameIDRequest" then MManageNameID
  else if String.eqb cn "AssertionIDRequest" || String.eqb cn "ArtifactResolve" || String.eqb cn "NameIDMappingRequest"
       then MSoapOnly
  else MOther.

(* a parsed request: only an AuthnRequest has ProtocolBinding / AssertionConsumerServiceURL / -Index attributes
   (None when the XML attribute is absent) *)
Definition enc_req (cn mid issuer : string) (url idx pb : option string) : pyval :=
  PObj ([("__class__", PStr cn); ("id", PStr mid);
         ("issuer", PObj [("__class__", PStr "Issuer"); ("text", PStr issuer)])]
        ++ (if String.eqb cn "AuthnRequest"
            then [("name_id_policy", PNone); ("protocol_binding", enc_ostr pb);
                  ("assertion_consumer_service_url", enc_ostr url); ("assertion_consumer_service_index", enc_ostr idx)]
            else []))%list.

(* the entity: self.metadata has the per-service method that is asked for, self.config.preferred_binding is the
   configured dict service -> bindings, self.entity_type *)
Definition enc_prefs (prefs : list (string * list string)) : pyval :=
  PObj (map (fun p => (fst p, enc_strs (snd p))) prefs).
Definition enc_entity (svc etype : string) (prefs : list (string * list string)) : pyval :=
  PObj [("__class__", PStr "Entity");
        ("metadata", PObj [("__class__", PStr "MetadataStore"); (svc, PStr "bound method")]);
        ("config", PObj [("__class__", PStr "Config"); ("preferred_binding", enc_prefs prefs)]);
        ("entity_type", PStr etype)].

Lemma isinstance_req cn mid issuer url idx pb c :
  p2_isinstance (enc_req cn mid issuer url idx pb) [] [c] = PBool (String.eqb cn c).
Proof. cbn. rewrite orb_false_r. reflexivity. Qed.

Lemma eq_strs_single l s : p2_eq (enc_strs l) (p2_mklist [PStr s]) = PBool (list_eqb String.eqb l [s]).
Proof.
  destruct l as [|x [|y r]]; cbn; try reflexivity.
  - destruct (String.eqb x s); reflexivity.
  - destruct (String.eqb x s); reflexivity.
Qed.

(* ================================================================== Entity.response_args *)
(* what response_args returns: the dict info; the model's outcome says whether / which binding and destination
   were put into it *)
Definition info_base (cn mid issuer : string) : list (string * pyval) :=
  ("in_response_to", PStr mid)
  :: (if String.eqb cn "AuthnRequest" then [("sp_entity_id", PStr issuer); ("name_id_policy", PNone)]
      else if String.eqb cn "AttributeQuery" then [("sp_entity_id", PStr issuer)] else []).
Definition enc_info (cn mid issuer : string) (o : outcome) : pyval :=
  match o with
  | Dest b d => PObj (info_base cn mid issuer ++ [("binding", PStr b); ("destination", enc_ostr d)])%list
  | NoDest => PObj (info_base cn mid issuer)
  | Fail e => PExc (err_name e)
  | _ => PErr
  end.

Section ResponseArgs.
  Variables (m : md) (svc0 etype : string) (prefs : list (string * list string)) (bindings : list string).
  Variables (cn mid issuer : string) (url idx pb : option string).
  Variable pick_binding_ : pyval -> pyval -> pyval -> pyval -> pyval.
  Definition ra_req : request := Req (msg_class cn) issuer url idx pb.
  Definition ra_msg : pyval := enc_req cn mid issuer url idx pb.
  (* self.pick_binding(rsrv, bindings, descr_type=descr_type, request=message), see src2_pick_binding_is_model *)
  Hypothesis pick_binding_ok : forall rsrv descr,
    pick_binding_ (PStr rsrv) (enc_strs bindings) (PStr descr) ra_msg
    = enc_out (pick_binding m etype prefs rsrv bindings descr (Some ra_req) "").

  Lemma pick_result_shape rsrv descr :
    match pick_binding m etype prefs rsrv bindings descr (Some ra_req) "" with
    | Dest _ _ | Fail _ => True | _ => False end.
  Proof.
    unfold pick_binding. destruct (effective_bindings prefs rsrv bindings (Some ra_req)) as [bs|e]; [|exact I].
    generalize (pb_eid (Some ra_req) ""), (typ_of rsrv (pb_descr etype descr)), (fst (pb_ui (Some ra_req) rsrv)),
      (snd (pb_ui (Some ra_req) rsrv)). intros eid typ u i.
    induction bs as [|b r IH]; cbn [pick_loop]; [exact I|].
    destruct (store_service m eid typ rsrv (Some b)); [|exact IH|exact I].
    destruct u as [u|]; [destruct (scan_url l u); [exact I|exact IH]|].
    destruct i as [i|]; [|exact I]. destruct (scan_index l i); [exact I|exact IH|exact I].
  Qed.

  (* the common tail: SOAP short-cut, else pick_binding when a service was selected *)
  Ltac ra_setitems := repeat (rewrite p2_setitem_dict by (reflexivity || discriminate); rewrite py_bind_good by reflexivity).
  Ltac ra_pick rsrv d :=
    rewrite (py_bind_good (PStr _)) by reflexivity; rewrite (py_bind_good (enc_strs _)) by reflexivity;
    rewrite (py_bind_good (PStr _)) by reflexivity; rewrite (py_bind_good ra_msg) by reflexivity;
    rewrite (pick_binding_ok rsrv d);
    pose proof (pick_result_shape rsrv d) as Hshape;
    destruct (pick_binding m etype prefs rsrv bindings d (Some ra_req) "") as [b0 d0| | | | |e0]; try contradiction;
    [destruct d0; reflexivity|reflexivity].

  Ltac cn_is E :=
    let H := fresh "Hcn" in
    pose proof E as H; apply String.eqb_eq in H; try rewrite H; cbn [String.eqb Ascii.eqb Bool.eqb]; cbv iota.
  (* LogoutRequest / ManageNameIDRequest: the descriptor type is the caller's, else the peer role of the entity type *)
  Ltac ra_by_descr rsrv descr :=
    destruct (list_eqb String.eqb bindings ["urn:oasis:names:tc:SAML:2.0:bindings:SOAP"]);
    [ra_setitems; reflexivity|];
    cbn [p2_branch py_truthy is_empty negb]; unfold pb_descr, default_descr;
    destruct (is_empty descr) eqn:Hd; cbn [negb]; cbv iota;
    [destruct (String.eqb etype "sp") eqn:Het; cbv iota;
     [ra_pick rsrv "idpsso"|ra_pick rsrv "spsso"]
    |ra_pick rsrv descr].

  Theorem src2_response_args_is_model : forall descr,
    src2_response_args pick_binding_ (enc_entity svc0 etype prefs) ra_msg (enc_strs bindings) (PStr descr)
    = enc_info cn mid issuer (response_args m etype prefs ra_req bindings descr).
  Proof.
    intros descr. unfold src2_response_args. cbv zeta.
    change (p2_attr ra_msg "id") with (PStr mid). rewrite p2_mkdict_good by reflexivity. rewrite py_bind_good by reflexivity.
    unfold ra_msg. rewrite !isinstance_req. fold ra_msg.
    change (p2_attr (enc_entity svc0 etype prefs) "entity_type") with (PStr etype). rewrite !p2_eq_str.
    rewrite !eq_strs_single. rewrite !p2_not_good by reflexivity. cbn [py_truthy].
    unfold response_args, answer_with, enc_info, info_base. cbn [rq_class ra_req]. unfold msg_class.
    change (list_eqb String.eqb bindings [B_SOAP]) with (list_eqb String.eqb bindings ["urn:oasis:names:tc:SAML:2.0:bindings:SOAP"]).
    rewrite !p2_branch_bool.
    destruct (String.eqb cn "AuthnRequest") eqn:E1.
    { change (p2_attr (p2_attr ra_msg "issuer") "text") with (PStr issuer).
      assert (Hnip : p2_attr ra_msg "name_id_policy" = PNone) by (unfold ra_msg, enc_req; rewrite E1; reflexivity).
      rewrite Hnip.
      rewrite py_bind_good by reflexivity. ra_setitems. rewrite py_bind_good by reflexivity. ra_setitems.
      destruct (list_eqb String.eqb bindings ["urn:oasis:names:tc:SAML:2.0:bindings:SOAP"]).
      - ra_setitems. reflexivity.
      - unfold S_ACS. cbn [p2_branch py_truthy is_empty negb]. unfold pb_descr. cbn [is_empty]. ra_pick "assertion_consumer_service" "spsso". }
    cbv iota.
    destruct (String.eqb cn "LogoutRequest") eqn:E2.
    { cn_is E2. unfold S_SLO. ra_by_descr "single_logout_service" descr. }
    cbv iota.
    destruct (String.eqb cn "AttributeQuery") eqn:E3.
    { change (p2_attr (p2_attr ra_msg "issuer") "text") with (PStr issuer).
      rewrite py_bind_good by reflexivity. ra_setitems.
      destruct (list_eqb String.eqb bindings ["urn:oasis:names:tc:SAML:2.0:bindings:SOAP"]).
      - ra_setitems. reflexivity.
      - unfold S_ATTRC. cbn [p2_branch py_truthy is_empty negb]. unfold pb_descr. cbn [is_empty]. ra_pick "attribute_consuming_service" "spsso". }
    cbv iota.
    destruct (String.eqb cn "ManageNameIDRequest") eqn:E4.
    { cn_is E4. unfold S_MNI. ra_by_descr "manage_name_id_service" descr. }
    cbv iota.
    destruct (String.eqb cn "AssertionIDRequest") eqn:E5; cbn [orb].
    { destruct (list_eqb String.eqb bindings ["urn:oasis:names:tc:SAML:2.0:bindings:SOAP"]); [ra_setitems|]; reflexivity. }
    cbv iota.
    destruct (String.eqb cn "ArtifactResolve") eqn:E6; cbn [orb].
    { destruct (list_eqb String.eqb bindings ["urn:oasis:names:tc:SAML:2.0:bindings:SOAP"]); [ra_setitems|]; reflexivity. }
    cbv iota.
    destruct (String.eqb cn "NameIDMappingRequest") eqn:E7.
    { destruct (list_eqb String.eqb bindings ["urn:oasis:names:tc:SAML:2.0:bindings:SOAP"]); [ra_setitems|]; reflexivity. }
    reflexivity.
  Qed.
End ResponseArgs.

(* ================================================================== Entity.pick_binding *)
(* reading the endpoint dicts *)
Lemma getitem_location ep : p2_getitem (enc_ep ep) (PStr "location") = PStr (ep_location ep).
Proof. destruct ep as [b l [i|] [r|]]; reflexivity. Qed.
Lemma getitem_index ep :
  p2_getitem (enc_ep ep) (PStr "index") = match ep_index ep with Some i => PStr i | None => PExc "KeyError" end.
Proof. destruct ep as [b l [i|] [r|]]; reflexivity. Qed.

(* for srv in srvs: if srv["location"] == _url: return binding, _url *)
Fixpoint url_st (l : list endpoint) (s : pyval) : pyval :=
  match l with [] => s | ep :: r => url_st r (enc_ep ep) end.
Lemma url_loop (B : list pyval -> pyval -> ctl2) b u :
  (forall s ep, B [s] (enc_ep ep)
                = if String.eqb (ep_location ep) u then RetS (PList [PStr b; PStr u]) else NextS [enc_ep ep]) ->
  forall l s, pyfor2 (map enc_ep l) [s] B
              = if scan_url l u then RetS (PList [PStr b; PStr u]) else NextS [url_st l s].
Proof.
  intros HB. induction l as [|ep r IH]; intros s; [reflexivity|].
  cbn [map pyfor2 scan_url existsb url_st]. rewrite HB. destruct (String.eqb (ep_location ep) u); cbn [orb]; [reflexivity|].
  fold (scan_url r u). apply IH.
Qed.

(* for srv in srvs: if srv["index"] == _index: return binding, srv["location"]   (KeyError: no index) *)
Fixpoint idx_st (l : list endpoint) (s : pyval) (i : string) : pyval :=
  match l with
  | [] => s
  | ep :: r => match ep_index ep with
               | None => enc_ep ep
               | Some j => if String.eqb j i then enc_ep ep else idx_st r (enc_ep ep) i
               end
  end.
Lemma idx_loop (B : list pyval -> pyval -> ctl2) b i :
  (forall s ep, B [s] (enc_ep ep)
                = match ep_index ep with
                  | None => ExcS "KeyError" [enc_ep ep]
                  | Some j => if String.eqb j i then RetS (PList [PStr b; PStr (ep_location ep)]) else NextS [enc_ep ep]
                  end) ->
  forall l s, pyfor2 (map enc_ep l) [s] B
              = match scan_index l i with
                | Hit loc => RetS (PList [PStr b; PStr loc])
                | Miss => NextS [idx_st l s i]
                | Crash => ExcS "KeyError" [idx_st l s i]
                end.
Proof.
  intros HB. induction l as [|ep r IH]; intros s; [reflexivity|].
  cbn [map pyfor2 scan_index idx_st]. rewrite HB. destruct (ep_index ep) as [j|]; [|reflexivity].
  destruct (String.eqb j i); [reflexivity|]. apply IH.
Qed.

Lemma found_nonempty m eid typ svc ob l : store_service m eid typ svc ob = Found l -> l <> [].
Proof.
  unfold store_service. destruct (first_with eid m); [|discriminate]. destruct (src_service typ svc eid s); [|discriminate].
  destruct (filter _ l0); [discriminate|]. intros H. inversion H. discriminate.
Qed.

Lemma attr_x_pb cn mid issuer url idx pb :
  p2_attr_x (enc_req cn mid issuer url idx pb) "protocol_binding"
  = if String.eqb cn "AuthnRequest" then enc_ostr pb else PExc "AttributeError".
Proof. unfold enc_req. destruct (String.eqb cn "AuthnRequest"); reflexivity. Qed.
Lemma req_truthy cn mid issuer url idx pb : py_truthy (enc_req cn mid issuer url idx pb) = true.
Proof. reflexivity. Qed.
Lemma branch_ostr o : p2_branch (enc_ostr o) = match truthy o with Some _ => BTrue | None => BFalse end.
Proof. destruct o as [s|]; [|reflexivity]. cbn. destruct (is_empty s); reflexivity. Qed.
Lemma truthy_some_eq o v : truthy o = Some v -> o = Some v.
Proof. destruct o as [s|]; cbn; [|discriminate]. destruct (is_empty s); [discriminate|]. intros H; inversion H; reflexivity. Qed.
Lemma assoc_prefs svc prefs :
  assoc_py svc (map (fun p : string * list string => (fst p, enc_strs (snd p))) prefs)
  = match assoc svc prefs with Some l => Some (enc_strs l) | None => None end.
Proof.
  induction prefs as [|[k v] r IH]; [reflexivity|]. cbn [map fst snd assoc_py assoc].
  rewrite String.eqb_sym. destruct (String.eqb k svc); [reflexivity|exact IH].
Qed.

Section PickBinding.
  Variables (m : md) (etype : string) (prefs : list (string * list string)) (svc : string).
  Variables (sfunc : pyval -> pyval -> pyval -> pyval) (all_locations_ : pyval -> pyval) (next_ : pyval -> pyval -> pyval).
  (* sfunc = getattr(self.metadata, service): the per-service wrapper of MetadataStore, which picks the role
     descriptor (Model.typ_of) and calls MetadataStore.service, see src2_store_service_is_model *)
  Hypothesis sfunc_ok : forall eid b descr,
    sfunc (PStr eid) (PStr b) (PStr descr) = enc_sres enc_ep (store_service m eid (typ_of svc descr) svc (Some b)).
  (* mdstore.all_locations(srvs) (a generator function) and the builtin next(iterator, default) *)
  Hypothesis all_locations_ok : forall l, all_locations_ (PList (map enc_ep l)) = PList (map PStr (all_locations svc l)).
  Hypothesis next_ok : forall l d, next_ (PList l) d = first_or d l.

  Definition pb_fin (c : ctl2) : pyval :=
    match c with
    | NextS [_; _; _] => PExc "SAMLError"
    | RetS r => r
    | ExcS n [_; _; _] => PExc n
    | _ => PErr
    end.

  (* the loop over the bindings, for any loop body that does what the translated body does in one round *)
  Definition round (eid d : string) (ru ri : option string) (b : string) (st : list pyval) : ctl2 -> Prop := fun c =>
    match store_service m eid (typ_of svc d) svc (Some b) with
    | Unknown => c = ExcS "UnknownSystemEntity" st
    | Unsupported => c = NextS st
    | Found l =>
        match truthy ru, truthy ri with
        | Some u, _ => if scan_url l u then c = RetS (PList [PStr b; PStr u]) else exists x y z, c = NextS [x; y; z]
        | None, Some i => match scan_index l i with
                          | Hit loc => c = RetS (PList [PStr b; PStr loc])
                          | Miss => exists x y z, c = NextS [x; y; z]
                          | Crash => exists x y z, c = ExcS "KeyError" [x; y; z]
                          end
        | None, None => c = RetS (PList [PStr b; enc_ostr (hd_error (all_locations svc l))])
        end
    end.

  Lemma pick_loop_src (body : list pyval -> pyval -> ctl2) eid d ru ri :
    (forall b x y z, round eid d ru ri b [x; y; z] (body [x; y; z] (PStr b))) ->
    forall bs x y z,
      pb_fin (pyfor2 (map PStr bs) [x; y; z] body)
      = enc_out (pick_loop m eid (typ_of svc d) svc (truthy ru) (truthy ri) bs).
  Proof.
    intros Hb. induction bs as [|b r IH]; intros x y z; [reflexivity|].
    cbn [map pyfor2 pick_loop]. specialize (Hb b x y z). unfold round in Hb.
    destruct (store_service m eid (typ_of svc d) svc (Some b)) as [l| |].
    - destruct (truthy ru) as [u|].
      + destruct (scan_url l u); [rewrite Hb; reflexivity|]. destruct Hb as [x' [y' [z' ->]]]. apply IH.
      + destruct (truthy ri) as [i|].
        * destruct (scan_index l i) as [loc| |]; [rewrite Hb; reflexivity| |].
          -- destruct Hb as [x' [y' [z' ->]]]. apply IH.
          -- destruct Hb as [x' [y' [z' ->]]]. reflexivity.
        * rewrite Hb. reflexivity.
    - rewrite Hb. apply IH.
    - rewrite Hb. reflexivity.
  Qed.

  (* the request as pick_binding gets it: None, or a parsed request of class cn *)
  Definition enc_oreq (r : option (string * string * string * option string * option string * option string)) : pyval :=
    match r with
    | None => PNone
    | Some (cn, mid, issuer, url, idx, pb) => enc_req cn mid issuer url idx pb
    end.
  Definition model_req (r : option (string * string * string * option string * option string * option string)) : option request :=
    match r with
    | None => None
    | Some (cn, mid, issuer, url, idx, pb) => Some (Req (msg_class cn) issuer url idx pb)
    end.
  (* getattr(request, service + "_url" / "_index", None) before the truth test *)
  Definition raw_ui (r : option request) : option string * option string :=
    match r with
    | Some q => if is_authn (rq_class q) && String.eqb svc S_ACS then (rq_url q, rq_index q) else (None, None)
    | None => (None, None)
    end.

  Hypothesis svc_name_ok : dyn_name_ok svc = true.
  Hypothesis prefs_plain : match prefs with (k, _) :: _ => k <> "__class__" | [] => True end.

  Theorem src2_pick_binding_gen : forall bindings descr req entity_id,
    (* service + "_url", service + "_index" are read off the request as the model says *)
    p2_getattr3_dyn (enc_oreq req) (p2_fconcat [p2_str (PStr svc); PStr "_url"]) PNone = enc_ostr (fst (raw_ui (model_req req))) ->
    p2_getattr3_dyn (enc_oreq req) (p2_fconcat [p2_str (PStr svc); PStr "_index"]) PNone = enc_ostr (snd (raw_ui (model_req req))) ->
    (* the issuer, stripped, is not cut inside a non-ASCII character (str.strip is modelled for ASCII white space) *)
    (forall q, model_req req = Some q -> end_ascii (strip (rq_issuer q)) = true) ->
    src2_pick_binding sfunc all_locations_ next_ (enc_entity svc etype prefs) (PStr svc) (enc_strs bindings) (PStr descr)
                      (enc_oreq req) (PStr entity_id)
    = enc_out (pick_binding m etype prefs svc bindings descr (model_req req) entity_id).
  Proof.
    intros bindings descr req entity_id Hurl Hidx Hiss. unfold src2_pick_binding.
    cbv zeta.
    set (ru := fst (raw_ui (model_req req))) in *. set (ri := snd (raw_ui (model_req req))) in *.
    assert (Hui : pb_ui (model_req req) svc = (truthy ru, truthy ri)).
    { unfold ru, ri, raw_ui, pb_ui. destruct (model_req req) as [q|]; [|reflexivity].
      destruct (is_authn (rq_class q) && String.eqb svc S_ACS); reflexivity. }
    clearbody ru ri.
    (* ---- k_45: everything after entity_id is known *)
    match goal with
    | |- match _ with BTrue => _ | BFalse => ?K | BExc n => _ | BErr => _ end = _ =>
        let K' := eval pattern (PStr entity_id) in K in
        match K' with ?F _ => set (F45 := F) end
    end.
    assert (H45 : forall eid, F45 (PStr eid)
              = enc_out (match effective_bindings prefs svc bindings (model_req req) with
                         | inr e => Fail e
                         | inl bs => pick_loop m eid (typ_of svc (pb_descr etype descr)) svc (truthy ru) (truthy ri) bs
                         end)).
    { intros eid. unfold F45. cbv beta. clear F45.
      assert (Hm : p2_getattr_dyn true (p2_attr_x (enc_entity svc etype prefs) "metadata") (PStr svc) = PStr "bound method").
      { change (p2_attr_x (enc_entity svc etype prefs) "metadata")
          with (PObj [("__class__", PStr "MetadataStore"); (svc, PStr "bound method")]).
        unfold p2_getattr_dyn. rewrite s2_good by reflexivity. rewrite svc_name_ok. cbn.
        assert (Hc : String.eqb svc "__class__" = false).
        { destruct (String.eqb svc "__class__") eqn:E; [|reflexivity]. apply String.eqb_eq in E. rewrite E in svc_name_ok. discriminate. }
        rewrite Hc, String.eqb_refl. reflexivity. }
      rewrite Hm, py_bind_good by reflexivity.
      (* ---- k_43: everything after the bindings are known *)
      match goal with
      | |- match _ with BTrue => _ | BFalse => ?K | BExc n => _ | BErr => _ end = _ =>
          let K' := eval pattern (enc_strs bindings) in K in
          match K' with ?F _ => set (F43 := F) end
      end.
      assert (H43 : forall bs, F43 (enc_strs bs)
                = enc_out (pick_loop m eid (typ_of svc (pb_descr etype descr)) svc (truthy ru) (truthy ri) bs)).
      { intros bs. unfold F43. cbv beta. clear F43.
        (* ---- k_40: everything after the descriptor type is known *)
        match goal with
        | |- match _ with BTrue => _ | BFalse => ?K | BExc n => _ | BErr => _ end = _ =>
            let K' := eval pattern (PStr descr) in K in
            match K' with ?F _ => set (F40 := F) end
        end.
        assert (H40 : forall d, F40 (PStr d)
                  = enc_out (pick_loop m eid (typ_of svc d) svc (truthy ru) (truthy ri) bs)).
        { intros d. unfold F40. cbv beta. clear F40.
          rewrite Hurl, Hidx. rewrite !(py_bind_good (enc_ostr _)) by apply enc_ostr_good.
          unfold enc_strs. rewrite p2_iter_check_list, py_bind_good by reflexivity. cbn [py_iter2].
          match goal with |- context [pyfor2 _ _ ?B] => set (body := B) end.
          assert (Hround : forall b x y z, round eid d ru ri b [x; y; z] (body [x; y; z] (PStr b))).
          { intros b x y z. unfold round, body. cbv beta.
            rewrite !(py_bind_good (PStr _)) by reflexivity. rewrite sfunc_ok.
            destruct (store_service m eid (typ_of svc d) svc (Some b)) as [l| |] eqn:Hst; [|reflexivity|reflexivity].
            pose proof (found_nonempty _ _ _ _ _ _ Hst) as Hne. destruct l as [|e0 l]; [contradiction|].
            cbn [enc_sres]. rewrite py_bindS_good by reflexivity. rewrite (p2_branch_good (PList _)) by reflexivity.
            cbn [py_truthy map]. change (enc_ep e0 :: map enc_ep l) with (map enc_ep (e0 :: l)).
            assert (Hdflt :
              py_bindS (fun n_33 : string =>
                          if exc_matches n_33 ["UnsupportedBinding"]
                          then NextS [PList (map enc_ep (e0 :: l)); y; z]
                          else ExcS n_33 [PList (map enc_ep (e0 :: l)); y; z])
                       (py_bind (py_bind (PList (map enc_ep (e0 :: l))) (fun a_29 => all_locations_ a_29)) (fun a_30 => next_ a_30 PNone))
                       (fun v_destination =>
                          py_bindS (fun n_32 : string =>
                                      if exc_matches n_32 ["UnsupportedBinding"]
                                      then NextS [PList (map enc_ep (e0 :: l)); y; v_destination]
                                      else ExcS n_32 [PList (map enc_ep (e0 :: l)); y; v_destination])
                                   (p2_mklist [PStr b; v_destination]) (fun r_31 => RetS r_31))
              = RetS (PList [PStr b; enc_ostr (hd_error (all_locations svc (e0 :: l)))])).
            { rewrite (py_bind_good (PList _)) by reflexivity. rewrite all_locations_ok.
              rewrite py_bind_good by reflexivity. rewrite next_ok, first_or_strs.
              rewrite py_bindS_good by apply enc_ostr_good.
              rewrite p2_mklist_good by (cbn; rewrite enc_ostr_good; reflexivity).
              rewrite py_bindS_good by reflexivity. reflexivity. }
            assert (Hbr : forall o, p2_branch (enc_ostr o) = match truthy o with Some _ => BTrue | None => BFalse end).
            { intros [s|]; [|reflexivity]. cbn. destruct (is_empty s); reflexivity. }
            assert (Htr : forall o v, truthy o = Some v -> o = Some v).
            { intros [s|] v; cbn; [|discriminate]. destruct (is_empty s); [discriminate|]. intros H; inversion H; reflexivity. }
            rewrite !Hbr.
            destruct (truthy ru) as [u|] eqn:Etu.
            - apply Htr in Etu. subst ru. cbn [enc_ostr]. cbv iota.
              rewrite p2_iter_check_list, py_bindS_good by reflexivity. cbn [py_iter2].
              erewrite (url_loop _ b u).
              + destruct (scan_url (e0 :: l) u); [reflexivity|]. eexists; eexists; eexists; reflexivity.
              + intros s ep. cbv beta iota. rewrite getitem_location, p2_eq_str, p2_branch_bool.
                destruct (String.eqb (ep_location ep) u); [|reflexivity].
                rewrite p2_mklist_good by reflexivity. rewrite py_bindS_good by reflexivity. reflexivity.
            - cbv iota. destruct (truthy ri) as [i|] eqn:Eti.
              + apply Htr in Eti. subst ri. cbn [enc_ostr]. cbv iota.
                rewrite p2_iter_check_list, py_bindS_good by reflexivity. cbn [py_iter2].
                erewrite (idx_loop _ b i).
                * destruct (scan_index (e0 :: l) i); [reflexivity| |]; eexists; eexists; eexists; reflexivity.
                * intros s ep. cbv beta iota. rewrite getitem_index, getitem_location.
                  destruct (ep_index ep) as [j|]; [|reflexivity].
                  rewrite p2_eq_str, p2_branch_bool. destruct (String.eqb j i); [|reflexivity].
                  rewrite p2_mklist_good by reflexivity. rewrite py_bindS_good by reflexivity. reflexivity.
              + exact Hdflt. }
          rewrite <- (pick_loop_src body eid d ru ri Hround bs PErr PErr PErr).
          generalize (pyfor2 (map PStr bs) [PErr; PErr; PErr] body). intros c.
          destruct c as [st|st|r|n st]; try reflexivity; destruct st as [|x1 [|x2 [|x3 [|x4 st]]]]; reflexivity. }
        rewrite p2_not_good by reflexivity. cbn [py_truthy]. rewrite negb_involutive, p2_branch_bool.
        unfold pb_descr, default_descr. destruct (is_empty descr).
        - change (p2_attr_x (enc_entity svc etype prefs) "entity_type") with (PStr etype). rewrite p2_eq_str, p2_branch_bool.
          destruct (String.eqb etype "sp"); [exact (H40 "idpsso")|exact (H40 "spsso")].
        - exact (H40 descr). }
      (* the configured preference for the service *)
      assert (Hprefs :
        py_bind (p2_getitem (p2_attr_x (p2_attr_x (enc_entity svc etype prefs) "config") "preferred_binding") (PStr svc)) F43
        = enc_out (match (match assoc svc prefs with Some l => inl l | None => inr EKey end) with
                   | inr e => Fail e
                   | inl bs => pick_loop m eid (typ_of svc (pb_descr etype descr)) svc (truthy ru) (truthy ri) bs
                   end)).
      { change (p2_attr_x (p2_attr_x (enc_entity svc etype prefs) "config") "preferred_binding") with (enc_prefs prefs).
        unfold enc_prefs. rewrite p2_getitem_dict by (destruct prefs as [|[k v] r]; [reflexivity|cbn; apply String.eqb_neq; exact prefs_plain]).
        rewrite assoc_prefs. destruct (assoc svc prefs) as [l0|]; [|reflexivity].
        rewrite py_bind_good by reflexivity. exact (H43 l0). }
      rewrite p2_not_good by reflexivity. unfold effective_bindings.
      destruct bindings as [|b0 br].
      - cbn [enc_strs map py_truthy negb]. rewrite p2_branch_bool. cbv iota.
        destruct req as [[[[[[cn mid] issuer] url] idx] pb]|]; cbn [model_req enc_oreq].
        + rewrite attr_x_pb. rewrite p2_and_good by reflexivity. rewrite req_truthy. cbn [rq_class]. unfold msg_class.
          destruct (String.eqb cn "AuthnRequest") eqn:E.
          * cbn [is_authn rq_pb]. rewrite branch_ostr. destruct (truthy pb) as [p|] eqn:Ep.
            -- apply truthy_some_eq in Ep. subst pb. cbn [enc_ostr]. rewrite p2_mklist_good by reflexivity.
               rewrite py_bind_good by reflexivity. exact (H43 [p]).
            -- exact Hprefs.
          * cbn [p2_branch].
            repeat match goal with |- context [String.eqb cn ?x] => destruct (String.eqb cn x) end;
              cbn [orb is_authn rq_class]; reflexivity.
        + rewrite p2_and_good by reflexivity. cbn [py_truthy p2_branch]. exact Hprefs.
      - cbn [enc_strs map py_truthy negb]. rewrite p2_branch_bool. cbv iota. exact (H43 (b0 :: br)). }
    unfold pick_binding. rewrite Hui. cbn [fst snd].
    rewrite p2_not_good by reflexivity. cbn [py_truthy]. rewrite negb_involutive.
    destruct req as [[[[[[cn mid] issuer] url] idx] pb]|]; cbn [model_req enc_oreq pb_eid] in *.
    - rewrite p2_and_good by reflexivity. rewrite req_truthy. rewrite p2_branch_bool.
      destruct (is_empty entity_id).
      + change (p2_attr_x (p2_attr_x (enc_req cn mid issuer url idx pb) "issuer") "text") with (PStr issuer).
        unfold p2_strip. rewrite s1_good by reflexivity. unfold guard_ends.
        pose proof (Hiss _ eq_refl) as Hi. cbn [rq_issuer] in Hi. rewrite Hi.
        rewrite py_bind_good by reflexivity. exact (H45 (strip issuer)).
      + exact (H45 entity_id).
    - rewrite p2_and_good by reflexivity. cbn [py_truthy p2_branch]. exact (H45 entity_id).
  Qed.
End PickBinding.

(* ------------------------------------------------------------------ pick_binding for the services of the model *)
(* the per-service wrappers of MetadataStore the model describes (Model.typ_of) *)
Definition known_services : list string := [S_ACS; S_SLO; S_MNI; S_SSO; S_ATTRC; S_ARS; S_NIM].

Lemma is_authn_msg_class cn : is_authn (msg_class cn) = String.eqb cn "AuthnRequest".
Proof.
  unfold msg_class. destruct (String.eqb cn "AuthnRequest"); [reflexivity|].
  repeat match goal with |- context [String.eqb cn ?x] => destruct (String.eqb cn x) end; reflexivity.
Qed.

Theorem src2_pick_binding_is_model :
  forall m etype prefs svc (sfunc : pyval -> pyval -> pyval -> pyval) (all_locations_ : pyval -> pyval)
         (next_ : pyval -> pyval -> pyval),
  In svc known_services ->
  (forall eid b descr, sfunc (PStr eid) (PStr b) (PStr descr)
                       = enc_sres enc_ep (store_service m eid (typ_of svc descr) svc (Some b))) ->
  (forall l, all_locations_ (PList (map enc_ep l)) = PList (map PStr (all_locations svc l))) ->
  (forall l d, next_ (PList l) d = first_or d l) ->
  match prefs with (k, _) :: _ => k <> "__class__" | [] => True end ->
  forall bindings descr req entity_id,
  (forall q, model_req req = Some q -> end_ascii (strip (rq_issuer q)) = true) ->
  src2_pick_binding sfunc all_locations_ next_ (enc_entity svc etype prefs) (PStr svc) (enc_strs bindings) (PStr descr)
                    (enc_oreq req) (PStr entity_id)
  = enc_out (pick_binding m etype prefs svc bindings descr (model_req req) entity_id).
Proof.
  intros m etype prefs svc sfunc al nx Hin Hs Ha Hn Hp bindings descr req entity_id Hiss.
  assert (Hname : dyn_name_ok svc = true) by (repeat (destruct Hin as [<-|Hin]; [reflexivity|]); contradiction).
  apply (src2_pick_binding_gen m etype prefs svc sfunc al nx Hs Ha Hn Hname Hp); [| |exact Hiss];
    (destruct req as [[[[[[cn mid] issuer] url] idx] pb]|];
     [|repeat (destruct Hin as [<-|Hin]; [reflexivity|]); contradiction]);
    unfold raw_ui, model_req, enc_oreq, enc_req; cbn [rq_class rq_url rq_index]; rewrite is_authn_msg_class;
    destruct (String.eqb cn "AuthnRequest");
    repeat (destruct Hin as [<-|Hin]; [destruct url, idx; reflexivity|]); contradiction.
Qed.

(* ================================================================== the hypotheses are satisfiable *)
(* pyval-level versions of the external functions (what the real ones compute on the encodings) *)
Definition pv_field (k : string) (v : pyval) : list pyval :=
  match v with PObj f => match assoc_py k f with Some x => [x] | None => [] end | _ => [] end.
Definition pv_locations (v : pyval) : pyval :=
  match v with PList l => PList (flat_map (pv_field "location") l) | _ => PErr end.
Definition pv_all_locations (svc : string) (v : pyval) : pyval :=
  match v with
  | PList l => PList ((if resp_excluded svc then [] else flat_map (pv_field "response_location") l)
                      ++ flat_map (pv_field "location") l)%list
  | _ => PErr
  end.
Definition pv_next (v d : pyval) : pyval := match v with PList l => first_or d l | _ => PErr end.

Lemma pv_field_location ep : pv_field "location" (enc_ep ep) = [PStr (ep_location ep)].
Proof. destruct ep as [b l [i|] [r|]]; reflexivity. Qed.
Lemma pv_field_resp ep :
  pv_field "response_location" (enc_ep ep) = match ep_resp ep with Some r => [PStr r] | None => [] end.
Proof. destruct ep as [b l [i|] [r|]]; reflexivity. Qed.

Lemma pv_locations_ok l : pv_locations (PList (map enc_ep l)) = PList (map PStr (locations l)).
Proof.
  unfold pv_locations, locations. f_equal. induction l as [|ep r IH]; [reflexivity|].
  cbn [map flat_map]. rewrite pv_field_location, IH. reflexivity.
Qed.
Lemma pv_all_locations_ok svc l : pv_all_locations svc (PList (map enc_ep l)) = PList (map PStr (all_locations svc l)).
Proof.
  unfold pv_all_locations, all_locations, response_locations. f_equal. rewrite map_app. f_equal.
  - destruct (resp_excluded svc); [reflexivity|]. induction l as [|ep r IH]; [reflexivity|].
    cbn [map flat_map]. rewrite pv_field_resp, IH, map_app. destruct (ep_resp ep); reflexivity.
  - pose proof (pv_locations_ok l) as H. unfold pv_locations in H. inversion H. reflexivity.
Qed.

Definition x_sp : string * entity :=
  ("https://sp.example.org/sp.xml",
   [(R_SP, Desc [(S_SLO, EPt B_REDIRECT "https://sp.example.org/slo" None (Some "https://sp.example.org/slo/resp"));
                 (S_ACS, EPt B_POST "https://sp.example.org/acs/post" (Some "1") None)]
               [(B_DISCO, "https://sp.example.org/disco")])]).
Definition x_idp : string * entity :=
  ("https://idp.example.org/idp.xml",
   [(R_IDP, Desc [(S_SSO, EPt B_REDIRECT "https://idp.example.org/sso/redirect" None None)] [])]).
Definition x_md : md := [[x_sp]; [x_idp]].
Definition x_prefs : list (string * list string) := [(S_ACS, [B_POST; B_REDIRECT]); (S_SLO, [B_SOAP; B_REDIRECT])].

(* Section StoreService / StoreExtService: the answers of the single sources, here for a one-source store *)
Example store_service_hypotheses_satisfiable :
  exists md_service : pyval -> pyval -> pyval -> pyval -> pyval -> pyval,
    (forall s, In s [[x_sp]] ->
       md_service (enc_source s) (PStr (fst x_sp)) (PStr R_SP) (PStr S_ACS) (enc_ostr (Some B_POST))
       = match src_service R_SP S_ACS (fst x_sp) s with
         | None => PNone
         | Some l => PList (map enc_ep (filter (keep_ob (Some B_POST)) l))
         end)
    /\ (forall s, In s [[x_sp]] -> plain_source s).
Proof.
  exists (fun _ _ _ _ _ => PList [enc_ep (EPt B_POST "https://sp.example.org/acs/post" (Some "1") None)]).
  split; intros s [<-|[]]; [reflexivity|]. cbn. discriminate.
Qed.

Example store_ext_service_hypotheses_satisfiable :
  exists md_ext_service : pyval -> pyval -> pyval -> pyval -> pyval -> pyval,
    forall s, In s [[x_sp]] ->
      md_ext_service (enc_source s) (PStr (fst x_sp)) (PStr R_SP) (PStr "DiscoveryResponse") (PStr B_DISCO)
      = match src_disco B_DISCO (fst x_sp) s with None => PNone | Some l => PList (map enc_disco l) end.
Proof. exists (fun _ _ _ _ _ => PList [enc_disco "https://sp.example.org/disco"]). intros s [<-|[]]. reflexivity. Qed.

(* Section SsoLocation *)
Example sso_location_hypotheses_satisfiable :
  exists (sso_service : pyval -> pyval -> pyval) (with_descriptor_ locations_ : pyval -> pyval) (next_ : pyval -> pyval -> pyval),
    (forall e, sso_service (PStr e) (PStr B_REDIRECT) = enc_sres enc_ep (store_service x_md e R_IDP S_SSO (Some B_REDIRECT)))
    /\ with_descriptor_ (PStr "idpsso") = PObj (map (fun e => (e, PStr "entity")) (with_idp x_md))
    /\ match with_idp x_md with e :: _ => e <> "__class__" | [] => True end
    /\ (forall l, locations_ (PList (map enc_ep l)) = PList (map PStr (locations l)))
    /\ (forall l d, next_ (PList l) d = first_or d l)
    /\ (length (with_idp x_md) <= 1)%nat.
Proof.
  exists (fun e _ => match e with PStr e' => enc_sres enc_ep (store_service x_md e' R_IDP S_SSO (Some B_REDIRECT)) | _ => PErr end),
         (fun _ => PObj (map (fun e => (e, PStr "entity")) (with_idp x_md))), pv_locations, pv_next.
  repeat split; try reflexivity.
  - vm_compute. discriminate.
  - apply pv_locations_ok.
Qed.

(* Section PickBinding (and its use by response_args) *)
Example pick_binding_hypotheses_satisfiable :
  exists (sfunc : pyval -> pyval -> pyval -> pyval) (all_locations_ : pyval -> pyval) (next_ : pyval -> pyval -> pyval),
    (forall eid b descr, sfunc (PStr eid) (PStr b) (PStr descr)
                         = enc_sres enc_ep (store_service x_md eid (typ_of S_ACS descr) S_ACS (Some b)))
    /\ (forall l, all_locations_ (PList (map enc_ep l)) = PList (map PStr (all_locations S_ACS l)))
    /\ (forall l d, next_ (PList l) d = first_or d l)
    /\ match x_prefs with (k, _) :: _ => k <> "__class__" | [] => True end
    /\ In S_ACS known_services.
Proof.
  exists (fun e b d => match e, b, d with
                       | PStr e', PStr b', PStr d' => enc_sres enc_ep (store_service x_md e' (typ_of S_ACS d') S_ACS (Some b'))
                       | _, _, _ => PErr
                       end), (pv_all_locations S_ACS), pv_next.
  repeat split; try reflexivity.
  - apply pv_all_locations_ok.
  - cbn. discriminate.
  - left. reflexivity.
Qed.

Example response_args_hypotheses_satisfiable :
  exists pick_binding_ : pyval -> pyval -> pyval -> pyval -> pyval,
    forall rsrv descr,
      pick_binding_ (PStr rsrv) (enc_strs [B_POST]) (PStr descr) (ra_msg "AuthnRequest" "id-1" (fst x_sp) None None None)
      = enc_out (pick_binding x_md "idp" x_prefs rsrv [B_POST] descr (Some (ra_req "AuthnRequest" (fst x_sp) None None None)) "").
Proof.
  exists (fun r _ d _ => match r, d with
                         | PStr r', PStr d' =>
                             enc_out (pick_binding x_md "idp" x_prefs r' [B_POST] d'
                                        (Some (ra_req "AuthnRequest" (fst x_sp) None None None)) "")
                         | _, _ => PErr
                         end).
  reflexivity.
Qed.

(* ... and the theorems say something: the translated functions on a concrete store *)
Example x_pick_by_url :
  src2_pick_binding
    (fun e b d => match e, b, d with
                  | PStr e', PStr b', PStr d' => enc_sres enc_ep (store_service x_md e' (typ_of S_ACS d') S_ACS (Some b'))
                  | _, _, _ => PErr
                  end) (pv_all_locations S_ACS) pv_next
    (enc_entity S_ACS "idp" x_prefs) (PStr S_ACS) (enc_strs []) (PStr "")
    (enc_oreq (Some ("AuthnRequest", "id-1", " https://sp.example.org/sp.xml ", Some "https://sp.example.org/acs/post", None, None)))
    (PStr "")
  = PList [PStr B_POST; PStr "https://sp.example.org/acs/post"].
Proof. vm_compute. reflexivity. Qed.

Example x_pick_unregistered_refused :
  src2_pick_binding
    (fun e b d => match e, b, d with
                  | PStr e', PStr b', PStr d' => enc_sres enc_ep (store_service x_md e' (typ_of S_ACS d') S_ACS (Some b'))
                  | _, _, _ => PErr
                  end) (pv_all_locations S_ACS) pv_next
    (enc_entity S_ACS "idp" x_prefs) (PStr S_ACS) (enc_strs []) (PStr "")
    (enc_oreq (Some ("AuthnRequest", "id-1", "https://sp.example.org/sp.xml", Some "https://evil.example.com/acs", None, None)))
    (PStr "")
  = PExc "SAMLError".
Proof. vm_compute. reflexivity. Qed.
