(* C08/Corr.v — correspondence runner: model outcome vs the outcome observed on the real code,
   spec evaluated on the observed outcome. *)
From Coq Require Import String List Bool.
From Verif Require Import Base.Str Base.Run C08.Model C08.Spec.
Import ListNotations.
Open Scope string_scope.

(* short names used by the case writer *)
Definition bR := B_REDIRECT.  Definition bP := B_POST.  Definition bS := B_SOAP.
Definition bO := B_PAOS.      Definition bA := B_ARTIFACT.  Definition bU := B_URI.
Definition bD := B_DISCO.
Definition sACS := S_ACS.  Definition sSLO := S_SLO.  Definition sMNI := S_MNI.  Definition sSSO := S_SSO.
Definition rSP := R_SP.    Definition rIDP := R_IDP.
Definition ep := EPt.

(* A case is a SEQUENCE on long-lived entities (round 3): the metadata each entity of the case was created
   with, and the steps in the order they were carried out, each with what was seen on the real code: for an
   operation the outcome and whether the prepared HTTP message (url / Location header / form action / SOAP
   post) really goes to the selected destination, for a refresh what reload_metadata returned.  The cases of
   the earlier rounds are the one-step sequences (mk). *)
Inductive seen := SawOut (out : outcome) (wire : bool) | SawReload (ok : bool).
Definition case := (list md * list (sstep * seen))%type.
Definition mkseq (ms : list md) (l : list (sstep * seen)) : case := (ms, l).
Definition mk (m : md) (o : op) (obs : outcome) (wire : bool) : case := ([m], [(SOp 0 o, SawOut obs wire)]).

Definition ostr_eqb := opt_eqb String.eqb.

Definition sent_eqb (a b : string * string * string) : bool :=
  let '(e1, b1, d1) := a in let '(e2, b2, d2) := b in
  String.eqb e1 e2 && String.eqb b1 b2 && String.eqb d1 d2.

Definition outcome_eqb (a b : outcome) : bool :=
  match a, b with
  | Dest b1 l1, Dest b2 l2 => String.eqb b1 b2 && ostr_eqb l1 l2
  | NoDest, NoDest => true
  | Loc l1, Loc l2 => ostr_eqb l1 l2
  | Trace s1 e1, Trace s2 e2 => list_eqb sent_eqb s1 s2 && opt_eqb err_eqb e1 e2
  | Approved x, Approved y => Bool.eqb x y
  | Fail e1, Fail e2 => err_eqb e1 e2
  | _, _ => false
  end.

Definition sobs_of (s : seen) : sobs :=
  match s with SawOut out _ => OOut out | SawReload ok => OReloaded ok end.
Definition wire_of (s : seen) : bool := match s with SawOut _ w => w | SawReload _ => true end.
Definition sobs_eqb (a b : sobs) : bool :=
  match a, b with
  | OOut x, OOut y => outcome_eqb x y
  | OReloaded x, OReloaded y => Bool.eqb x y
  | _, _ => false
  end.

Definition agrees (c : case) : bool :=
  let '(ms, l) := c in list_eqb sobs_eqb (run_seq (init_stores ms) (map fst l)) (map sobs_of (map snd l)).
Definition holds (c : case) : bool :=
  let '(ms, l) := c in
  spec_seq_b (init_stores ms) (map fst l) (map sobs_of (map snd l))
  && served_seq_b (init_stores ms) (map fst l) (map sobs_of (map snd l))   (* round 7: the SERVED metadata *)
  && forallb wire_of (map snd l).
(* finding class 1 (fixed by 796203d6; a violation again if it comes back): an observed answer of
   the discovery service is the one of the inverted verify_return and not the one of the fixed code *)
Fixpoint cls_from (st : stores) (l : list (sstep * seen)) : nat :=
  match l with
  | [] => 0
  | (SOp k (OpDisco eid url), SawOut obs _) :: r =>
      if outcome_eqb (verify_return_v0 (st k) eid url) obs && negb (outcome_eqb (verify_return (st k) eid url) obs)
      then 1 else cls_from st r
  | (SReload k m, SawReload true) :: r => cls_from (upd k m st) r
  | _ :: r => cls_from st r
  end.
Definition cls (c : case) : nat := let '(ms, l) := c in cls_from (init_stores ms) l.

Definition run := run_cases agrees holds cls.
(* per step: number, model, seen, spec on the seen outcome against the metadata in force, wire *)
Fixpoint explain_from (i : nat) (st : stores) (l : list (sstep * seen)) : list (nat * sobs * seen * bool) :=
  match l with
  | [] => []
  | (SOp k o, s) :: r =>
      (i, OOut (run_op (st k) o), s, match s with SawOut out w => spec_b (st k) o out && spec_served_b (st k) o out && w | _ => false end)
      :: explain_from (S i) st r
  | (SReload k m, s) :: r =>
      (i, OReloaded true, s, true) :: explain_from (S i) (match s with SawReload true => upd k m st | _ => st end) r
  | (SReloadFail k, s) :: r => (i, OReloaded false, s, true) :: explain_from (S i) st r
  end.
(* only the steps that disagree or fail (all steps of a one-step case) *)
Definition explain (c : case) :=
  let '(ms, l) := c in
  let all := explain_from 0 (init_stores ms) l in
  match l with
  | [_] => all
  | _ => filter (fun x => let '(_, mo, s, ok) := x in negb (sobs_eqb mo (sobs_of s) && ok)) all
  end.
