(* C08/Corr.v — correspondence runner: model outcome vs the outcome observed on the real code,
   spec evaluated on the observed outcome. *)
From Coq Require Import String List Bool.
From Verif Require Import Base.Str Base.Run C08.Model C08.Spec.
Import ListNotations.
Open Scope string_scope.

(* short names used by the case writer *)
Definition bR := B_REDIRECT.  Definition bP := B_POST.  Definition bS := B_SOAP.
Definition bO := B_PAOS.      Definition bA := B_ARTIFACT.  Definition bU := B_URI.
Definition bD := B_DISCO.
Definition sACS := S_ACS.  Definition sSLO := S_SLO.  Definition sMNI := S_MNI.  Definition sSSO := S_SSO.
Definition rSP := R_SP.    Definition rIDP := R_IDP.
Definition ep := EPt.

(* loaded metadata, operation, observed outcome, and whether the prepared HTTP message (url /
   Location header / form action / SOAP post) really goes to the selected destination *)
Definition case := (md * op * outcome * bool)%type.
Definition mk (m : md) (o : op) (obs : outcome) (wire : bool) : case := (m, o, obs, wire).

Definition ostr_eqb := opt_eqb String.eqb.

Definition sent_eqb (a b : string * string * string) : bool :=
  let '(e1, b1, d1) := a in let '(e2, b2, d2) := b in
  String.eqb e1 e2 && String.eqb b1 b2 && String.eqb d1 d2.

Definition outcome_eqb (a b : outcome) : bool :=
  match a, b with
  | Dest b1 l1, Dest b2 l2 => String.eqb b1 b2 && ostr_eqb l1 l2
  | NoDest, NoDest => true
  | Loc l1, Loc l2 => ostr_eqb l1 l2
  | Trace s1 e1, Trace s2 e2 => list_eqb sent_eqb s1 s2 && opt_eqb err_eqb e1 e2
  | Approved x, Approved y => Bool.eqb x y
  | Fail e1, Fail e2 => err_eqb e1 e2
  | _, _ => false
  end.

Definition agrees (c : case) : bool :=
  let '(m, o, obs, _) := c in outcome_eqb (run_op m o) obs.
Definition holds (c : case) : bool :=
  let '(m, o, obs, wire) := c in spec_b m o obs && wire.
(* finding class 1 (fixed by 796203d6; a violation again if it comes back): the observed answer of
   the discovery service is the one of the inverted verify_return and not the one of the fixed code *)
Definition cls (c : case) : nat :=
  let '(m, o, obs, _) := c in
  match o with
  | OpDisco eid url =>
      if outcome_eqb (verify_return_v0 m eid url) obs && negb (outcome_eqb (verify_return m eid url) obs) then 1 else 0
  | _ => 0
  end.

Definition run := run_cases agrees holds cls.
Definition explain (c : case) :=
  let '(m, o, obs, wire) := c in (run_op m o, obs, spec_b m o obs, wire).
