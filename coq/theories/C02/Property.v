(* C02/Property.v — property theorems only. *)
From Coq Require Import String List Bool Arith.
From Verif Require Import Base.Str C02.Model C02.Spec C02.Proofs.
From VerifGen Require Import C02Tables.
Import ListNotations.

(* C02.  For EVERY document tree (unbounded depth and width), every policy that requires a signature, every
   metadata / attribute map, every value of the oracle bits and every digest / signature-verification
   function: if the acceptance path as coded (after e81db11e and 64feb908) produces an identity, then every
   reported subject identifier, attribute value, issuer, audience, validity bound and session datum is read
   from an element that the signature engine digested under a verifying signature (enveloped signature
   removed) whose certificate metadata binds to that element's own Issuer; and for every such element the
   cryptography accepted a SignedInfo whose digest value is the digest of exactly that element.  No guard:
   the one-signature condition and the issuer agreement are checked by the code. *)
Theorem c02_covered :
  forall dig_ok sig_ok c o doc ddoc rep ds,
    sig_required c -> oracle_sane o doc ddoc -> dec_sound doc ddoc ->
    accept dig_ok sig_ok as_coded c o doc ddoc = Some (rep, ds) ->
    spec c (cov_of doc ddoc ds) rep
    /\ (forall e k, In (e, k) (cov_of doc ddoc ds) -> crypto_ok dig_ok sig_ok e k).
Proof. exact covered_as_coded. Qed.
Print Assumptions c02_covered.

(* With ideal signatures and digests: whatever document an accepted identity arrives in, every covered
   element IS (tree-equal to) an element that the holder of the verifying key signed — wrapping,
   relocation, duplication, re-identification of a genuine message either leaves the reported data those
   of a genuinely signed element or causes rejection. *)
Theorem c02_xsw_free :
  forall dig_ok sig_ok (issued : nat -> tree -> tree -> Prop),
    (forall k sv si, sig_ok k sv si = true -> exists e, issued k si e) ->
    (forall k si e alg dv, issued k si e -> si_digest si = Some (alg, dv) -> dig_ok alg dv e = true) ->
    (forall alg dv t t', dig_ok alg dv t = true -> dig_ok alg dv t' = true -> t = t') ->
    forall c o doc ddoc rep ds,
      sig_required c -> oracle_sane o doc ddoc -> dec_sound doc ddoc ->
      accept dig_ok sig_ok as_coded c o doc ddoc = Some (rep, ds) ->
      spec c (cov_of doc ddoc ds) rep
      /\ (forall e k, In (e, k) (cov_of doc ddoc ds) -> exists si, issued k si e).
Proof. exact xsw_free_as_coded. Qed.
Print Assumptions c02_xsw_free.

(* the behaviour before the two repairs (knobs_v0) satisfied the property only under the two guards ... *)
Theorem c02_v0_covered :
  forall dig_ok sig_ok c o doc ddoc rep ds,
    sig_required c -> sig_guard doc ddoc -> issuer_guard doc ddoc -> oracle_sane o doc ddoc -> dec_sound doc ddoc ->
    accept dig_ok sig_ok knobs_v0 c o doc ddoc = Some (rep, ds) ->
    spec c (cov_of doc ddoc ds) rep
    /\ (forall e k, In (e, k) (cov_of doc ddoc ds) -> crypto_ok dig_ok sig_ok e k).
Proof. exact covered_v0. Qed.
Print Assumptions c02_v0_covered.

(* ... C02-F1 (fixed: e81db11e): it accepted a document with two ds:Signature children and reported the
   attacker's identity although only the genuine assertion tucked into the Advice was digested *)
Theorem c02_xsw_v0_refuted :
  exists rep ds, Ex.run knobs_v0 Ex.cfgA Ex.doc_f1 = Some (rep, ds)
                 /\ r_name_id rep = Some ("admin"%string, None)
                 /\ oracle_sane Ex.all_ok Ex.doc_f1 None /\ sig_required Ex.cfgA
                 /\ ~ spec_but_issuer Ex.cfgA (cov_of Ex.doc_f1 None ds) rep.
Proof. exact f1_v0_refuted. Qed.
Print Assumptions c02_xsw_v0_refuted.

(* that witness lies outside sig_guard and is rejected by the code as it is *)
Theorem c02_xsw_witness_class :
  ~ sig_guard Ex.doc_f1 None /\ Ex.run as_coded Ex.cfgA Ex.doc_f1 = None.
Proof. exact (conj f1_outside_guard f1_now_rejected). Qed.
Print Assumptions c02_xsw_witness_class.

(* ... C02-F2 (fixed: 64feb908): with an assertion-only signature the reported issuer was the unsigned envelope's *)
Theorem c02_issuer_v0_refuted :
  exists rep ds, Ex.run knobs_v0 Ex.cfgA Ex.doc_f2 = Some (rep, ds)
                 /\ sig_guard Ex.doc_f2 None /\ sig_required Ex.cfgA
                 /\ r_issuer rep = Ex.OTHER
                 /\ spec_but_issuer Ex.cfgA (cov_of Ex.doc_f2 None ds) rep
                 /\ ~ spec_issuer Ex.cfgA (cov_of Ex.doc_f2 None ds) rep.
Proof. exact f2_v0_refuted. Qed.
Print Assumptions c02_issuer_v0_refuted.

Theorem c02_issuer_witness_class :
  ~ issuer_guard Ex.doc_f2 None /\ Ex.run as_coded Ex.cfgA Ex.doc_f2 = None.
Proof. exact (conj f2_outside_guard f2_now_rejected). Qed.
Print Assumptions c02_issuer_witness_class.

(* necessity: each of these conjuncts of the defence, switched off alone, admits a wrapping document that is
   accepted with the attacker's identity (not covered) and that the code as it is rejects *)
Theorem c02_necessity_uri : permits_wrapping no_uri Ex.doc_uri.
Proof. exact necessity_uri. Qed.
Print Assumptions c02_necessity_uri.
Theorem c02_necessity_duplicate_id : permits_wrapping no_dup Ex.doc_dup.
Proof. exact necessity_dup. Qed.
Print Assumptions c02_necessity_duplicate_id.
Theorem c02_necessity_node_id : permits_wrapping no_nodeid Ex.doc_nodeid.
Proof. exact necessity_nodeid. Qed.
Print Assumptions c02_necessity_node_id.
(* the one-signature test itself is necessary: without it (and nothing else changed) the F1 witness is accepted *)
Theorem c02_necessity_one_signature : permits_wrapping no_onesig Ex.doc_f1.
Proof. exact necessity_onesig. Qed.
Print Assumptions c02_necessity_one_signature.

(* a nested earlier signature admits a wrapping document when only direct children are inspected *)
Theorem c02_necessity_first_signature_is_child : permits_wrapping no_iter doc_nested_first.
Proof. exact necessity_first_signature_is_child. Qed.
Print Assumptions c02_necessity_first_signature_is_child.
(* a case-insensitive comparison of the Reference URI with the ID admits one *)
Theorem c02_necessity_exact_id : permits_wrapping no_exact doc_case_id.
Proof. exact necessity_exact_id. Qed.
Print Assumptions c02_necessity_exact_id.

(* the hypotheses are satisfiable: the genuine message satisfies the oracle assumptions, is accepted with
   alice's identity, and the example primitives are ideal *)
Theorem c02_nonvacuous :
  (oracle_sane Ex.all_ok Ex.doc_genuine None /\ dec_sound Ex.doc_genuine None /\ sig_required Ex.cfgA
   /\ Ex.names (Ex.run as_coded Ex.cfgA Ex.doc_genuine) = Some (Some ("alice"%string, None))
   /\ Ex.bad Ex.cfgA Ex.doc_genuine (Ex.run as_coded Ex.cfgA Ex.doc_genuine) = false
   /\ Ex.names (Ex.run as_coded Ex.cfgR (Ex.response Ex.IDP [Ex.sig "#R" "dA" "sA"; Ex.genuineA])) = None)
  /\ ((forall k sv si, Ex.sig_ex k sv si = true -> exists e, Ex.issued_ex k si e)
      /\ (forall k si e alg dv, Ex.issued_ex k si e -> si_digest si = Some (alg, dv) -> Ex.dig_ex alg dv e = true)
      /\ (forall alg dv t t', Ex.dig_ex alg dv t = true -> Ex.dig_ex alg dv t' = true -> t = t')).
Proof. exact (conj genuine_accepted ex_crypto_ideal). Qed.
Print Assumptions c02_nonvacuous.

(* the boolean spec that Coq evaluates on the implementation's recorded output is the stated spec *)
Theorem c02_spec_reflect : forall c cv rep, spec_b c cv rep = true <-> spec c cv rep.
Proof. exact spec_b_iff. Qed.
Print Assumptions c02_spec_reflect.

(* digest comparison in the correspondence tables is tree equality *)
Theorem c02_tree_eqb : forall a b, tree_eqb a b = true <-> a = b.
Proof. exact tree_eqb_eq. Qed.
Print Assumptions c02_tree_eqb.

(* the allow-lists and names of the LIVE saml2.xmldsig / saml2.sigver (regenerated on every run) are the
   constants the model uses *)
Theorem c02_live_constants :
  live_allowed_transforms = ALLOWED_TRANSFORMS
  /\ live_allowed_canonicalizations = ALLOWED_CANONICALIZATIONS
  /\ live_transform_enveloped = TRANSFORM_ENVELOPED
  /\ live_node_name = "urn:oasis:names:tc:SAML:2.0:assertion:Assertion"%string.
Proof. repeat split; reflexivity. Qed.
Print Assumptions c02_live_constants.
