(* C02/Property.v — property theorems only. *)
From Coq Require Import String List Bool Arith.
From Verif Require Import Base.Str Base.Py Base.Py2 C02.Model C02.Spec C02.Proofs C02.Source2.
From VerifGen Require Import C02Tables C02Src2.
Import ListNotations.

(* C02.  For EVERY signature engine (duplicate-ID handling strict = xmlsec1 / first registration wins / last wins;
   signature selection first ds:Signature at or below the node = xmlsec1 / ds:Signature child), EVERY document
   tree (unbounded depth and width), every policy that requires a signature, every
   metadata / attribute map, every value of the oracle bits and every digest / signature-verification
   function: if the acceptance path as coded (after e81db11e, 64feb908 and 32211c52) produces an identity, then every
   reported subject identifier, attribute value, issuer, audience, validity bound and session datum is read
   from an element that the signature engine digested under a verifying signature (enveloped signature
   removed) whose certificate metadata binds to that element's own Issuer; and for every such element the
   cryptography accepted a SignedInfo whose digest value is the digest of exactly that element.  No guard, for
   no engine: the one-signature condition, the uniqueness of the element among everything the engine registers
   and the issuer agreement are checked by the code. *)
Theorem c02_covered :
  forall E dig_ok sig_ok c o doc ddoc rep ds,
    sig_required c -> oracle_sane o doc ddoc -> dec_sound doc ddoc ->
    accept dig_ok sig_ok E as_coded c o doc ddoc = Some (rep, ds) ->
    spec c (cov_of doc ddoc ds) rep
    /\ (forall e k, In (e, k) (cov_of doc ddoc ds) -> crypto_ok dig_ok sig_ok e k).
Proof. exact covered_as_coded. Qed.
Print Assumptions c02_covered.

(* With ideal signatures and digests: whatever document an accepted identity arrives in, every covered
   element IS (tree-equal to) an element that the holder of the verifying key signed — wrapping,
   relocation, duplication, re-identification of a genuine message either leaves the reported data those
   of a genuinely signed element or causes rejection. *)
Theorem c02_xsw_free :
  forall E dig_ok sig_ok (issued : nat -> tree -> tree -> Prop),
    (forall k sv si, sig_ok k sv si = true -> exists e, issued k si e) ->
    (forall k si e alg dv, issued k si e -> si_digest si = Some (alg, dv) -> dig_ok alg dv e = true) ->
    (forall alg dv t t', dig_ok alg dv t = true -> dig_ok alg dv t' = true -> t = t') ->
    forall c o doc ddoc rep ds,
      sig_required c -> oracle_sane o doc ddoc -> dec_sound doc ddoc ->
      accept dig_ok sig_ok E as_coded c o doc ddoc = Some (rep, ds) ->
      spec c (cov_of doc ddoc ds) rep
      /\ (forall e k, In (e, k) (cov_of doc ddoc ds) -> exists si, issued k si e).
Proof. exact xsw_free_as_coded. Qed.
Print Assumptions c02_xsw_free.

(* (round 5; unguarded since 6a3bb24f) "... are exactly those of AN element covered by a valid signature": ONE covered
   element accounts for everything that is reported.  For every engine, document, policy that requires a signature,
   oracle and cryptography: if the acceptance path as coded produces an identity there is one digested element -
   certificate bound by metadata to its own Issuer - inside which every reported field is found: the Response when it
   carries a signature (it is then verified), else the one assertion that was processed (parse_assertion refuses more
   than one processed assertion under an unsigned Response).  dec_count: the round trip through str(response) that
   precedes the verification of decrypted assertions loses no plain assertion (checked on every correspondence case). *)
Theorem c02_single_element :
  forall E dig_ok sig_ok c o doc ddoc rep ds,
    sig_required c -> oracle_sane o doc ddoc -> dec_sound doc ddoc -> dec_count doc ddoc ->
    accept dig_ok sig_ok E as_coded c o doc ddoc = Some (rep, ds) ->
    spec_one c (cov_of doc ddoc ds) rep.
Proof. exact single_as_coded. Qed.
Print Assumptions c02_single_element.

(* the code before 6a3bb24f (knobs_v2) satisfied this only under mix_guard: the Response itself carries a signature, or
   exactly one assertion feeds the report *)
Theorem c02_v2_single_element :
  forall E dig_ok sig_ok c o doc ddoc rep ds,
    sig_required c -> oracle_sane o doc ddoc -> dec_sound doc ddoc -> mix_guard doc ddoc ->
    accept dig_ok sig_ok E knobs_v2 c o doc ddoc = Some (rep, ds) ->
    spec_one c (cov_of doc ddoc ds) rep.
Proof. exact single_v2. Qed.
Print Assumptions c02_v2_single_element.

(* no guard is needed for a Response without EncryptedAssertion children: parse_assertion's count test ("exactly one
   plain Assertion child OR exactly one EncryptedAssertion child") then leaves exactly one assertion *)
Theorem c02_single_element_plain :
  forall E dig_ok sig_ok c o doc ddoc rep ds,
    sig_required c -> oracle_sane o doc ddoc -> dec_sound doc ddoc ->
    many ENCASSERTION doc = [] -> find_encrypt_data doc = false ->
    accept dig_ok sig_ok E as_coded c o doc ddoc = Some (rep, ds) ->
    spec_one c (cov_of doc ddoc ds) rep.
Proof. exact single_plain_as_coded. Qed.
Print Assumptions c02_single_element_plain.

(* C02-F4 (fixed: 6a3bb24f): the count test at the head of parse_assertion is an OR.  Before the repair two genuinely
   signed assertions (alice, bob) in an unsigned envelope were refused (doc_two) - but accepted as soon as the Response
   also had exactly one EncryptedAssertion child, be it an empty element (doc_mix) or a real ciphertext (doc_mix_enc: one
   plain, one encrypted).  The report then named bob (subject of the last assertion) with the session of alice (resp.
   attributes of alice): each field is signed content (spec holds), no single covered element carries the combination
   (spec_one fails).  Outside mix_guard.  Ex.run2 = the code before 6a3bb24f (knobs_v2). *)
Theorem c02_mixture_v0_refuted :
  Ex.mixed Ex.cfgA Ex.doc_mix None = Some (true, false, Some "bob"%string, Some "s-alice"%string)
  /\ Ex.mixed Ex.cfgA Ex.doc_mix_enc (Some Ex.ddoc_mix_enc) = Some (true, false, Some "bob"%string, Some "s-bob"%string)
  /\ (exists rep ds, Ex.run2 Ex.cfgA Ex.doc_mix None = Some (rep, ds)
                     /\ oracle_sane Ex.ok3 Ex.doc_mix None /\ dec_sound Ex.doc_mix None /\ sig_required Ex.cfgA
                     /\ spec Ex.cfgA (cov_of Ex.doc_mix None ds) rep
                     /\ ~ spec_one Ex.cfgA (cov_of Ex.doc_mix None ds) rep)
  /\ ~ mix_guard Ex.doc_mix None /\ ~ mix_guard Ex.doc_mix_enc (Some Ex.ddoc_mix_enc)
  /\ Ex.run2 Ex.cfgA Ex.doc_two None = None.
Proof. exact f4_v2_refuted. Qed.
Print Assumptions c02_mixture_v0_refuted.

(* the code as it is refuses both witnesses and still accepts the single genuine assertion *)
Theorem c02_mixture_now_rejected :
  Ex.run2_now Ex.cfgA Ex.doc_mix None = None
  /\ Ex.run2_now Ex.cfgA Ex.doc_mix_enc (Some Ex.ddoc_mix_enc) = None
  /\ Ex.names (Ex.run2_now Ex.cfgA Ex.doc_one None) = Some (Some ("alice"%string, None)).
Proof. exact f4_now_rejected. Qed.
Print Assumptions c02_mixture_now_rejected.

(* the behaviour before 32211c52 (knobs_v1: the uniqueness test saw namespace-qualified elements only) satisfied the
   property for the lenient engines only under engine_guard (trivially true for an engine strict about duplicate IDs) ... *)
Theorem c02_v1_covered :
  forall E dig_ok sig_ok c o doc ddoc rep ds,
    engine_guard E doc ddoc ->
    sig_required c -> oracle_sane o doc ddoc -> dec_sound doc ddoc ->
    accept dig_ok sig_ok E knobs_v1 c o doc ddoc = Some (rep, ds) ->
    spec c (cov_of doc ddoc ds) rep
    /\ (forall e k, In (e, k) (cov_of doc ddoc ds) -> crypto_ok dig_ok sig_ok e k).
Proof. exact covered_v1. Qed.
Print Assumptions c02_v1_covered.

(* ... C02-F3 (fixed: 32211c52; lenient engines only): the engine's --id-attr registration also matches an UN-NAMESPACED
   element called Assertion / Response, the uniqueness test of _is_the_only_signature_child counted namespace-qualified
   elements only.  A first-wins (last-wins) engine resolves --node-id to such an element placed before (after)
   the forged assertion and verifies the genuine signature found below it: the forged identity was reported.
   The witnesses lie outside engine_guard; xmlsec1 itself rejected them (duplicate ID). *)
Theorem c02_lenient_engine_v1_refuted :
  (exists rep ds, Ex.run_e Ex.eng_first knobs_v1 Ex.cfgA Ex.doc_bare_first = Some (rep, ds)
                  /\ r_name_id rep = Some ("admin"%string, None)
                  /\ oracle_sane Ex.all_ok Ex.doc_bare_first None /\ sig_required Ex.cfgA
                  /\ ~ spec_but_issuer Ex.cfgA (cov_of Ex.doc_bare_first None ds) rep)
  /\ (exists rep ds, Ex.run_e Ex.eng_last knobs_v1 Ex.cfgA Ex.doc_bare_last = Some (rep, ds)
                  /\ r_name_id rep = Some ("admin"%string, None)
                  /\ ~ spec_but_issuer Ex.cfgA (cov_of Ex.doc_bare_last None ds) rep)
  /\ ~ engine_guard Ex.eng_first Ex.doc_bare_first None /\ ~ engine_guard Ex.eng_last Ex.doc_bare_last None
  /\ Ex.run knobs_v1 Ex.cfgA Ex.doc_bare_first = None /\ Ex.run knobs_v1 Ex.cfgA Ex.doc_bare_last = None.
Proof. exact f3_lenient_v1_refuted. Qed.
Print Assumptions c02_lenient_engine_v1_refuted.

(* the code as it is rejects those witnesses under all six engines and still accepts the genuine message under all six *)
Theorem c02_lenient_engine_witness_class :
  forallb (fun E => match Ex.run_e E as_coded Ex.cfgA Ex.doc_bare_first, Ex.run_e E as_coded Ex.cfgA Ex.doc_bare_last with
                    | None, None => true | _, _ => false end) Ex.all_engines = true
  /\ forallb (fun E => match Ex.names (Ex.run_e E as_coded Ex.cfgA Ex.doc_genuine) with
                       | Some (Some ("alice"%string, None)) => true | _ => false end) Ex.all_engines = true.
Proof. exact f3_now_rejected. Qed.
Print Assumptions c02_lenient_engine_witness_class.

(* under an engine that is strict about duplicate IDs the document-wide uniqueness test of
   _is_the_only_signature_child is redundant: the property holds with that test switched off ... *)
Theorem c02_uniqueness_redundant_when_strict :
  forall E dig_ok sig_ok c o doc ddoc rep ds,
    e_ids E = IdStrict ->
    sig_required c -> oracle_sane o doc ddoc -> dec_sound doc ddoc ->
    accept dig_ok sig_ok E no_uniq c o doc ddoc = Some (rep, ds) ->
    spec c (cov_of doc ddoc ds) rep
    /\ (forall e k, In (e, k) (cov_of doc ddoc ds) -> crypto_ok dig_ok sig_ok e k).
Proof. exact covered_strict_without_uniq. Qed.
Print Assumptions c02_uniqueness_redundant_when_strict.
(* ... and necessary under the lenient ones: with it switched off a first-wins engine accepts the forged assertion
   when the genuine one with the same ID is parked earlier in the document, a last-wins engine when it is parked
   later; the code as it is rejects both under those engines *)
Theorem c02_necessity_unique_id_first_wins : permits_wrapping_e Ex.eng_first no_uniq Ex.doc_dup_first.
Proof. exact necessity_uniq_first. Qed.
Print Assumptions c02_necessity_unique_id_first_wins.
Theorem c02_necessity_unique_id_last_wins : permits_wrapping_e Ex.eng_last no_uniq Ex.doc_dup.
Proof. exact necessity_uniq_last. Qed.
Print Assumptions c02_necessity_unique_id_last_wins.

(* the behaviour before the two repairs (knobs_v0) satisfied the property only under the two guards (and only with
   an engine that is strict about duplicate IDs: there was no uniqueness test) ... *)
Theorem c02_v0_covered :
  forall E dig_ok sig_ok c o doc ddoc rep ds,
    e_ids E = IdStrict ->
    sig_required c -> sig_guard doc ddoc -> issuer_guard doc ddoc -> oracle_sane o doc ddoc -> dec_sound doc ddoc ->
    accept dig_ok sig_ok E knobs_v0 c o doc ddoc = Some (rep, ds) ->
    spec c (cov_of doc ddoc ds) rep
    /\ (forall e k, In (e, k) (cov_of doc ddoc ds) -> crypto_ok dig_ok sig_ok e k).
Proof. exact covered_v0. Qed.
Print Assumptions c02_v0_covered.

(* ... C02-F1 (fixed: e81db11e): it accepted a document with two ds:Signature children and reported the
   attacker's identity although only the genuine assertion tucked into the Advice was digested *)
Theorem c02_xsw_v0_refuted :
  exists rep ds, Ex.run knobs_v0 Ex.cfgA Ex.doc_f1 = Some (rep, ds)
                 /\ r_name_id rep = Some ("admin"%string, None)
                 /\ oracle_sane Ex.all_ok Ex.doc_f1 None /\ sig_required Ex.cfgA
                 /\ ~ spec_but_issuer Ex.cfgA (cov_of Ex.doc_f1 None ds) rep.
Proof. exact f1_v0_refuted. Qed.
Print Assumptions c02_xsw_v0_refuted.

(* that witness lies outside sig_guard and is rejected by the code as it is *)
Theorem c02_xsw_witness_class :
  ~ sig_guard Ex.doc_f1 None /\ Ex.run as_coded Ex.cfgA Ex.doc_f1 = None.
Proof. exact (conj f1_outside_guard f1_now_rejected). Qed.
Print Assumptions c02_xsw_witness_class.

(* ... C02-F2 (fixed: 64feb908): with an assertion-only signature the reported issuer was the unsigned envelope's *)
Theorem c02_issuer_v0_refuted :
  exists rep ds, Ex.run knobs_v0 Ex.cfgA Ex.doc_f2 = Some (rep, ds)
                 /\ sig_guard Ex.doc_f2 None /\ sig_required Ex.cfgA
                 /\ r_issuer rep = Ex.OTHER
                 /\ spec_but_issuer Ex.cfgA (cov_of Ex.doc_f2 None ds) rep
                 /\ ~ spec_issuer Ex.cfgA (cov_of Ex.doc_f2 None ds) rep.
Proof. exact f2_v0_refuted. Qed.
Print Assumptions c02_issuer_v0_refuted.

Theorem c02_issuer_witness_class :
  ~ issuer_guard Ex.doc_f2 None /\ Ex.run as_coded Ex.cfgA Ex.doc_f2 = None.
Proof. exact (conj f2_outside_guard f2_now_rejected). Qed.
Print Assumptions c02_issuer_witness_class.

(* necessity: each of these conjuncts of the defence, switched off alone, admits a wrapping document that is
   accepted with the attacker's identity (not covered) and that the code as it is rejects *)
Theorem c02_necessity_uri : permits_wrapping no_uri Ex.doc_uri.
Proof. exact necessity_uri. Qed.
Print Assumptions c02_necessity_uri.
Theorem c02_necessity_node_id : permits_wrapping no_nodeid Ex.doc_nodeid.
Proof. exact necessity_nodeid. Qed.
Print Assumptions c02_necessity_node_id.
(* the one-signature test itself is necessary: without it (and nothing else changed) the F1 witness is accepted *)
Theorem c02_necessity_one_signature : permits_wrapping no_onesig Ex.doc_f1.
Proof. exact necessity_onesig. Qed.
Print Assumptions c02_necessity_one_signature.

(* a nested earlier signature admits a wrapping document when only direct children are inspected *)
Theorem c02_necessity_first_signature_is_child : permits_wrapping no_iter doc_nested_first.
Proof. exact necessity_first_signature_is_child. Qed.
Print Assumptions c02_necessity_first_signature_is_child.
(* a case-insensitive comparison of the Reference URI with the ID admits one *)
Theorem c02_necessity_exact_id : permits_wrapping no_exact doc_case_id.
Proof. exact necessity_exact_id. Qed.
Print Assumptions c02_necessity_exact_id.

(* (round 6) the issuer test of _assertion must be an EQUALITY of the two names: with a substring test (`not in`), in a
   federation with nested entityIDs (ExN: the staff IdP's entityID is the leading part of the guest IdP's), a message
   genuinely signed by the guest IdP whose unsigned envelope is rewritten to the staff IdP's name - or to a fragment of the
   signed name - is accepted and reported under a name no covered element carries; the code as it is refuses both, also a
   capitalised and a longer spelling, and accepts the unedited message (reporting the signed name) *)
Theorem c02_necessity_exact_issuer :
  (exists rep ds, ExN.run no_isseq ExN.doc_nested = Some (rep, ds)
                  /\ sig_required ExN.cfgG
                  /\ r_issuer rep = Ex.IDP /\ r_name_id rep = Some ("admin"%string, None)
                  /\ spec_but_issuer ExN.cfgG (cov_of ExN.doc_nested None ds) rep
                  /\ ~ spec_issuer ExN.cfgG (cov_of ExN.doc_nested None ds) rep)
  /\ (exists rep ds, ExN.run no_isseq ExN.doc_fragment = Some (rep, ds)
                     /\ ~ spec_issuer ExN.cfgG (cov_of ExN.doc_fragment None ds) rep)
  /\ ExN.run as_coded ExN.doc_nested = None /\ ExN.run as_coded ExN.doc_fragment = None
  /\ ExN.run as_coded ExN.doc_upper = None /\ ExN.run as_coded ExN.doc_longer = None
  /\ (exists rep ds, ExN.run as_coded ExN.doc_unedited = Some (rep, ds) /\ r_issuer rep = ExN.GUEST
                     /\ spec ExN.cfgG (cov_of ExN.doc_unedited None ds) rep).
Proof. exact necessity_exact_issuer. Qed.
Print Assumptions c02_necessity_exact_issuer.

(* the engine guard of c02_v1_covered is satisfiable and the genuine message is accepted with alice's identity under all six engines *)
Theorem c02_engines_nonvacuous :
  (forall E, engine_guard E Ex.doc_genuine None)
  /\ forallb (fun E => match Ex.names (Ex.run_e E as_coded Ex.cfgA Ex.doc_genuine) with
                       | Some (Some ("alice"%string, None)) => true | _ => false end) Ex.all_engines = true.
Proof. exact genuine_all_engines. Qed.
Print Assumptions c02_engines_nonvacuous.

(* the hypotheses are satisfiable: the genuine message satisfies the oracle assumptions, is accepted with
   alice's identity, and the example primitives are ideal *)
Theorem c02_nonvacuous :
  (oracle_sane Ex.all_ok Ex.doc_genuine None /\ dec_sound Ex.doc_genuine None /\ sig_required Ex.cfgA
   /\ Ex.names (Ex.run as_coded Ex.cfgA Ex.doc_genuine) = Some (Some ("alice"%string, None))
   /\ Ex.bad Ex.cfgA Ex.doc_genuine (Ex.run as_coded Ex.cfgA Ex.doc_genuine) = false
   /\ Ex.names (Ex.run as_coded Ex.cfgR (Ex.response Ex.IDP [Ex.sig "#R" "dA" "sA"; Ex.genuineA])) = None)
  /\ ((forall k sv si, Ex.sig_ex k sv si = true -> exists e, Ex.issued_ex k si e)
      /\ (forall k si e alg dv, Ex.issued_ex k si e -> si_digest si = Some (alg, dv) -> Ex.dig_ex alg dv e = true)
      /\ (forall alg dv t t', Ex.dig_ex alg dv t = true -> Ex.dig_ex alg dv t' = true -> t = t')).
Proof. exact (conj genuine_accepted ex_crypto_ideal). Qed.
Print Assumptions c02_nonvacuous.

(* the boolean spec that Coq evaluates on the implementation's recorded output is the stated spec *)
Theorem c02_spec_reflect : forall c cv rep, spec_b c cv rep = true <-> spec c cv rep.
Proof. exact spec_b_iff. Qed.
Print Assumptions c02_spec_reflect.

(* digest comparison in the correspondence tables is tree equality *)
Theorem c02_tree_eqb : forall a b, tree_eqb a b = true <-> a = b.
Proof. exact tree_eqb_eq. Qed.
Print Assumptions c02_tree_eqb.

(* the allow-lists and names of the LIVE saml2.xmldsig / saml2.sigver (regenerated on every run) are the
   constants the model uses *)
Theorem c02_live_constants :
  live_allowed_transforms = ALLOWED_TRANSFORMS
  /\ live_allowed_canonicalizations = ALLOWED_CANONICALIZATIONS
  /\ live_transform_enveloped = TRANSFORM_ENVELOPED
  /\ live_node_name = "urn:oasis:names:tc:SAML:2.0:assertion:Assertion"%string.
Proof. exact live_constants. Qed.
Print Assumptions c02_live_constants.

(* ================================================================== source tie, translator v2 *)
(* coq/gen/C02Src2.v is re-translated from the CURRENT text of saml2/response.py and saml2/sigver.py on every run;
   each theorem says, for ALL inputs of the model's domain, that the translated function on the encoded input is the
   encoded outcome the model ascribes to the code.  External calls are universally quantified functions with the
   stated hypotheses (C02/Source2.v shows each set of hypotheses satisfiable). *)

(* response.StatusResponse.issuer: the reported issuer is the stripped text of the LAST Issuer child of the envelope,
   "" when there is none *)
Theorem c02_source2_issuer : forall s root,
  issuer_text_ok root -> src2_issuer (enc_self s root) = PStr (issuer_text root).
Proof. exact src2_issuer_is_model. Qed.
Print Assumptions c02_source2_issuer.

(* sigver.SecurityContext.correctly_signed_response: a Response that carries a signature is handed to
   _check_signature with the received text, the parsed element, its node name and origdoc (and its exception
   propagates); one without a signature is refused exactly when the policy bit is set *)
Theorem c02_source2_correctly_signed_response :
  forall (parse_resp : pyval -> pyval) (check_sig : pyval -> pyval -> pyval -> pyval -> pyval)
         (xml : string) (r : option tree) (origdoc csr : option string),
    parse_resp (PStr xml) = match r with Some t => enc_response t | None => PNone end ->
    (forall t, r = Some t -> check_sig (PStr xml) (enc_response t) (PStr R_NODE) (enc_opt origdoc) = enc_unit csr) ->
    forall (self must ovc : pyval) (req dnv : bool),
      src2_correctly_signed_response parse_resp check_sig self (PStr xml) must (enc_opt origdoc) ovc (PBool req) (enc_kwargs dnv)
      = match r with
        | None => PExc "TypeError"
        | Some t => match single SIGNATURE t with
                    | Some _ => if dnv then enc_response t
                                else match csr with None => enc_response t | Some n => PExc n end
                    | None => if req then PExc "SignatureError" else enc_response t
                    end
        end.
Proof. exact src2_correctly_signed_response_is_model. Qed.
Print Assumptions c02_source2_correctly_signed_response.

(* ... which is the decision Model.accept makes for the Response (Proofs.response_check) *)
Theorem c02_source2_correctly_signed_response_model :
  forall (parse_resp : pyval -> pyval) (check_sig : pyval -> pyval -> pyval -> pyval -> pyval)
         (xml : string) (r : option tree) (origdoc csr : option string),
    parse_resp (PStr xml) = match r with Some t => enc_response t | None => PNone end ->
    (forall t, r = Some t -> check_sig (PStr xml) (enc_response t) (PStr R_NODE) (enc_opt origdoc) = enc_unit csr) ->
    forall dig_ok sig_ok E K c o doc (self must ovc : pyval),
      r = Some doc ->
      (csr = None <-> check_signature dig_ok sig_ok E K c doc doc R_NAME "" (schema_root o) <> None) ->
      (is_bad (src2_correctly_signed_response parse_resp check_sig self (PStr xml) must (enc_opt origdoc) ovc
                 (PBool (want_resp c)) (enc_kwargs false)) = true
       <-> response_check dig_ok sig_ok E K c o doc = None).
Proof. exact src2_correctly_signed_response_rejects_like_model. Qed.
Print Assumptions c02_source2_correctly_signed_response_model.

(* sigver.CryptoBackendXmlSec1.validate_signature: xmlsec1 is run with --id-attr:ID <node name> always and
   --node-id <id> exactly when the id is a non-empty string, on the text that was given; XmlsecError becomes
   SignatureError, anything else propagates; the verdict is parse_xmlsec_verify_output(stderr, version) *)
Theorem c02_source2_validate_signature :
  forall (run_xmlsec parse_out : pyval -> pyval -> pyval) (xmlsec text cert ctype nn : string) (nid : option string)
         (version : pyval) (dtf : bool) (run_res : string + (string * string * string)),
    run_xmlsec (PList (verify_com_list xmlsec cert ctype nn nid)) (PList [PStr text]) = enc_run run_res ->
    is_bad version = false ->
    src2_validate_signature run_xmlsec parse_out (vs_self xmlsec version dtf) (PStr text) (PStr cert) (PStr ctype) (PStr nn) (enc_opt nid)
    = match run_res with
      | inl n => if String.eqb n "XmlsecError" then PExc "SignatureError" else PExc n
      | inr (_, e, _) => parse_out (PStr e) version
      end.
Proof. exact src2_validate_signature_is_model. Qed.
Print Assumptions c02_source2_validate_signature.

(* response.AuthnResponse._assertion: signature decision, issuer agreement (64feb908), then the external checks *)
Theorem c02_source2_assertion :
  forall (check_sig : pyval -> pyval -> pyval -> pyval) (authn_ok cond_ok get_subject : pyval -> pyval)
         (s : sp_state) (root a : tree) (verified : bool) (csr ao gs : option string) (co : bool + string),
    check_sig (enc_assertion a) (PStr A_NODE) (PStr (st_xmlstr s)) = enc_unit csr ->
    authn_ok (self1 s root a) = enc_unit ao ->
    cond_ok (self1 s root a) = match co with inl b => PBool b | inr n => PExc n end ->
    get_subject (self1 s root a) = enc_unit gs ->
    issuer_text_ok root ->
    match single ISSUER a with Some i => end_ascii (strip (text i)) = true | None => True end ->
    src2_assertion check_sig authn_ok cond_ok get_subject (self0 s root) (enc_assertion a) (PBool verified)
    = assertion_outcome s root a verified csr ao gs co.
Proof. exact src2_assertion_is_model. Qed.
Print Assumptions c02_source2_assertion.

(* ... and what Model.check_assertions rejects, _assertion rejects *)
Theorem c02_source2_assertion_model :
  forall (check_sig : pyval -> pyval -> pyval -> pyval) (authn_ok cond_ok get_subject : pyval -> pyval)
         (s : sp_state) (root a : tree) (verified : bool) (csr ao gs : option string) (co : bool + string),
    check_sig (enc_assertion a) (PStr A_NODE) (PStr (st_xmlstr s)) = enc_unit csr ->
    authn_ok (self1 s root a) = enc_unit ao ->
    cond_ok (self1 s root a) = match co with inl b => PBool b | inr n => PExc n end ->
    get_subject (self1 s root a) = enc_unit gs ->
    issuer_text_ok root ->
    match single ISSUER a with Some i => end_ascii (strip (text i)) = true | None => True end ->
    (issuer_check as_coded root a = false
     \/ (single SIGNATURE a = None /\ st_require_signature s = true)
     \/ (single SIGNATURE a <> None /\ verified = false /\ st_do_not_verify s = false /\ csr <> None)) ->
    is_fail (src2_assertion check_sig authn_ok cond_ok get_subject (self0 s root) (enc_assertion a) (PBool verified)) = true.
Proof. exact src2_assertion_rejects_like_model. Qed.
Print Assumptions c02_source2_assertion_model.

(* sigver.SecurityContext._check_signature, the block of the nine validators: it falls through exactly when
   Model.validators holds, and raises otherwise *)
Theorem c02_source2_validators :
  forall (cls nn : string) (item : tree) (xml node issuer : pyval),
    is_bad xml = false -> is_bad node = false -> is_bad issuer = false -> ref_uri_ok item ->
    (validators as_coded item = true -> run_validators cls nn item xml node issuer = PNone)
    /\ (validators as_coded item = false -> exists n, run_validators cls nn item xml node issuer = PExc n).
Proof. exact src2_validators_is_model. Qed.
Print Assumptions c02_source2_validators.

(* (round 5) response.AuthnResponse.parse_assertion, its first statement (the assertion-count test, cut out of the live
   text): lets the Response through exactly when Model.count_ok holds, raises InvalidAssertion otherwise *)
Theorem c02_source2_count :
  forall (ctx : string) (doc : tree),
    (String.eqb ctx "AuthnQuery" = false ->
     src2_count (enc_self_count ctx doc PNone) = if count_ok doc then PNone else PExc "InvalidAssertion")
    /\ src2_count (enc_self_count "AuthnQuery" doc PNone) = PNone.
Proof. exact src2_count_is_model. Qed.
Print Assumptions c02_source2_count.

(* response.AuthnResponse.parse_assertion, the test added by 6a3bb24f (cut out of the live text): lets the Response through
   exactly when Model.one_fed holds - the Response carries a signature or at most one assertion was processed *)
Theorem c02_source2_one :
  forall (ctx : string) (doc : tree) (fed : list tree),
    (String.eqb ctx "AuthnQuery" = false ->
     src2_one (enc_self_one ctx fed (single SIGNATURE doc))
     = if one_fed as_coded (match single SIGNATURE doc with Some _ => true | None => false end) fed
       then PNone else PExc "InvalidAssertion")
    /\ src2_one (enc_self_one "AuthnQuery" fed (single SIGNATURE doc)) = PNone.
Proof. exact src2_one_is_model. Qed.
Print Assumptions c02_source2_one.
