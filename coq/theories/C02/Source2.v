(* C02/Source2.v — tie to the source TEXT, translator v2 (harness/py2coq2.py, Base/Py2.v).
   coq/gen/C02Src2.v is regenerated on every run from the CURRENT text of saml2/response.py and saml2/sigver.py.
   For each translated function: a theorem, for ALL inputs of the model's domain, that the translated function
   applied to the encoded input is the encoded output of what the hand-written model (C02/Model.v) says the
   code does.  External calls (the XML parser, _check_signature / check_signature, _run_xmlsec and the parser
   of its output, authn_statement_ok / condition_ok / get_subject) are Section variables with hypotheses; every
   Section is followed by an Example showing the hypotheses satisfiable.

   Encoding of a parsed pysaml2 object (harvest: a singleton member is the LAST child with that tag, a list
   member all of them, an absent member None / [], an absent XML attribute None, element text "" = None): objects
   carry "__class__" first. *)
From Coq Require Import String Ascii List Bool ZArith Arith Lia.
From Verif Require Import Base.Str Base.Py Base.Py2 C02.Model C02.Spec C02.Proofs.
From VerifGen Require Import C02Src2.
Import ListNotations.
Open Scope string_scope.

(* ------------------------------------------------------------------ encodings *)
Definition enc_opt (o : option string) : pyval := match o with Some s => PStr s | None => PNone end.
Definition enc_text (s : string) : pyval := if is_empty s then PNone else PStr s.
Definition enc_unit (o : option string) : pyval := match o with Some n => PExc n | None => PNone end.

Definition enc_issuer (o : option tree) : pyval :=
  match o with
  | Some i => PObj [("__class__", PStr "Issuer"); ("text", enc_text (text i))]
  | None => PNone
  end.

(* ds:CanonicalizationMethod / ds:Transform: the Algorithm attribute *)
Definition enc_alg (t : tree) : pyval := PObj [("__class__", PStr "Algorithm"); ("algorithm", enc_opt (attr "Algorithm" t))].
Definition enc_transforms (T : tree) : pyval :=
  PObj [("__class__", PStr "Transforms"); ("transform", PList (map enc_alg (many TRANSFORM T)))].
Definition enc_ref (r : tree) : pyval :=
  PObj [("__class__", PStr "Reference"); ("uri", enc_opt (attr "URI" r));
        ("transforms", match single TRANSFORMS r with Some T => enc_transforms T | None => PNone end)].
Definition enc_si (si : tree) : pyval :=
  PObj [("__class__", PStr "SignedInfo"); ("reference", PList (map enc_ref (many REFERENCE si)));
        ("canonicalization_method", match single C14NMETHOD si with Some cm => enc_alg cm | None => PNone end)].
Definition enc_object (_ : tree) : pyval := PObj [("__class__", PStr "Object")].
Definition enc_sig (sg : tree) : pyval :=
  PObj [("__class__", PStr "Signature");
        ("signed_info", match single SIGNEDINFO sg with Some si => enc_si si | None => PNone end);
        ("object", PList (map enc_object (many OBJECT sg)))].
Definition enc_sig_opt (o : option tree) : pyval := match o with Some sg => enc_sig sg | None => PNone end.

(* a signable element (Response / Assertion) as the object model holds it *)
Definition enc_item (cls node_name : string) (item : tree) : pyval :=
  PObj [("__class__", PStr cls); ("c_node_name", PStr node_name); ("id", enc_opt (attr "ID" item));
        ("issuer", enc_issuer (single ISSUER item)); ("signature", enc_sig_opt (single SIGNATURE item))].
Definition R_NODE := "urn:oasis:names:tc:SAML:2.0:protocol:Response".
Definition A_NODE := "urn:oasis:names:tc:SAML:2.0:assertion:Assertion".
Definition enc_response := enc_item "Response" R_NODE.
Definition enc_assertion := enc_item "Assertion" A_NODE.

Lemma enc_sig_good sg : is_bad (enc_sig sg) = false.   Proof. reflexivity. Qed.
Lemma enc_sig_truthy sg : py_truthy (enc_sig sg) = true.   Proof. reflexivity. Qed.
Lemma enc_item_good c n t : is_bad (enc_item c n t) = false.   Proof. reflexivity. Qed.
Lemma enc_item_truthy c n t : py_truthy (enc_item c n t) = true.   Proof. reflexivity. Qed.
Lemma enc_opt_good o : is_bad (enc_opt o) = false.   Proof. now destruct o. Qed.
Lemma enc_response_good t : is_bad (enc_response t) = false.   Proof. reflexivity. Qed.
Lemma enc_response_truthy t : py_truthy (enc_response t) = true.   Proof. reflexivity. Qed.
Lemma enc_assertion_good t : is_bad (enc_assertion t) = false.   Proof. reflexivity. Qed.

(* ================================================================== response.StatusResponse.issuer *)
(* the AuthnResponse instance as far as issuer() / _assertion() read it *)
Record sp_state := {
  st_require_signature : bool; st_do_not_verify : bool; st_xmlstr : string; st_context : string;
  st_asynchop : bool; st_allow_unsolicited : bool; st_came_from : option string; st_assertion : pyval
}.
Definition enc_self (s : sp_state) (root : tree) : pyval :=
  PObj [("__class__", PStr "AuthnResponse");
        ("response", PObj [("__class__", PStr "Response"); ("issuer", enc_issuer (single ISSUER root))]);
        ("require_signature", PBool (st_require_signature s)); ("do_not_verify", PBool (st_do_not_verify s));
        ("xmlstr", PStr (st_xmlstr s)); ("context", PStr (st_context s)); ("asynchop", PBool (st_asynchop s));
        ("allow_unsolicited", PBool (st_allow_unsolicited s)); ("came_from", enc_opt (st_came_from s));
        ("assertion", st_assertion s)].

(* an Issuer element, when present, has text whose stripped form begins and ends with ASCII (Python strips Unicode
   whitespace too, the embedding refuses to decide); an Issuer element WITHOUT text makes issuer() fail in Python
   (None.strip(): the model says so, Model.report / issuer_check) - the embedding answers PErr there: not covered *)
Definition issuer_text_ok (t : tree) : Prop :=
  match single ISSUER t with
  | Some i => is_empty (text i) = false /\ end_ascii (strip (text i)) = true
  | None => True
  end.

Theorem src2_issuer_is_model : forall s root,
  issuer_text_ok root -> src2_issuer (enc_self s root) = PStr (issuer_text root).
Proof.
  intros s root H. unfold src2_issuer, issuer_text, issuer_text_ok in *. cbv zeta.
  change (p2_attr_x (enc_self s root) "response")
    with (PObj [("__class__", PStr "Response"); ("issuer", enc_issuer (single ISSUER root))]).
  change (p2_attr_x (PObj [("__class__", PStr "Response"); ("issuer", enc_issuer (single ISSUER root))]) "issuer")
    with (enc_issuer (single ISSUER root)).
  destruct (single ISSUER root) as [i|]; cbn [enc_issuer].
  - destruct H as [Hne Hascii].
    change (p2_attr_x (PObj [("__class__", PStr "Issuer"); ("text", enc_text (text i))]) "text") with (enc_text (text i)).
    unfold enc_text. rewrite Hne.
    cbn [p2_is_not_none s1 py_bind p2_ifexp py_cond py_truthy]. unfold p2_strip. cbn [s1 py_bind].
    unfold guard_ends. rewrite Hascii. reflexivity.
  - reflexivity.
Qed.

(* ================================================================== sigver.SecurityContext.correctly_signed_response *)
Definition enc_kwargs (do_not_verify : bool) : pyval :=
  PObj (if do_not_verify then [("do_not_verify", PBool true)] else []).

Section CorrectlySigned.
  Variable parse_resp : pyval -> pyval.                              (* samlp.any_response_from_string *)
  Variable check_sig : pyval -> pyval -> pyval -> pyval -> pyval.    (* self._check_signature(decoded_xml, item, node_name, origdoc) *)
  Variables (xml : string) (r : option tree) (origdoc : option string) (csr : option string).
  (* the parser answers None for anything that is not a Response; _check_signature returns the item (ignored) or
     raises: [csr] = the exception it raises for THIS Response, node name and text *)
  Hypothesis parse_spec : parse_resp (PStr xml) = match r with Some t => enc_response t | None => PNone end.
  Hypothesis check_spec : forall t, r = Some t ->
    check_sig (PStr xml) (enc_response t) (PStr R_NODE) (enc_opt origdoc) = enc_unit csr.

  Definition correctly_signed_response_outcome (req dnv : bool) : pyval :=
    match r with
    | None => PExc "TypeError"
    | Some t => match single SIGNATURE t with
                | Some _ => if dnv then enc_response t
                            else match csr with None => enc_response t | Some n => PExc n end
                | None => if req then PExc "SignatureError" else enc_response t
                end
    end.

  Theorem src2_correctly_signed_response_is_model : forall self must ovc (req dnv : bool),
    src2_correctly_signed_response parse_resp check_sig self (PStr xml) must (enc_opt origdoc) ovc (PBool req) (enc_kwargs dnv)
    = correctly_signed_response_outcome req dnv.
  Proof.
    intros self must ovc req dnv. unfold src2_correctly_signed_response, correctly_signed_response_outcome. cbv zeta.
    cbn [py_bind]. rewrite parse_spec.
    destruct r as [t|] eqn:Er; [|reflexivity].
    rewrite py_bind_good by apply enc_response_good.
    rewrite p2_not_good by apply enc_response_good. rewrite enc_response_truthy. cbn [negb p2_branch py_truthy].
    change (p2_attr_x (enc_response t) "signature") with (enc_sig_opt (single SIGNATURE t)).
    destruct (single SIGNATURE t) as [sg|]; cbn [enc_sig_opt].
    - rewrite p2_branch_good by apply enc_sig_good. rewrite enc_sig_truthy.
      destruct dnv; cbn [enc_kwargs].
      + reflexivity.
      + cbn [p2_in s2 py_bind p2_branch py_truthy].
        rewrite !(py_bind_good (enc_response t)) by apply enc_response_good.
        change (p2_attr_x (enc_response t) "c_node_name") with (PStr R_NODE). cbn [py_bind].
        rewrite (py_bind_good (enc_opt origdoc)) by apply enc_opt_good.
        rewrite (check_spec t eq_refl). destruct csr; reflexivity.
    - cbn [p2_branch py_truthy]. destruct req; reflexivity.
  Qed.

  (* the shape Model.accept gives to the same decision (Proofs.response_check): rejected exactly when the translated
     function raises, provided the external check agrees with Model.check_signature and the policy bit is passed *)
  Corollary src2_correctly_signed_response_rejects_like_model :
    forall dig_ok sig_ok E K c o doc self must ovc,
      r = Some doc ->
      (csr = None <-> check_signature dig_ok sig_ok E K c doc doc R_NAME "" (schema_root o) <> None) ->
      (is_bad (src2_correctly_signed_response parse_resp check_sig self (PStr xml) must (enc_opt origdoc) ovc
                 (PBool (want_resp c)) (enc_kwargs false)) = true
       <-> response_check dig_ok sig_ok E K c o doc = None).
  Proof.
    intros dig_ok sig_ok E K c o doc self must ovc Hr Hc.
    rewrite src2_correctly_signed_response_is_model. unfold correctly_signed_response_outcome, response_check. rewrite Hr.
    destruct (single SIGNATURE doc) as [sg|].
    - destruct (check_signature dig_ok sig_ok E K c doc doc R_NAME "" (schema_root o)) as [res|] eqn:Ec.
      + assert (csr = None) as -> by (apply Hc; discriminate). split; [discriminate | discriminate].
      + destruct csr as [n|]; [split; reflexivity|]. exfalso. apply (proj1 Hc eq_refl). reflexivity.
    - destruct (want_resp c); split; try reflexivity; discriminate.
  Qed.
End CorrectlySigned.

Example correctly_signed_hypotheses_satisfiable :
  exists parse_resp check_sig,
    parse_resp (PStr "x") = enc_response Ex.doc_genuine
    /\ forall t, Some Ex.doc_genuine = Some t ->
         check_sig (PStr "x") (enc_response t) (PStr R_NODE) (enc_opt None) = enc_unit None.
Proof. exists (fun _ => enc_response Ex.doc_genuine), (fun _ _ _ _ => PNone). split; reflexivity. Qed.

(* ================================================================== sigver.CryptoBackendXmlSec1.validate_signature *)
(* the xmlsec1 command line: --id-attr:ID <node name> always, --node-id <id> exactly when the id is non-empty
   (`if node_id:`; Model.check_signature: nid) *)
Definition verify_com_list (xmlsec cert ctype nn : string) (nid : option string) : list pyval :=
  ([PStr xmlsec; PStr "--verify"; PStr "--enabled-reference-uris"; PStr "empty,same-doc"; PStr "--enabled-key-data";
    PStr "raw-x509-cert"; PStr ("--pubkey-cert-" ++ ctype); PStr cert; PStr "--id-attr:ID"; PStr nn]
   ++ match nid with
      | Some i => if is_empty i then [] else [PStr "--node-id"; PStr i]
      | None => []
      end)%list.

Section ValidateSignature.
  Variable run_xmlsec : pyval -> pyval -> pyval.     (* self._run_xmlsec(com_list, [tmp.name]) *)
  Variable parse_out : pyval -> pyval -> pyval.      (* parse_xmlsec_verify_output(stderr, self.version_nums) *)
  Variables (xmlsec text cert ctype nn : string) (nid : option string) (version : pyval) (dtf : bool).
  Variable run_res : string + (string * string * string).    (* exception name, or (stdout, stderr, output) *)
  Definition enc_run : pyval :=
    match run_res with inl n => PExc n | inr (o, e, x) => PList [PStr o; PStr e; PStr x] end.
  (* the file handed over holds the text that was given (make_temp): it is represented by that text *)
  Hypothesis run_spec : run_xmlsec (PList (verify_com_list xmlsec cert ctype nn nid)) (PList [PStr text]) = enc_run.
  Hypothesis version_good : is_bad version = false.

  Definition vs_self : pyval :=
    PObj [("__class__", PStr "CryptoBackendXmlSec1"); ("xmlsec", PStr xmlsec); ("version_nums", version);
          ("delete_tmpfiles", PBool dtf)].

  Lemma pubkey_opt : p2_fconcat [PStr "--pubkey-cert-"; p2_str (PStr ctype)] = PStr ("--pubkey-cert-" ++ ctype).
  Proof. rewrite p2_str_str. exact (p2_fconcat_strs ["--pubkey-cert-"; ctype]). Qed.

  Theorem src2_validate_signature_is_model :
    src2_validate_signature run_xmlsec parse_out vs_self (PStr text) (PStr cert) (PStr ctype) (PStr nn) (enc_opt nid)
    = match run_res with
      | inl n => if String.eqb n "XmlsecError" then PExc "SignatureError" else PExc n
      | inr (o, e, x) => parse_out (PStr e) version
      end.
  Proof.
    unfold src2_validate_signature. cbv zeta.
    cbn [p2_isinstance s1 py_bind kind_of existsb mem orb p2_not py_truthy negb p2_branch].
    change (p2_attr_x vs_self "delete_tmpfiles") with (PBool dtf).
    change (p2_attr_x vs_self "xmlsec") with (PStr xmlsec).
    change (p2_attr_x vs_self "version_nums") with version.
    cbn [py_bind]. rewrite pubkey_opt.
    rewrite p2_mklist_good by reflexivity. cbn [py_bind].
    change (p2_attr_x (PObj [("__class__", PStr "tmpfile"); ("name", PStr text)]) "name") with (PStr text).
    rewrite (p2_mklist_good [PStr text]) by reflexivity.
    assert (Tail : forall cl, cl = verify_com_list xmlsec cert ctype nn nid ->
      py_bindh (fun n_11 => if exc_matches n_11 ["XmlsecError"] then py_bind (PList cl) (fun _ => PExc "SignatureError") else PExc n_11)
        (py_bind (PList cl) (fun a_7 => py_bind (PList [PStr text]) (fun a_8 => run_xmlsec a_7 a_8)))
        (fun a_9 => match p2_unpack 3 a_9 with
                    | PList [v__stdout; v_stderr; v__output] =>
                        py_bind v_stderr (fun a_3 => py_bind version (fun a_4 => parse_out a_3 a_4))
                    | PExc n_10 => if exc_matches n_10 ["XmlsecError"] then py_bind (PList cl) (fun _ => PExc "SignatureError") else PExc n_10
                    | _ => PErr
                    end)
      = match run_res with
        | inl n => if String.eqb n "XmlsecError" then PExc "SignatureError" else PExc n
        | inr (o, e, x) => parse_out (PStr e) version
        end).
    { intros cl ->. cbn [py_bind]. rewrite run_spec. unfold enc_run. destruct run_res as [n|[[o e] x]].
      - rewrite py_bindh_exc. rewrite exc_matches_cons, exc_matches_nil, orb_false_r. cbn [py_bind]. reflexivity.
      - rewrite py_bindh_good by reflexivity. rewrite p2_unpack_list by reflexivity. cbn [py_bind].
        now rewrite py_bind_good by exact version_good. }
    destruct nid as [i|]; cbn [enc_opt].
    - destruct (is_empty i) eqn:Hi.
      + destruct i; [|discriminate]. cbn [p2_branch py_truthy is_empty]. apply Tail. unfold verify_com_list. cbn [is_empty]. now rewrite app_nil_r.
      + assert (Ht : py_truthy (PStr i) = true) by (destruct i; [discriminate | reflexivity]).
        rewrite p2_branch_good by reflexivity. rewrite Ht.
        rewrite (p2_mklist_good [PStr "--node-id"; PStr i]) by reflexivity.
        cbn [p2_extend s2 py_bind]. apply Tail. unfold verify_com_list. now rewrite Hi.
    - cbn [p2_branch py_truthy]. apply Tail. unfold verify_com_list. now rewrite app_nil_r.
  Qed.
End ValidateSignature.

Example validate_signature_hypotheses_satisfiable :
  exists run_xmlsec, run_xmlsec (PList (verify_com_list "xmlsec1" "c.pem" "pem" A_NODE (Some "a-1"))) (PList [PStr "<x/>"])
                     = enc_run (inr ("", "OK", "")).
Proof. exists (fun _ _ => enc_run (inr ("", "OK", ""))). reflexivity. Qed.

(* ================================================================== response.AuthnResponse._assertion *)
Definition with_assertion (s : sp_state) (v : pyval) : sp_state :=
  {| st_require_signature := st_require_signature s; st_do_not_verify := st_do_not_verify s; st_xmlstr := st_xmlstr s;
     st_context := st_context s; st_asynchop := st_asynchop s; st_allow_unsolicited := st_allow_unsolicited s;
     st_came_from := st_came_from s; st_assertion := v |}.

Section Assertion.
  Variable check_sig : pyval -> pyval -> pyval -> pyval.   (* self.sec.check_signature(assertion, node name, self.xmlstr) *)
  Variables authn_ok cond_ok get_subject : pyval -> pyval. (* self.authn_statement_ok(), self.condition_ok(), self.get_subject() *)
  Variables (s : sp_state) (root a : tree) (verified : bool).
  Variables (csr ao gs : option string) (co : bool + string).
  Definition self0 : pyval := enc_self s root.
  Definition self1 : pyval := enc_self (with_assertion s (enc_assertion a)) root.
  Hypothesis check_spec : check_sig (enc_assertion a) (PStr A_NODE) (PStr (st_xmlstr s)) = enc_unit csr.
  Hypothesis authn_spec : authn_ok self1 = enc_unit ao.
  Hypothesis cond_spec : cond_ok self1 = match co with inl b => PBool b | inr n => PExc n end.
  Hypothesis subj_spec : get_subject self1 = enc_unit gs.
  Hypothesis root_ok : issuer_text_ok root.
  Hypothesis a_ok : match single ISSUER a with Some i => end_ascii (strip (text i)) = true | None => True end.

  Definition fail (n : string) (self : pyval) : pyval := PList [PExc n; self].
  Definition accepted : pyval := PList [PBool true; self1].
  Definition after_subject : pyval :=
    if st_asynchop s
    then if st_allow_unsolicited s then accepted
         else match st_came_from s with None => fail "VerificationError" self1 | Some _ => accepted end
    else accepted.
  Definition after_cond : pyval :=
    match co with
    | inr n => fail n self1
    | inl false => fail "VerificationError" self1
    | inl true => match gs with Some n => fail n self1 | None => after_subject end
    end.
  Definition after_issuer : pyval :=
    if String.eqb (st_context s) "AuthnReq"
    then match ao with Some n => fail n self1 | None => after_cond end
    else after_cond.
  Definition issuer_stage : pyval :=
    if negb (is_empty (issuer_text root)) && negb (String.eqb (issuer_text root) (issuer_text a))
    then fail "VerificationError" self0 else after_issuer.
  Definition assertion_outcome : pyval :=
    match single SIGNATURE a with
    | None => if st_require_signature s then fail "SignatureError" self0 else issuer_stage
    | Some _ => if negb verified && negb (st_do_not_verify s)
                then match csr with Some n => fail n self0 | None => issuer_stage end
                else issuer_stage
    end.

  Lemma ass_issuer_eval :
    p2_ifexp (p2_is_not_none (p2_attr_x (enc_assertion a) "issuer"))
             (p2_strip (p2_or (p2_attr_x (p2_attr_x (enc_assertion a) "issuer") "text") (PStr ""))) (PStr "")
    = PStr (issuer_text a).
  Proof.
    change (p2_attr_x (enc_assertion a) "issuer") with (enc_issuer (single ISSUER a)).
    unfold issuer_text. destruct (single ISSUER a) as [i|]; cbn [enc_issuer]; [|reflexivity].
    change (p2_attr_x (PObj [("__class__", PStr "Issuer"); ("text", enc_text (text i))]) "text") with (enc_text (text i)).
    cbn [p2_is_not_none s1 py_bind p2_ifexp py_cond py_truthy].
    unfold enc_text. destruct (is_empty (text i)) eqn:He.
    - destruct (text i); [|discriminate]. reflexivity.
    - assert (Ht : py_truthy (PStr (text i)) = true) by (destruct (text i); [discriminate | reflexivity]).
      rewrite p2_or_good by reflexivity. rewrite Ht. unfold p2_strip. cbn [s1 py_bind]. unfold guard_ends. now rewrite a_ok.
  Qed.

  Theorem src2_assertion_is_model :
    src2_assertion check_sig authn_ok cond_ok get_subject self0 (enc_assertion a) (PBool verified) = assertion_outcome.
  Proof.
    cbv beta delta [src2_assertion].
    set (K := fun v_exc : pyval => py_bindh _ (src2_issuer _) _).
    assert (HK : forall x, K x = issuer_stage).
    { intro x. unfold K. clear K. cbv zeta.
      unfold self0 at 2. rewrite (src2_issuer_is_model s root root_ok).
      rewrite py_bindh_good by reflexivity.
      rewrite ass_issuer_eval. rewrite py_bindh_good by reflexivity.
      rewrite p2_ne_str. rewrite p2_and_good by reflexivity.
      unfold issuer_stage.
      assert (Ht : py_truthy (PStr (issuer_text root)) = negb (is_empty (issuer_text root)))
        by (destruct (issuer_text root); reflexivity).
      rewrite Ht. destruct (is_empty (issuer_text root)) eqn:Hri; cbn [negb andb].
      2: destruct (String.eqb (issuer_text root) (issuer_text a)) eqn:Heq; cbn [negb].
      3: { rewrite p2_branch_bool. rewrite !p2_str_str.
           change [PStr "Issuer mismatch: response issuer '"; PStr (issuer_text root); PStr "', assertion issuer '"; PStr (issuer_text a); PStr "'"]
             with (map PStr ["Issuer mismatch: response issuer '"; issuer_text root; "', assertion issuer '"; issuer_text a; "'"]).
           rewrite p2_fconcat_strs. rewrite py_bindh_good by reflexivity. reflexivity. }
      all: (rewrite p2_branch_good by reflexivity); cbn [py_truthy negb]; try rewrite Hri; cbn [negb];
        rewrite py_bindh_good by apply enc_assertion_good;
        change (p2_setattr self0 "assertion" (enc_assertion a)) with self1;
        rewrite py_bindh_good by reflexivity;
        change (p2_attr_x self1 "context") with (PStr (st_context s));
        change (p2_attr_x self1 "asynchop") with (PBool (st_asynchop s));
        change (p2_attr_x self1 "allow_unsolicited") with (PBool (st_allow_unsolicited s));
        change (p2_attr_x self1 "came_from") with (enc_opt (st_came_from s));
        rewrite p2_eq_str.
      all: set (CT := match p2_branch (p2_not (cond_ok self1)) with BTrue => _ | BFalse => _ | BExc n => _ | BErr => _ end);
        assert (HCT : CT = after_cond)
          by (unfold CT, after_cond; rewrite cond_spec; destruct co as [[|]|n]; cbn [p2_not s1 py_bind py_truthy negb p2_branch];
              [ rewrite subj_spec; destruct gs as [n|]; cbn [enc_unit]; [rewrite py_bindh_exc; reflexivity|];
                rewrite py_bindh_good by reflexivity; unfold after_subject, accepted, fail;
                destruct (st_asynchop s), (st_allow_unsolicited s), (st_came_from s); reflexivity
              | reflexivity | reflexivity ]);
        rewrite HCT; unfold after_issuer; rewrite p2_branch_bool; destruct (String.eqb (st_context s) "AuthnReq");
        [ rewrite authn_spec; destruct ao; cbn [enc_unit]; [rewrite py_bindh_exc; reflexivity | rewrite py_bindh_good by reflexivity; reflexivity]
        | reflexivity ]. }
    clearbody K. cbv zeta. rewrite !HK. unfold assertion_outcome.
    change (p2_hasattr (enc_assertion a) "signature") with (PBool true).
    change (p2_attr_x (enc_assertion a) "signature") with (enc_sig_opt (single SIGNATURE a)).
    change (p2_attr_x self0 "require_signature") with (PBool (st_require_signature s)).
    change (p2_attr_x self0 "do_not_verify") with (PBool (st_do_not_verify s)).
    change (p2_attr_x self0 "xmlstr") with (PStr (st_xmlstr s)).
    change (p2_attr_x (enc_assertion a) "c_node_name") with (PStr A_NODE).
    rewrite p2_not_bool. cbn [negb]. rewrite p2_or_good by reflexivity. cbn [py_truthy].
    destruct (single SIGNATURE a) as [sg|]; cbn [enc_sig_opt].
    - rewrite p2_not_good by apply enc_sig_good. rewrite enc_sig_truthy. cbn [negb p2_branch py_truthy].
      rewrite p2_not_bool. cbn [p2_is_bool s1 py_bind]. rewrite p2_and_good by reflexivity. cbn [py_truthy].
      destruct verified; cbn [negb andb].
      + reflexivity.
      + destruct (st_do_not_verify s); cbn [Bool.eqb negb p2_branch py_truthy]; [reflexivity|].
        rewrite !(py_bind_good (enc_assertion a)) by apply enc_assertion_good. cbn [py_bind].
        change (p2_attr_x (enc_assertion a) "c_node_name") with (PStr A_NODE). cbn [py_bind].
        rewrite check_spec. destruct csr; cbn [enc_unit]; [rewrite py_bindh_exc; reflexivity | rewrite py_bindh_good by reflexivity; reflexivity].
    - cbn [p2_not s1 py_bind py_truthy negb p2_branch]. destruct (st_require_signature s); reflexivity.
  Qed.

  (* the two decisions Model.check_assertions makes per assertion, read off the outcome: *)
  Lemma issuer_stage_is_issuer_check :
    issuer_check as_coded root a
    = negb (negb (is_empty (issuer_text root)) && negb (String.eqb (issuer_text root) (issuer_text a))).
  Proof.
    unfold issuer_check. cbn [k_issuer k_isseq as_coded negb orb]. unfold issuer_text_ok in root_ok.
    destruct (single ISSUER root) as [i|] eqn:Ei.
    - destruct root_ok as [Hne _]. rewrite Hne. cbn [negb andb].
      destruct (is_empty (issuer_text root)), (String.eqb (issuer_text root) (issuer_text a)); reflexivity.
    - cbn [negb andb]. destruct (is_empty (issuer_text root)), (String.eqb (issuer_text root) (issuer_text a)); reflexivity.
  Qed.

  Definition is_fail (v : pyval) : bool := match v with PList [PExc _; _] => true | _ => false end.

  (* rejected by Model.check_assertions (issuer disagreement; no signature although one is required; the signature
     check fails) => _assertion raises *)
  Corollary src2_assertion_rejects_like_model :
    (issuer_check as_coded root a = false
     \/ (single SIGNATURE a = None /\ st_require_signature s = true)
     \/ (single SIGNATURE a <> None /\ verified = false /\ st_do_not_verify s = false /\ csr <> None)) ->
    is_fail (src2_assertion check_sig authn_ok cond_ok get_subject self0 (enc_assertion a) (PBool verified)) = true.
  Proof.
    rewrite src2_assertion_is_model. unfold assertion_outcome.
    assert (HI : issuer_check as_coded root a = false -> is_fail issuer_stage = true).
    { rewrite issuer_stage_is_issuer_check. unfold issuer_stage. intro H. apply negb_false_iff in H. now rewrite H. }
    intros [H|[[H1 H2]|(H1 & H2 & H3 & H4)]].
    - specialize (HI H). destruct (single SIGNATURE a).
      + destruct (negb verified && negb (st_do_not_verify s)); [destruct csr; [reflexivity | exact HI] | exact HI].
      + destruct (st_require_signature s); [reflexivity | exact HI].
    - now rewrite H1, H2.
    - destruct (single SIGNATURE a); [|congruence]. rewrite H2, H3. cbn [negb andb]. destruct csr; [reflexivity | congruence].
  Qed.
End Assertion.

Example assertion_hypotheses_satisfiable :
  exists check_sig authn_ok cond_ok get_subject s,
    check_sig (enc_assertion Ex.A_signed) (PStr A_NODE) (PStr (st_xmlstr s)) = enc_unit None
    /\ authn_ok (self1 s Ex.doc_genuine Ex.A_signed) = enc_unit None
    /\ cond_ok (self1 s Ex.doc_genuine Ex.A_signed) = PBool true
    /\ get_subject (self1 s Ex.doc_genuine Ex.A_signed) = enc_unit None
    /\ issuer_text_ok Ex.doc_genuine
    /\ match single ISSUER Ex.A_signed with Some i => end_ascii (strip (text i)) = true | None => True end.
Proof.
  exists (fun _ _ _ => PNone), (fun _ => PNone), (fun _ => PBool true), (fun _ => PNone),
         {| st_require_signature := true; st_do_not_verify := false; st_xmlstr := "<x/>"; st_context := "AuthnReq";
            st_asynchop := true; st_allow_unsolicited := false; st_came_from := Some "/"; st_assertion := PNone |}.
  repeat split; reflexivity.
Qed.

(* ================================================================== sigver.SecurityContext._check_signature: the validators *)
(* The method as a whole is outside the translator's subset (str(e) of a caught exception); the block of the nine
   validators - from `signed_info = item.signature.signed_info` to `raise SignatureError(error_context)` - is cut out of
   the current source text on every run (harness/c02.py slice_validators) and translated as a function of item,
   decoded_xml, node_name, _issuer.  The allow-lists are the model's constants (equal to the live ones:
   Property.c02_live_constants); ALLOWED_TRANSFORMS.intersection(l) = the allowed algorithms that occur in l. *)
Lemma list_has_opt_strs o l : list_has (enc_opt o) (map PStr l) = Some (opt_mem o l).
Proof.
  induction l as [|y r IH]; [destruct o; reflexivity|].
  destruct o as [s|]; cbn [map list_has enc_opt opt_mem mem].
  - change (pv_eq (PStr s) (PStr y)) with (Some (String.eqb s y)).
    destruct (String.eqb s y); [reflexivity|]. exact IH.
  - change (pv_eq PNone (PStr y)) with (Some false). exact IH.
Qed.

Lemma list_has_str_opts x l : list_has (PStr x) (map enc_opt l) = Some (existsb (fun a => opt_mem a [x]) l).
Proof.
  induction l as [|[y|] r IH]; cbn [map list_has enc_opt existsb opt_mem mem]; [reflexivity| |].
  - change (pv_eq (PStr x) (PStr y)) with (Some (String.eqb x y)). rewrite (String.eqb_sym y x), orb_false_r.
    destruct (String.eqb x y); [reflexivity | exact IH].
  - change (pv_eq (PStr x) PNone) with (Some false). exact IH.
Qed.

Lemma p2_in_opt_strs o l : p2_in (enc_opt o) (PList (map PStr l)) = PBool (opt_mem o l).
Proof. unfold p2_in. rewrite s2_good by (try apply enc_opt_good; reflexivity). now rewrite list_has_opt_strs. Qed.

Lemma p2_in_str_opts x l : p2_in (PStr x) (PList (map enc_opt l)) = PBool (existsb (fun a => opt_mem a [x]) l).
Proof. unfold p2_in. rewrite s2_good by reflexivity. now rewrite list_has_str_opts. Qed.

Lemma p2_and_bools x y : p2_and (PBool x) (PBool y) = PBool (x && y).
Proof. destruct x; reflexivity. Qed.

Definition algos_of (T : tree) : list (option string) := map (attr "Algorithm") (many TRANSFORM T).

Lemma transform_algos_eval T :
  p2_listcomp (PList (map enc_alg (many TRANSFORM T))) ktrue (fun v_transform => p2_attr_x v_transform "algorithm")
  = PList (map enc_opt (algos_of T)).
Proof.
  rewrite p2_listcomp_list, listcomp_go_map.
  - unfold algos_of. rewrite !map_map. reflexivity.
  - intros x Hx. apply in_map_iff in Hx as (t & <- & _). apply enc_opt_good.
Qed.

(* ALLOWED_TRANSFORMS.intersection(transform_algos): the allowed algorithms that occur *)
Lemma intersection_eval l :
  p2_len (p2_listcomp (PList (map PStr ALLOWED_TRANSFORMS)) (fun x_ => p2_in x_ (PList (map enc_opt l))) (fun x_ => x_))
  = PInt (Z.of_nat (count_in TRANSFORM_ENVELOPED l + count_in TRANSFORM_C14N l + count_in TRANSFORM_C14N_WC l)).
Proof.
  rewrite p2_listcomp_list.
  rewrite (listcomp_go_filter_map _ _ _ (fun v => match v with PStr x => existsb (fun a => opt_mem a [x]) l | _ => false end)).
  - unfold ALLOWED_TRANSFORMS, count_in. cbn [map filter].
    destruct (existsb (fun a => opt_mem a [TRANSFORM_ENVELOPED]) l), (existsb (fun a => opt_mem a [TRANSFORM_C14N]) l),
      (existsb (fun a => opt_mem a [TRANSFORM_C14N_WC]) l); reflexivity.
  - intros x Hx. apply in_map_iff in Hx as (y & <- & _). apply p2_in_str_opts.
  - intros x Hx _. apply in_map_iff in Hx as (y & <- & _). reflexivity.
Qed.

Lemma z_gt1 a : (Z.of_nat a >? 1)%Z = Nat.ltb 1 a.
Proof. destruct (Nat.ltb_spec 1 a), (Z.gtb_spec (Z.of_nat a) 1); try reflexivity; lia. Qed.
Lemma z_le1 a : (1 <=? Z.of_nat a)%Z = Nat.leb 1 a.
Proof. destruct (Nat.leb_spec 1 a), (Z.leb_spec 1 (Z.of_nat a)); try reflexivity; lia. Qed.
Lemma z_le2 a : (Z.of_nat a <=? 2)%Z = Nat.leb a 2.
Proof. destruct (Nat.leb_spec a 2), (Z.leb_spec (Z.of_nat a) 2); try reflexivity; lia. Qed.
Lemma z_eqb_nat a b : (Z.of_nat a =? Z.of_nat b)%Z = Nat.eqb a b.
Proof. destruct (Nat.eqb_spec a b), (Z.eqb_spec (Z.of_nat a) (Z.of_nat b)); try reflexivity; lia. Qed.

Lemma p2_len_ascii u : all_ascii u = true -> p2_len (PStr u) = PInt (Z.of_nat (String.length u)).
Proof. intro H. unfold p2_len. cbn [s1 py_bind]. now rewrite H. Qed.

Lemma fconcat_id item : p2_fconcat [PStr "#"; p2_str (enc_opt (attr "ID" item))] = PStr ("#" ++ id_str item).
Proof.
  unfold id_str. destruct (attr "ID" item) as [i|]; cbn [enc_opt].
  - rewrite p2_str_str. exact (p2_fconcat_strs ["#"; i]).
  - reflexivity.
Qed.

Lemma intersection_value l :
  exists L, p2_listcomp (PList (map PStr ALLOWED_TRANSFORMS)) (fun x_ => p2_in x_ (PList (map enc_opt l))) (fun x_ => x_) = PList L
            /\ Datatypes.length L = count_in TRANSFORM_ENVELOPED l + count_in TRANSFORM_C14N l + count_in TRANSFORM_C14N_WC l.
Proof.
  pose proof (intersection_eval l) as H.
  rewrite p2_listcomp_list in *.
  rewrite (listcomp_go_filter_map _ _ _ (fun v => match v with PStr x => existsb (fun a => opt_mem a [x]) l | _ => false end)) in *.
  - eexists. split; [reflexivity|]. change (p2_len (PList ?x)) with (PInt (Z.of_nat (Datatypes.length x))) in H.
    inversion H as [H']. now apply Nat2Z.inj in H'.
  - intros x Hx. apply in_map_iff in Hx as (y & <- & _). apply p2_in_str_opts.
  - intros x Hx _. apply in_map_iff in Hx as (y & <- & _). reflexivity.
  - intros x Hx. apply in_map_iff in Hx as (y & <- & _). apply p2_in_str_opts.
  - intros x Hx _. apply in_map_iff in Hx as (y & <- & _). reflexivity.
Qed.

Lemma all_go_bools (bs : list bool) : all_go (map PBool bs) ktrue kid = PBool (forallb (fun b => b) bs).
Proof.
  rewrite (all_go_forallb _ _ (fun v => match v with PBool b => b | _ => false end)).
  - f_equal. induction bs as [|b r IH]; [reflexivity|]. cbn [map forallb]. now rewrite IH.
  - intros x Hx. apply in_map_iff in Hx as (b & <- & _). reflexivity.
Qed.

Definition ref_uri_ok (item : tree) : Prop :=
  forall sg si r, single SIGNATURE item = Some sg -> single SIGNEDINFO sg = Some si -> many REFERENCE si = [r] ->
    exists u, attr "URI" r = Some u /\ all_ascii u = true.

Section Validators.
  Variables (cls nn : string) (item : tree) (xml node issuer : pyval).
  Hypothesis xml_good : is_bad xml = false.
  Hypothesis node_good : is_bad node = false.
  Hypothesis issuer_good : is_bad issuer = false.
  Hypothesis uri_ok : ref_uri_ok item.

  Definition run_validators : pyval :=
    src2_validators (PList (map PStr ALLOWED_CANONICALIZATIONS)) (PList (map PStr ALLOWED_TRANSFORMS)) (PStr TRANSFORM_ENVELOPED)
                    (enc_item cls nn item) xml node issuer.

  Theorem src2_validators_is_model :
    (validators as_coded item = true -> run_validators = PNone)
    /\ (validators as_coded item = false -> exists n, run_validators = PExc n).
  Proof.
    unfold run_validators, src2_validators, validators. cbv zeta.
    change (p2_attr_x (enc_item cls nn item) "signature") with (enc_sig_opt (single SIGNATURE item)).
    change (p2_attr_x (enc_item cls nn item) "id") with (enc_opt (attr "ID" item)).
    destruct (single SIGNATURE item) as [sg|] eqn:Esg; cbn [enc_sig_opt];
      [|split; [discriminate | intros _; eexists; reflexivity]].
    change (p2_attr_x (enc_sig sg) "signed_info") with (match single SIGNEDINFO sg with Some si => enc_si si | None => PNone end).
    change (p2_attr_x (enc_sig sg) "object") with (PList (map enc_object (many OBJECT sg))).
    destruct (single SIGNEDINFO sg) as [si|] eqn:Esi;
      [|split; [discriminate | intros _; eexists; reflexivity]].
    rewrite (py_bind_good (enc_si si)) by reflexivity.
    change (p2_attr_x (enc_si si) "reference") with (PList (map enc_ref (many REFERENCE si))).
    change (p2_attr_x (enc_si si) "canonicalization_method") with (match single C14NMETHOD si with Some cm => enc_alg cm | None => PNone end).
    rewrite (py_bind_good (PList _)) by reflexivity.
    destruct (many REFERENCE si) as [|r [|r' rest]] eqn:Eref; cbn [map].
    - (* no Reference: IndexError (or AttributeError before it) *)
      split; [discriminate|]. intros _.
      change (p2_len (PList [])) with (PInt 0). rewrite p2_eq_int. change (0 =? 1)%Z with false. cbn [py_bind p2_and py_truthy].
      destruct (single C14NMETHOD si) as [cm|]; [|eexists; reflexivity].
      change (p2_attr_x (enc_alg cm) "algorithm") with (enc_opt (attr "Algorithm" cm)).
      rewrite p2_in_opt_strs. cbn [py_bind]. eexists; reflexivity.
    - (* exactly one Reference *)
      destruct (uri_ok sg si r Esg Esi Eref) as (u & Hu & Hascii). rewrite Hu.
      change (p2_len (PList [enc_ref r])) with (PInt 1). rewrite p2_eq_int. change (1 =? 1)%Z with true. cbn [py_bind].
      change (p2_getitem (PList [enc_ref r]) (PInt 0)) with (enc_ref r).
      change (p2_hasattr (enc_ref r) "uri") with (PBool true).
      change (p2_attr_x (enc_ref r) "uri") with (enc_opt (attr "URI" r)).
      change (p2_attr_x (enc_ref r) "transforms") with (match single TRANSFORMS r with Some T => enc_transforms T | None => PNone end).
      rewrite Hu. cbn [enc_opt].
      rewrite (p2_and_bools true true). cbn [andb py_bind].
      change (p2_startswith (PStr u) (PStr "#")) with (PBool (startswith u "#")).
      rewrite (p2_len_ascii u Hascii).
      change (p2_gt (PInt (Z.of_nat (String.length u))) (PInt 1)) with (PBool (Z.of_nat (String.length u) >? 1)%Z).
      rewrite z_gt1. rewrite !p2_and_bools. cbn [andb py_bind].
      rewrite fconcat_id, p2_eq_str, p2_and_bools. cbn [py_bind].
      destruct (single C14NMETHOD si) as [cm|]; [|split; [discriminate | intros _; eexists; reflexivity]].
      change (p2_attr_x (enc_alg cm) "algorithm") with (enc_opt (attr "Algorithm" cm)).
      rewrite p2_in_opt_strs. cbn [py_bind].
      destruct (single TRANSFORMS r) as [T|]; [|split; [discriminate | intros _; eexists; reflexivity]].
      change (p2_attr_x (enc_transforms T) "transform") with (PList (map enc_alg (many TRANSFORM T))).
      rewrite transform_algos_eval. fold (algos_of T). cbn [py_bind].
      destruct (intersection_value (algos_of T)) as (L & HL & HLn). rewrite HL. cbn [py_bind].
      change (p2_len (PList (map enc_opt (algos_of T)))) with (PInt (Z.of_nat (Datatypes.length (map enc_opt (algos_of T))))).
      rewrite map_length.
      change (p2_len (PList L)) with (PInt (Z.of_nat (Datatypes.length L))). rewrite HLn. cbn [py_bind].
      set (n := Datatypes.length (algos_of T)).
      change (p2_le (PInt 1) (PInt (Z.of_nat n))) with (PBool (1 <=? Z.of_nat n)%Z).
      change (p2_le (PInt (Z.of_nat n)) (PInt 2)) with (PBool (Z.of_nat n <=? 2)%Z).
      rewrite z_le1, z_le2, !p2_and_bools. cbn [andb py_bind].
      rewrite p2_eq_int, z_eqb_nat, p2_and_bools. cbn [py_bind].
      rewrite p2_in_str_opts, p2_and_bools. cbn [py_bind].
      rewrite (p2_not_good (PList _)) by reflexivity. cbn [py_bind].
      rewrite p2_mkdict_good by reflexivity. cbn [py_bind].
      unfold p2_values, dict_view. cbn [s1 py_bind is_obj String.eqb Ascii.eqb Bool.eqb map snd].
      rewrite p2_all_list.
      match goal with
      | |- context [all_go [PBool ?a1; PBool ?a2; PBool ?a3; PBool ?a4; PBool ?a5; PBool ?a6; PBool ?a7; PBool ?a8; PBool ?a9] ktrue kid] =>
          change (all_go [PBool a1; PBool a2; PBool a3; PBool a4; PBool a5; PBool a6; PBool a7; PBool a8; PBool a9] ktrue kid)
            with (all_go (map PBool [a1; a2; a3; a4; a5; a6; a7; a8; a9]) ktrue kid)
      end.
      rewrite all_go_bools. cbn [forallb]. rewrite p2_not_bool, p2_branch_bool.
      match goal with |- context [if negb ?B then _ else _] => set (B0 := B) end.
      match goal with |- (?M = true -> _) /\ _ => assert (HB : B0 = M) end.
      { unfold B0. cbn [k_uri k_exact as_coded negb orb].
        assert (Ho : negb (py_truthy (PList (map enc_object (many OBJECT sg)))) = match many OBJECT sg with [] => true | _ :: _ => false end)
          by (destruct (many OBJECT sg); reflexivity).
        rewrite Ho.
        destruct (startswith u "#"), (1 <? String.length u)%nat, (u =? "#" ++ id_str item),
          (opt_mem (attr "Algorithm" cm) ALLOWED_CANONICALIZATIONS), (1 <=? n)%nat, (n <=? 2)%nat,
          (n =? count_in TRANSFORM_ENVELOPED (algos_of T) + count_in TRANSFORM_C14N (algos_of T) + count_in TRANSFORM_C14N_WC (algos_of T))%nat,
          (existsb (fun a : option string => opt_mem a [TRANSFORM_ENVELOPED]) (algos_of T)),
          (match many OBJECT sg with [] => true | _ :: _ => false end); reflexivity. }
      rewrite <- HB. clearbody B0.
      split; intro HM; rewrite HM; cbn [negb]; [reflexivity|].
      rewrite p2_mkdict_good.
      + cbn [py_bind]. eexists; reflexivity.
      + cbn [map snd forallb]. rewrite xml_good, node_good, issuer_good, enc_opt_good. reflexivity.
    - (* two or more References: every branch ends in an exception *)
      split; [discriminate|]. intros _.
      change (p2_len (PList (enc_ref r :: enc_ref r' :: map enc_ref rest)))
        with (PInt (Z.of_nat (S (S (Datatypes.length (map enc_ref rest)))))).
      rewrite p2_eq_int.
      assert (Hz : (Z.of_nat (S (S (Datatypes.length (map enc_ref rest)))) =? 1)%Z = false) by (apply Z.eqb_neq; lia).
      rewrite Hz. cbn [py_bind p2_and py_truthy].
      change (p2_getitem (PList (enc_ref r :: enc_ref r' :: map enc_ref rest)) (PInt 0)) with (enc_ref r).
      change (p2_attr_x (enc_ref r) "uri") with (enc_opt (attr "URI" r)).
      change (p2_attr_x (enc_ref r) "transforms") with (match single TRANSFORMS r with Some T => enc_transforms T | None => PNone end).
      destruct (single C14NMETHOD si) as [cm|]; [|eexists; reflexivity].
      change (p2_attr_x (enc_alg cm) "algorithm") with (enc_opt (attr "Algorithm" cm)).
      rewrite p2_in_opt_strs. cbn [py_bind].
      destruct (single TRANSFORMS r) as [T|]; [|eexists; reflexivity].
      change (p2_attr_x (enc_transforms T) "transform") with (PList (map enc_alg (many TRANSFORM T))).
      rewrite transform_algos_eval. cbn [py_bind].
      destruct (intersection_value (algos_of T)) as (L & HL & HLn). rewrite HL. cbn [py_bind].
      change (p2_len (PList (map enc_opt (algos_of T)))) with (PInt (Z.of_nat (Datatypes.length (map enc_opt (algos_of T))))).
      change (p2_len (PList L)) with (PInt (Z.of_nat (Datatypes.length L))). cbn [py_bind p2_and py_truthy].
      rewrite (p2_not_good (PList _)) by reflexivity. cbn [py_bind].
      rewrite p2_mkdict_good by reflexivity. cbn [py_bind].
      unfold p2_values, dict_view. cbn [s1 py_bind is_obj String.eqb Ascii.eqb Bool.eqb map snd].
      rewrite p2_all_list. cbn [all_go ktrue kid p2_branch py_truthy].
      rewrite p2_not_bool. cbn [negb p2_branch py_truthy].
      rewrite p2_mkdict_good.
      + cbn [py_bind]. eexists; reflexivity.
      + cbn [map snd forallb]. rewrite xml_good, node_good, issuer_good, !enc_opt_good. reflexivity.
  Qed.
End Validators.

Example validators_hypotheses_satisfiable :
  ref_uri_ok Ex.A_signed /\ validators as_coded Ex.A_signed = true.
Proof.
  split; [|vm_compute; reflexivity].
  intros sg si r Hsg Hsi Hr. vm_compute in Hsg. inversion Hsg; subst sg. vm_compute in Hsi. inversion Hsi; subst si.
  vm_compute in Hr. inversion Hr; subst r. exists "#A". split; reflexivity.
Qed.

(* ================================================================== response.AuthnResponse.parse_assertion: the count test *)
(* (round 5) the first statement of parse_assertion, cut out of the live text by harness/c02.py slice_count: the
   "saml2int limitation".  The AuthnResponse instance as far as that statement reads it: self.context, self.assertion
   (None on the way in), the two list members of self.response (only their lengths count). *)
Definition enc_encassertion (_ : tree) : pyval := PObj [("__class__", PStr "EncryptedAssertion")].
Definition enc_self_count (ctx : string) (doc : tree) (a : pyval) : pyval :=
  PObj [("__class__", PStr "AuthnResponse");
        ("response", PObj [("__class__", PStr "Response");
                           ("assertion", PList (map enc_assertion (many ASSERTION doc)));
                           ("encrypted_assertion", PList (map enc_encassertion (many ENCASSERTION doc)))]);
        ("context", PStr ctx); ("assertion", a)].

Lemma z_nat_eqb_1 n : Z.eqb (Z.of_nat n) 1 = Nat.eqb n 1.
Proof. destruct (Nat.eqb_spec n 1) as [->|H]; [reflexivity|]. apply Z.eqb_neq. lia. Qed.

Lemma p2_ne_int a b : p2_ne (PInt a) (PInt b) = PBool (negb (Z.eqb a b)).
Proof. reflexivity. Qed.

(* it lets the Response through exactly when Model.count_ok holds (exactly one plain Assertion child OR exactly one
   EncryptedAssertion child) and raises InvalidAssertion otherwise; context AuthnQuery: never raises *)
Theorem src2_count_is_model : forall ctx doc,
  (String.eqb ctx "AuthnQuery" = false ->
   src2_count (enc_self_count ctx doc PNone) = if count_ok doc then PNone else PExc "InvalidAssertion")
  /\ src2_count (enc_self_count "AuthnQuery" doc PNone) = PNone.
Proof.
  intros ctx doc. split; [|reflexivity].
  intro Hctx. unfold src2_count. cbv zeta.
  change (p2_attr_x (enc_self_count ctx doc PNone) "context") with (PStr ctx).
  rewrite p2_eq_str, Hctx, p2_branch_bool.
  change (p2_attr_x (p2_attr_x (enc_self_count ctx doc PNone) "response") "assertion")
    with (PList (map enc_assertion (many ASSERTION doc))).
  change (p2_attr_x (p2_attr_x (enc_self_count ctx doc PNone) "response") "encrypted_assertion")
    with (PList (map enc_encassertion (many ENCASSERTION doc))).
  change (p2_attr_x (enc_self_count ctx doc PNone) "assertion") with PNone.
  change (p2_len (PList (map enc_assertion (many ASSERTION doc))))
    with (PInt (Z.of_nat (length (map enc_assertion (many ASSERTION doc))))).
  change (p2_len (PList (map enc_encassertion (many ENCASSERTION doc))))
    with (PInt (Z.of_nat (length (map enc_encassertion (many ENCASSERTION doc))))).
  rewrite !map_length. cbn [py_bind].
  rewrite !p2_ne_int, !z_nat_eqb_1. unfold count_ok.
  destruct (Nat.eqb (length (many ASSERTION doc)) 1); cbn [negb orb]; [reflexivity|].
  destruct (Nat.eqb (length (many ENCASSERTION doc)) 1); cbn [negb orb]; [reflexivity|].
  reflexivity.
Qed.

(* ================================================================== response.AuthnResponse.parse_assertion: the test of 6a3bb24f *)
(* the `if` statement added by 6a3bb24f, cut out of the live text by harness/c02.py slice_one.  The instance as far as the
   statement reads it: self.context, self.assertions (the processed assertions; only the length counts),
   self.response.signature *)
Definition enc_self_one (ctx : string) (fed : list tree) (sg : option tree) : pyval :=
  PObj [("__class__", PStr "AuthnResponse");
        ("response", PObj [("__class__", PStr "Response"); ("signature", enc_sig_opt sg)]);
        ("context", PStr ctx); ("assertions", PList (map enc_assertion fed))].

Lemma z_nat_gtb_1 n : Z.gtb (Z.of_nat n) 1 = negb (Nat.leb n 1).
Proof.
  destruct (Nat.leb_spec n 1) as [H|H]; cbn [negb].
  - rewrite Z.gtb_ltb. apply Z.ltb_ge. lia.
  - rewrite Z.gtb_ltb. apply Z.ltb_lt. lia.
Qed.

Lemma p2_gt_int a b : p2_gt (PInt a) (PInt b) = PBool (Z.gtb a b).
Proof. reflexivity. Qed.

(* it lets the Response through exactly when Model.one_fed holds (the Response carries a signature, or at most one
   assertion was processed) and raises InvalidAssertion otherwise; context AuthnQuery: never raises *)
Theorem src2_one_is_model : forall ctx doc fed,
  (String.eqb ctx "AuthnQuery" = false ->
   src2_one (enc_self_one ctx fed (single SIGNATURE doc))
   = if one_fed as_coded (match single SIGNATURE doc with Some _ => true | None => false end) fed
     then PNone else PExc "InvalidAssertion")
  /\ src2_one (enc_self_one "AuthnQuery" fed (single SIGNATURE doc)) = PNone.
Proof.
  intros ctx doc fed. split; [|reflexivity].
  intro Hctx. unfold src2_one.
  change (p2_attr_x (enc_self_one ctx fed (single SIGNATURE doc)) "context") with (PStr ctx).
  change (p2_attr_x (enc_self_one ctx fed (single SIGNATURE doc)) "assertions") with (PList (map enc_assertion fed)).
  change (p2_attr_x (p2_attr_x (enc_self_one ctx fed (single SIGNATURE doc)) "response") "signature")
    with (enc_sig_opt (single SIGNATURE doc)).
  rewrite p2_ne_str, Hctx. cbn [negb].
  change (p2_len (PList (map enc_assertion fed))) with (PInt (Z.of_nat (length (map enc_assertion fed)))).
  rewrite map_length, p2_gt_int, z_nat_gtb_1.
  unfold one_fed. cbn [k_one as_coded negb orb].
  destruct (Nat.leb (length fed) 1); cbn [negb].
  - rewrite orb_true_r. reflexivity.
  - rewrite orb_false_r. destruct (single SIGNATURE doc) as [sg|]; reflexivity.
Qed.
