(* C02/Model.v — where the reported identity of an accepted Response comes from, as coded.
   Mirrors (pysaml2, current tree):
     * saml2/__init__.py 300-330, 456-471: harvest_element_tree / _convert_element_tree_to_member
       (known singleton child: LAST occurrence wins; known list child: appended; everything
       else: extension element) — restated as the accessors [single] / [many];
     * sigver.py SecurityContext._check_signature (issuer selection, metadata certificates,
       schema validation of the re-serialised item, the nine validators on item.signature,
       the per-certificate xmlsec1 loop with --id-attr:ID <node name> --node-id <item.id>),
       correctly_signed_response;
     * response.py StatusResponse._loads / issuer, AuthnResponse._assertion / parse_assertion /
       get_identity / get_subject / condition_ok / authn_statement_ok / session_info and
       entity._parse_response (two passes, either-or test) as far as they decide WHICH element
       is signature-checked and WHICH element the reported fields are read from;
     * attribute_converter.list_to_local / ava_from (value extraction and merging; the name map
       itself is data, see C17);
     * sigver._is_the_only_signature_child (element looked up in the received text by name and ID, must be the
       only one; exactly one ds:Signature child, ahead of every other ds:Signature below the element);
     * the xmlsec1 stand-in harness/standin/xmlsec1.py (= xmlsec1 1.2.x apps/xmlsec.c:
       xmlSecAppAddIDAttr, xmlSecFindNode, xmldsig.c node-order strictness) for --verify, generalised to an
       [engine] record: duplicate-ID handling {error = xmlsec1, first wins, last wins} x signature selection
       {first ds:Signature at or below the node = xmlsec1, the ds:Signature child}.
   Documents are finite unranked trees (unbounded depth and width).  Text-level XML
   (prefixes, entities, whitespace, comments) is NOT modelled: implementation side only.
   Cryptography is ideal and external: the predicates [dig_ok] / [sig_ok] are parameters.
   Checks that do not concern signatures (status, time windows, audience, addressing,
   valid_instance: properties C04-C06) enter as the oracle bit [content_ok] (the assertion-count test of
   parse_assertion is part of it too, and is restated as [count_ok] because the property depends on it);
   XML-schema validation (library xmlschema) enters as oracle bits per checked item. *)
From Coq Require Import String List Bool Arith Ascii.
From Verif Require Import Base.Str.
Import ListNotations.
Open Scope string_scope.
Open Scope list_scope.

(* ------------------------------------------------------------------ trees *)
Inductive tree := Node (tg : string) (ats : list (string * string)) (tx : string) (ks : list tree).

Definition tag (t : tree) : string := let 'Node a _ _ _ := t in a.
Definition attrs (t : tree) : list (string * string) := let 'Node _ a _ _ := t in a.
Definition text (t : tree) : string := let 'Node _ _ x _ := t in x.
Definition kids (t : tree) : list tree := let 'Node _ _ _ k := t in k.

Definition path := list nat.       (* child indices from the document root *)

Fixpoint assoc {B} (k : string) (l : list (string * B)) : option B :=
  match l with
  | [] => None
  | (k', v) :: r => if String.eqb k k' then Some v else assoc k r
  end.

Definition attr (a : string) (t : tree) : option string := assoc a (attrs t).

Fixpoint sub (t : tree) (p : path) : option tree :=
  match p with
  | [] => Some t
  | i :: r => match nth_error (kids t) i with Some k => sub k r | None => None end
  end.

Fixpoint remove_nth {A} (i : nat) (l : list A) : list A :=
  match l, i with
  | [], _ => []
  | _ :: r, 0 => r
  | x :: r, S j => x :: remove_nth j r
  end.

Fixpoint map_nth {A} (i : nat) (f : A -> A) (l : list A) : list A :=
  match l, i with
  | [], _ => []
  | x :: r, 0 => f x :: r
  | x :: r, S j => x :: map_nth j f r
  end.

(* the tree without the node at (non-empty) relative path p *)
Fixpoint remove_at (t : tree) (p : path) : tree :=
  match p with
  | [] => t
  | [i] => Node (tag t) (attrs t) (text t) (remove_nth i (kids t))
  | i :: r => Node (tag t) (attrs t) (text t) (map_nth i (fun k => remove_at k r) (kids t))
  end.

Fixpoint strip_prefix (p q : path) : option path :=     (* q = p ++ r  =>  Some r *)
  match p, q with
  | [], _ => Some q
  | i :: p', j :: q' => if Nat.eqb i j then strip_prefix p' q' else None
  | _ :: _, [] => None
  end.

Fixpoint attrs_eqb (a b : list (string * string)) : bool :=
  match a, b with
  | [], [] => true
  | (k, v) :: r, (k', v') :: s => String.eqb k k' && String.eqb v v' && attrs_eqb r s
  | _, _ => false
  end.

Fixpoint tree_eqb (a b : tree) : bool :=
  match a, b with
  | Node t1 a1 x1 k1, Node t2 a2 x2 k2 =>
      String.eqb t1 t2 && attrs_eqb a1 a2 && String.eqb x1 x2 &&
      (fix go (l1 l2 : list tree) : bool :=
         match l1, l2 with
         | [], [] => true
         | x :: r, y :: s => tree_eqb x y && go r s
         | _, _ => false
         end) k1 k2
  end.

(* ------------------------------------------------------------------ names *)
Definition RESPONSE := "samlp:Response".
Definition ASSERTION := "saml:Assertion".
Definition ENCASSERTION := "saml:EncryptedAssertion".
Definition ENCDATA := "xenc:EncryptedData".
Definition ISSUER := "saml:Issuer".
Definition SUBJECT := "saml:Subject".
Definition NAMEID := "saml:NameID".
Definition CONDITIONS := "saml:Conditions".
Definition AUDRESTR := "saml:AudienceRestriction".
Definition AUDIENCE := "saml:Audience".
Definition ADVICE := "saml:Advice".
Definition AUTHNSTMT := "saml:AuthnStatement".
Definition AUTHNCONTEXT := "saml:AuthnContext".
Definition CLASSREF := "saml:AuthnContextClassRef".
Definition ATTRSTMT := "saml:AttributeStatement".
Definition ATTRIBUTE := "saml:Attribute".
Definition ATTRVALUE := "saml:AttributeValue".
Definition SIGNATURE := "ds:Signature".
Definition SIGNEDINFO := "ds:SignedInfo".
Definition SIGVALUE := "ds:SignatureValue".
Definition KEYINFO := "ds:KeyInfo".
Definition OBJECT := "ds:Object".
Definition C14NMETHOD := "ds:CanonicalizationMethod".
Definition SIGMETHOD := "ds:SignatureMethod".
Definition REFERENCE := "ds:Reference".
Definition TRANSFORMS := "ds:Transforms".
Definition TRANSFORM := "ds:Transform".
Definition DIGESTMETHOD := "ds:DigestMethod".
Definition DIGESTVALUE := "ds:DigestValue".

(* saml2.xmldsig constants (checked against the live module by C02Tables, see Property.v) *)
Definition TRANSFORM_ENVELOPED := "http://www.w3.org/2000/09/xmldsig#enveloped-signature".
Definition TRANSFORM_C14N := "http://www.w3.org/2001/10/xml-exc-c14n#".
Definition TRANSFORM_C14N_WC := "http://www.w3.org/2001/10/xml-exc-c14n#WithComments".
Definition ALLOWED_CANONICALIZATIONS := [TRANSFORM_C14N; TRANSFORM_C14N_WC].
Definition ALLOWED_TRANSFORMS := [TRANSFORM_ENVELOPED; TRANSFORM_C14N; TRANSFORM_C14N_WC].

(* algorithms the xmlsec1 stand-in implements *)
Definition XS_C14N_ALGS :=
  [TRANSFORM_C14N; TRANSFORM_C14N_WC; "http://www.w3.org/TR/2001/REC-xml-c14n-20010315";
   "http://www.w3.org/TR/2001/REC-xml-c14n-20010315#WithComments"; "http://www.w3.org/2006/12/xml-c14n11"].
Definition XS_DIG_ALGS :=
  ["http://www.w3.org/2000/09/xmldsig#sha1"; "http://www.w3.org/2001/04/xmldsig-more#sha224";
   "http://www.w3.org/2001/04/xmlenc#sha256"; "http://www.w3.org/2001/04/xmldsig-more#sha384";
   "http://www.w3.org/2001/04/xmlenc#sha512"; "http://www.w3.org/2001/04/xmldsig-more#md5"].
Definition XS_SIG_ALGS :=
  ["http://www.w3.org/2000/09/xmldsig#rsa-sha1"; "http://www.w3.org/2001/04/xmldsig-more#rsa-sha224";
   "http://www.w3.org/2001/04/xmldsig-more#rsa-sha256"; "http://www.w3.org/2001/04/xmldsig-more#rsa-sha384";
   "http://www.w3.org/2001/04/xmldsig-more#rsa-sha512"; "http://www.w3.org/2001/04/xmldsig-more#rsa-md5"].

(* ------------------------------------------------------------------ harvest accessors *)
Definition with_tag (tg : string) (l : list tree) : list tree :=
  filter (fun c => String.eqb (tag c) tg) l.

(* list member of the parsed object: every child with that tag, document order *)
Definition many (tg : string) (t : tree) : list tree := with_tag tg (kids t).

Fixpoint last_opt {A} (l : list A) : option A :=
  match l with
  | [] => None
  | [x] => Some x
  | _ :: r => last_opt r
  end.

(* singleton member of the parsed object: setattr per occurrence => the LAST child wins *)
Definition single (tg : string) (t : tree) : option tree := last_opt (many tg t).

Definition first_opt {A} (l : list A) : option A :=
  match l with x :: _ => Some x | [] => None end.

(* first child with that tag: ElementTree find(), used by the stand-in *)
Definition first_child (tg : string) (t : tree) : option tree := first_opt (many tg t).

(* ------------------------------------------------------------------ configuration, oracles *)
Record cfg := {
  want_resp : bool;                          (* want_response_signed *)
  want_assert : bool;                        (* want_assertions_signed *)
  want_either : bool;                        (* want_assertions_or_response_signed *)
  md : list (string * list nat);             (* metadata: entityID -> signing certificates *)
  amap : list (string * string)              (* attribute map: NameFormat|lower(name) -> local name *)
}.

(* metadata.certs(issuer, "any", "signing"); no issuer / unknown entity: KeyError => [] *)
Definition md_certs (c : cfg) (issuer : string) : list nat :=
  if is_empty issuer then []
  else match assoc issuer (md c) with Some l => l | None => [] end.

Record oracle := {
  content_ok : bool;        (* every check of the acceptance path that is not a signature check *)
  schema_root : bool;       (* validate_doc_with_schema(str(response)) *)
  schema_as : list bool;    (* ... of the plain Assertion children of the Response, in order *)
  schema_enc : list bool    (* ... of the decrypted assertions, in order *)
}.

(* Python `x in y` on two str: x occurs in y as a contiguous run (bytes of the UTF-8 forms: the same thing) *)
Fixpoint is_infix (x y : string) : bool :=
  String.prefix x y || match y with EmptyString => false | String _ r => is_infix x r end.

(* switches: the code as it is = as_coded (all on).  They exist to state the necessity lemmas and to keep
   the behaviour before the two repairs (knobs_v0) for the refutation theorems. *)
Record knobs := {
  k_uri : bool;        (* validator "the anchor points to the enclosing element ID attribute" *)
  k_uniq : bool;       (* _is_the_only_signature_child inspects THE element of that name whose ID equals item.id and
                          refuses unless there is exactly one in the document as received (len(nodes) != 1);
                          false = the LAST such element is inspected, however many there are (dict keyed by ID) *)
  k_nodeid : bool;     (* --node-id item.id is passed (otherwise verification starts at the root) *)
  k_onesig : bool;     (* e81db11e (C02-F1): _is_the_only_signature_child — the element as received has exactly
                          one ds:Signature child and it is the first ds:Signature at/below the element *)
  k_issuer : bool;     (* 64feb908 (C02-F2): _assertion refuses a Response issuer that differs from the
                          assertion's issuer *)
  k_iter : bool;       (* the one-signature test looks for the first ds:Signature among ALL descendants in
                          document order (Element.iter); false = among the direct children only (find) *)
  k_exact : bool;      (* the Reference URI is compared with "#"+ID byte for byte; false = ignoring letter case *)
  k_lax : bool         (* 32211c52 (C02-F3): the uniqueness test of _is_the_only_signature_child sees every element that the
                          engine's --id-attr registration matches (also the un-namespaced ones of that local name);
                          false = before: the namespace-qualified elements of the node name only *);
  k_one : bool;        (* 6a3bb24f (C02-F4): parse_assertion refuses more than one processed assertion (self.assertions)
                          unless the Response itself carries a - then verified - signature *)
  k_isseq : bool       (* (round 6) the issuer test of _assertion compares the two stripped texts for EQUALITY (`!=`);
                          false = the envelope's Issuer may be any SUBSTRING of the assertion's (`not in`) *)
}.
Definition as_coded : knobs :=
  {| k_uri := true; k_uniq := true; k_nodeid := true; k_onesig := true; k_issuer := true; k_iter := true; k_exact := true; k_lax := true; k_one := true; k_isseq := true |}.
(* before 6a3bb24f *)
Definition knobs_v2 : knobs :=
  {| k_uri := true; k_uniq := true; k_nodeid := true; k_onesig := true; k_issuer := true; k_iter := true; k_exact := true; k_lax := true; k_one := false; k_isseq := true |}.
(* before 32211c52 *)
Definition knobs_v1 : knobs :=
  {| k_uri := true; k_uniq := true; k_nodeid := true; k_onesig := true; k_issuer := true; k_iter := true; k_exact := true; k_lax := false; k_one := false; k_isseq := true |}.
(* before e81db11e and 64feb908 *)
Definition knobs_v0 : knobs :=
  {| k_uri := true; k_uniq := true; k_nodeid := true; k_onesig := false; k_issuer := false; k_iter := true; k_exact := true; k_lax := false; k_one := false; k_isseq := true |}.

(* ------------------------------------------------------------------ the signature engine *)
(* pysaml2 hands the document to an external signature engine.  The engine it is written for is xmlsec1
   (apps/xmlsec.c: xmlSecAppAddIDAttr makes a duplicate ID value under --id-attr a hard error; xmlSecFindNode
   takes the first ds:Signature in document order at or below the start node).  The guard
   sigver._is_the_only_signature_child is defence in depth for engines that resolve a duplicated ID silently
   (libxml2 xmlGetID: first registration wins; hash-map registries: last wins) or that take the ds:Signature
   CHILD of the start node.  The engine is therefore a parameter of the model, and the property is proved for
   every engine. *)
Inductive idmode := IdStrict | IdFirst | IdLast.
Inductive sigsel := SelBelow | SelChild.
Record engine := { e_ids : idmode; e_sel : sigsel }.
Definition xmlsec1 : engine := {| e_ids := IdStrict; e_sel := SelBelow |}.
Definition lenient (E : engine) : bool := match e_ids E with IdStrict => false | _ => true end.

(* ------------------------------------------------------------------ xmlsec1 --verify (stand-in) *)
Record nodename := { nn_q : string; nn_l : string }.   (* "saml:Assertion" / un-namespaced "Assertion" *)
Definition A_NAME := {| nn_q := ASSERTION; nn_l := "Assertion" |}.
Definition R_NAME := {| nn_q := RESPONSE; nn_l := "Response" |}.

Definition id_match (nn : nodename) (tg : string) : bool :=
  String.eqb tg (nn_q nn) || String.eqb tg (nn_l nn).

(* A ciphertext is abstracted to xenc:EncryptedData[n=token] whose child is the plaintext (ideal
   encryption).  xmlsec1 sees only the ciphertext: such a node is opaque for everything xmlsec1 does
   (ID registry, search for the signature); its content counts for digest equality only. *)
Definition opaque_parts (tg : string) (ats : list (string * string)) : bool :=
  String.eqb tg ENCDATA && match assoc "n" ats with Some _ => true | None => false end.
Definition opaque (t : tree) : bool := opaque_parts (tag t) (attrs t).

(* --id-attr:ID <name>: the ID attribute of every element of that name, document order *)
Fixpoint collect (nn : nodename) (t : tree) : list (string * path) :=
  match t with
  | Node tg ats _ ks =>
      (if id_match nn tg then match assoc "ID" ats with Some v => [(v, [])] | None => [] end else [])
      ++ (if opaque_parts tg ats then []
          else (fix go (i : nat) (l : list tree) : list (string * path) :=
                  match l with
                  | [] => []
                  | k :: r => map (fun vp => (fst vp, i :: snd vp)) (collect nn k) ++ go (S i) r
                  end) 0 ks)
  end.

Fixpoint has_dup (l : list string) : bool :=
  match l with
  | [] => false
  | x :: r => mem x r || has_dup r
  end.

Fixpoint assoc_last {B} (k : string) (l : list (string * B)) : option B :=
  match l with
  | [] => None
  | (k', v) :: r => match assoc_last k r with
                    | Some w => Some w
                    | None => if String.eqb k k' then Some v else None
                    end
  end.

(* first ds:Signature in document order at or below t (xmlSecFindNode) *)
Fixpoint first_sig (t : tree) : option path :=
  match t with
  | Node tg ats _ ks =>
      if String.eqb tg SIGNATURE then Some []
      else if opaque_parts tg ats then None
      else (fix go (i : nat) (l : list tree) : option path :=
              match l with
              | [] => None
              | k :: r => match first_sig k with
                          | Some p => Some (i :: p)
                          | None => go (S i) r
                          end
              end) 0 ks
  end.

(* index of the first ds:Signature among the direct children (engines that take the Signature child) *)
Fixpoint sig_index (i : nat) (l : list tree) : option nat :=
  match l with
  | [] => None
  | k :: r => if String.eqb (tag k) SIGNATURE then Some i else sig_index (S i) r
  end.
Definition first_sig_child (t : tree) : option path :=
  match sig_index 0 (kids t) with Some j => Some [j] | None => None end.

Definition sel_sig (s : sigsel) (start : tree) : option path :=
  match s with SelBelow => first_sig start | SelChild => first_sig_child start end.

(* every element a parser of the received text sees (nothing below a ciphertext node), document order *)
Fixpoint visible (t : tree) : list (path * tree) :=
  match t with
  | Node tg ats _ ks =>
      ([], t) :: (if opaque_parts tg ats then []
                  else (fix go (i : nat) (l : list tree) : list (path * tree) :=
                          match l with
                          | [] => []
                          | k :: r => map (fun pe => (i :: fst pe, snd pe)) (visible k) ++ go (S i) r
                          end) 0 ks)
  end.

Definition all_tag (tg : string) (l : list tree) : bool :=
  forallb (fun c => String.eqb (tag c) tg) l.

(* node order enforced by xmlsec1 (xmlSecDSigCtxProcessSignatureNode and friends); the harness
   applies the same test in front of the stand-in *)
Definition strict_ref (r : tree) : bool :=
  match kids r with
  | [a; b; c] => String.eqb (tag a) TRANSFORMS && all_tag TRANSFORM (kids a)
                 && String.eqb (tag b) DIGESTMETHOD && String.eqb (tag c) DIGESTVALUE
  | [b; c] => String.eqb (tag b) DIGESTMETHOD && String.eqb (tag c) DIGESTVALUE
  | _ => false
  end.

Definition strict_si (si : tree) : bool :=
  match kids si with
  | cm :: sm :: r1 :: refs =>
      String.eqb (tag cm) C14NMETHOD && String.eqb (tag sm) SIGMETHOD
      && forallb (fun r => String.eqb (tag r) REFERENCE && strict_ref r) (r1 :: refs)
  | _ => false
  end.

Definition strict_sig (sg : tree) : bool :=
  match kids sg with
  | si :: sv :: rest =>
      String.eqb (tag si) SIGNEDINFO && String.eqb (tag sv) SIGVALUE && strict_si si
      && match rest with
         | k :: r' => if String.eqb (tag k) KEYINFO then all_tag OBJECT r' else all_tag OBJECT rest
         | [] => true
         end
  | _ => false
  end.

Definition drop1 (s : string) : string := match s with String _ r => r | EmptyString => EmptyString end.

(* same-document reference resolution (--enabled-reference-uris empty,same-doc) *)
Definition resolve (ids : string -> option path) (uri : option string) : option path :=
  match uri with
  | None => Some []
  | Some u => if is_empty u then Some []
              else if startswith u "#" then ids (drop1 u)
              else None
  end.

Definition opt_mem (x : option string) (l : list string) : bool :=
  match x with Some s => mem s l | None => false end.

Inductive vres := VErr | VFail | VOk (digested : list (path * path)).   (* (target, signature) *)

Section Crypto.
  (* ideal digest / signature verification; instantiated by tables in the correspondence *)
  Variable dig_ok : string -> string -> tree -> bool.     (* algorithm, DigestValue text, digested tree *)
  Variable sig_ok : nat -> string -> tree -> bool.        (* certificate, SignatureValue text, SignedInfo *)

  (* one ds:Reference: None = xmlsec error, Some (target, digest matches) *)
  Definition ref_check (doc : tree) (ids : string -> option path) (sigp : path) (r : tree)
    : option (path * bool) :=
    match resolve ids (attr "URI" r) with
    | None => None
    | Some tp =>
        match sub doc tp with
        | None => None
        | Some tgt =>
            let trs := match first_child TRANSFORMS r with
                       | Some T => map (attr "Algorithm") (many TRANSFORM T)
                       | None => []
                       end in
            if negb (forallb (fun a => opt_mem a (TRANSFORM_ENVELOPED :: XS_C14N_ALGS)) trs) then None
            else
              let env := existsb (fun a => opt_mem a [TRANSFORM_ENVELOPED]) trs in
              match (if env then match strip_prefix tp sigp with
                                 | Some [] => None                     (* target is the signature itself *)
                                 | Some rel => Some (remove_at tgt rel)
                                 | None => Some tgt
                                 end
                     else Some tgt) with
              | None => None
              | Some node =>
                  match first_child DIGESTMETHOD r, first_child DIGESTVALUE r with
                  | Some dm, Some dv =>
                      match attr "Algorithm" dm with
                      | Some alg => if mem alg XS_DIG_ALGS then Some (tp, dig_ok alg (text dv) node) else None
                      | None => None
                      end
                  | _, _ => None
                  end
              end
        end
    end.

  Fixpoint refs_check (doc : tree) (ids : string -> option path) (sigp : path) (rs : list tree)
    : option (list (path * path) * bool) :=
    match rs with
    | [] => Some ([], true)
    | r :: rest =>
        match ref_check doc ids sigp r, refs_check doc ids sigp rest with
        | Some (tp, ok), Some (ds, oks) => Some ((tp, sigp) :: ds, ok && oks)
        | _, _ => None
        end
    end.

  (* ID lookup of the engine: strict and first-wins read the first registration, last-wins the last *)
  Definition ids_of (m : idmode) (reg : list (string * path)) (i : string) : option path :=
    match m with IdLast => assoc_last i reg | _ => assoc i reg end.
  Definition dup_error (m : idmode) (reg : list (string * path)) : bool :=
    match m with IdStrict => has_dup (map fst reg) | _ => false end.

  Definition xmlsec_verify (E : engine) (K : knobs) (doc : tree) (nn : nodename) (node_id : option string) (cert : nat) : vres :=
    let reg := collect nn doc in
    if dup_error (e_ids E) reg then VErr
    else
      let ids := ids_of (e_ids E) reg in
      match (match (if k_nodeid K then node_id else None) with
             | None => Some []
             | Some i => ids i
             end) with
      | None => VErr
      | Some sp =>
          match sub doc sp with
          | None => VErr
          | Some start =>
              match sel_sig (e_sel E) start with
              | None => VErr
              | Some rel =>
                  match sub start rel with
                  | None => VErr
                  | Some sg =>
                      if negb (strict_sig sg) then VErr
                      else
                        match first_child SIGNEDINFO sg, first_child SIGVALUE sg with
                        | Some si, Some sv =>
                            match refs_check doc ids (sp ++ rel) (many REFERENCE si) with
                            | None => VErr
                            | Some (ds, digs_ok) =>
                                let cm := match first_child C14NMETHOD si with Some m => attr "Algorithm" m | None => None end in
                                let sm := match first_child SIGMETHOD si with Some m => attr "Algorithm" m | None => None end in
                                if negb (opt_mem cm XS_C14N_ALGS) then VErr
                                else if negb (opt_mem sm XS_SIG_ALGS) then VErr
                                else if digs_ok && sig_ok cert (text sv) si then VOk ds else VFail
                            end
                        | _, _ => VErr
                        end
                  end
              end
          end
      end.

  (* ---------------------------------------------------------------- _check_signature *)
  Definition count_in (x : string) (l : list (option string)) : nat :=
    if existsb (fun a => opt_mem a [x]) l then 1 else 0.

  Definition id_str (item : tree) : string :=
    match attr "ID" item with Some i => i | None => "None" end.        (* f"#{item.id}" *)

  (* the nine validators on item.signature (= LAST ds:Signature child); an AttributeError /
     IndexError in their evaluation also ends in rejection, hence false *)
  Definition validators (K : knobs) (item : tree) : bool :=
    match single SIGNATURE item with
    | None => false
    | Some sg =>
        match single SIGNEDINFO sg with
        | None => false
        | Some si =>
            match many REFERENCE si with
            | [r] =>
                match attr "URI" r, single C14NMETHOD si, single TRANSFORMS r with
                | Some uri, Some cm, Some T =>
                    let algos := map (attr "Algorithm") (many TRANSFORM T) in
                    let n := length algos in
                    let valid_n := count_in TRANSFORM_ENVELOPED algos + count_in TRANSFORM_C14N algos
                                   + count_in TRANSFORM_C14N_WC algos in
                    startswith uri "#" && Nat.ltb 1 (String.length uri)
                    && (negb (k_uri K)
                        || (if k_exact K then String.eqb uri ("#" ++ id_str item)%string
                            else String.eqb (lower (drop1 uri)) (lower (id_str item))))
                    && opt_mem (attr "Algorithm" cm) ALLOWED_CANONICALIZATIONS
                    && Nat.leb 1 n && Nat.leb n 2
                    && Nat.eqb n valid_n
                    && existsb (fun a => opt_mem a [TRANSFORM_ENVELOPED]) algos
                    && match many OBJECT sg with [] => true | _ => false end
                | _, _, _ => false
                end
            | _ => false
            end
        end
    end.

  (* sigver._is_the_only_signature_child (e81db11e), the part that looks at one element: exactly one
     ds:Signature child, and it is the first ds:Signature in document order at or below the element *)
  Definition one_sig (item : tree) : bool :=
    match many SIGNATURE item, first_sig item with
    | [_], Some [i] => match nth_error (kids item) i with
                       | Some k => String.eqb (tag k) SIGNATURE
                       | None => false
                       end
    | _, _ => false
    end.

  Definition one_sig_k (K : knobs) (item : tree) : bool :=
    if k_iter K then one_sig item
    else match many SIGNATURE item with [_] => true | _ => false end.

  (* [e for e in root.iter("{ns}tag") if e.get("ID") == node_id]: the namespace-qualified elements of the node
     name whose ID attribute equals item.id (None = no ID attribute), in the text as received *)
  Definition node_match (K : knobs) (nn : nodename) (tg : string) : bool :=
    if k_lax K then id_match nn tg else String.eqb tg (nn_q nn).
  Definition nodes_of (m : string -> bool) (oid : option string) (doc : tree) : list path :=
    map fst (filter (fun pe => m (tag (snd pe)) && opt_eqb String.eqb (attr "ID" (snd pe)) oid) (visible doc)).

  (* sigver._is_the_only_signature_child as called by _check_signature: the element is looked up in the
     RECEIVED TEXT by name and ID - it must be the only one - and the one-signature test is made on it *)
  Definition one_sig_doc (K : knobs) (nn : nodename) (doc item : tree) : bool :=
    let ps := nodes_of (node_match K nn) (attr "ID" item) doc in
    match (if k_uniq K then match ps with [q] => Some q | _ => None end else last_opt ps) with
    | Some q => match sub doc q with Some node => one_sig_k K node | None => false end
    | None => false
    end.

  Definition issuer_text (item : tree) : string :=
    match single ISSUER item with Some i => strip (text i) | None => "" end.

  Fixpoint first_ok (f : nat -> vres) (certs : list nat) : option (list (path * path) * nat) :=
    match certs with
    | [] => None
    | c :: r => match f c with
                | VOk ds => Some (ds, c)
                | _ => first_ok f r                       (* XmlsecError: next certificate *)
                end
    end.

  (* item is an element of doc that carries a ds:Signature child.  Result: what xmlsec1
     digested (target, signature) and the certificate that verified, or None = rejected. *)
  Definition check_signature (E : engine) (K : knobs) (c : cfg) (doc item : tree) (nn : nodename)
             (fallback_issuer : string) (schema_ok : bool) : option (list (path * path) * nat) :=
    let iss := let i := issuer_text item in if is_empty i then fallback_issuer else i in
    let certs := md_certs c iss in
    if negb schema_ok then None
    else if negb (validators K item) then None
    else if k_onesig K && negb (one_sig_doc K nn doc item) then None
    else
      let nid := match attr "ID" item with
                 | Some i => if is_empty i then None else Some i      (* if node_id: *)
                 | None => None
                 end in
      first_ok (xmlsec_verify E K doc nn nid) certs.

  (* ---------------------------------------------------------------- what is reported *)
  Record reported := {
    r_name_id : option (string * option string);     (* NameID text, Format *)
    r_ava : list (string * list string);
    r_issuer : string;
    r_audiences : list string;
    r_not_before : option string;
    r_not_on_or_after : option string;               (* Conditions/@NotOnOrAfter of the assertion *)
    r_session_index : option string;
    r_session_nooa : option string;                  (* session_info()["not_on_or_after"] *)
    r_authn : option (option string * option string) (* AuthnInstant, AuthnContextClassRef *)
  }.

  Definition COMPLEX := "<complex>".
  Definition known_saml (tg : string) : bool := startswith tg "saml:".

  (* ava_from: value extraction *)
  Definition values_of (at_ : tree) : list string :=
    flat_map (fun v => match kids v with
                       | [] => [strip (text v)]
                       | ks => map (fun _ => COMPLEX) (filter (fun k => known_saml (tag k)) ks)
                       end) (many ATTRVALUE at_).

  Definition akey (c : cfg) (at_ : tree) : option string :=
    match attr "NameFormat" at_, attr "Name" at_ with
    | Some nf, Some n => assoc (nf ++ "|" ++ lower (strip n))%string (amap c)
    | _, _ => None
    end.

  Definition ava := list (string * list string).

  Fixpoint ava_extend (k : string) (vs : list string) (m : ava) : ava :=
    match m with
    | [] => [(k, vs)]
    | (k', v') :: r => if String.eqb k k' then (k', v' ++ vs) :: r else (k', v') :: ava_extend k vs r
    end.

  Fixpoint ava_set (k : string) (vs : list string) (m : ava) : ava :=
    match m with
    | [] => [(k, vs)]
    | (k', v') :: r => if String.eqb k k' then (k', vs) :: r else (k', v') :: ava_set k vs r
    end.

  (* list_to_local *)
  Definition ava_stmt (c : cfg) (st : tree) : ava :=
    fold_left (fun m at_ => match akey c at_ with
                            | Some k => ava_extend k (values_of at_) m
                            | None => m
                            end) (many ATTRIBUTE st) [].

  Definition ava_update (m new : ava) : ava :=
    fold_left (fun m kv => ava_set (fst kv) (snd kv) m) new m.

  (* get_identity, one assertion *)
  Definition ava_assertion (c : cfg) (m : ava) (a : tree) : ava :=
    let m1 := match single ADVICE a with
              | Some adv => fold_left (fun m ta => match many ATTRSTMT ta with
                                                   | st :: _ => ava_update m (ava_stmt c st)
                                                   | [] => m
                                                   end) (many ASSERTION adv) m
              | None => m
              end in
    fold_left (fun m st => ava_update m (ava_stmt c st)) (many ATTRSTMT a) m1.

  Definition nonempty (o : option string) : option string :=
    match o with Some s => if is_empty s then None else Some s | None => None end.

  Definition name_id_of (a : tree) : option tree :=
    match single SUBJECT a with Some s => single NAMEID s | None => None end.

  Definition cond_nooa (a : tree) : option string :=
    match single CONDITIONS a with Some cd => nonempty (attr "NotOnOrAfter" cd) | None => None end.

  Definition sess_nooa (a : tree) : option string :=
    match first_opt (many AUTHNSTMT a) with Some st => nonempty (attr "SessionNotOnOrAfter" st) | None => None end.

  Definition keep_last {A} (f : tree -> option A) (l : list tree) : option A :=
    fold_left (fun acc a => match f a with Some x => Some x | None => acc end) l None.

  (* proc: assertions in the order _assertion() processes them; rep: self.assertions *)
  Definition report (c : cfg) (root : tree) (proc rep : list tree) : reported :=
    let a0 := first_opt rep in
    let cd := match a0 with Some a => single CONDITIONS a | None => None end in
    let st := match a0 with Some a => first_opt (many AUTHNSTMT a) | None => None end in
    {| r_name_id := match keep_last name_id_of proc with
                    | Some n => Some (text n, attr "Format" n)
                    | None => None
                    end;
       r_ava := fold_left (ava_assertion c) rep [];
       r_issuer := issuer_text root;
       r_audiences := match cd with
                      | Some x => flat_map (fun ar => map text (many AUDIENCE ar)) (many AUDRESTR x)
                      | None => []
                      end;
       r_not_before := match cd with Some x => attr "NotBefore" x | None => None end;
       r_not_on_or_after := match cd with Some x => attr "NotOnOrAfter" x | None => None end;
       r_session_index := match st with Some s => attr "SessionIndex" s | None => None end;
       (* session_info() calls issuer(), which fails on an Issuer element without text
          (None.strip()): then session_info() reports nothing *)
       r_session_nooa := if match single ISSUER root with Some i => is_empty (text i) | None => false end
                         then None
                         else match keep_last sess_nooa proc with
                              | Some s => Some s
                              | None => keep_last cond_nooa proc
                              end;
       r_authn := match st with
                  | Some s => Some (attr "AuthnInstant" s,
                                    match single AUTHNCONTEXT s with
                                    | Some ac => match single CLASSREF ac with
                                                 | Some cr => nonempty (Some (text cr))
                                                 | None => None
                                                 end
                                    | None => None
                                    end)
                  | None => None
                  end |}.

  (* ---------------------------------------------------------------- acceptance *)
  (* a digest record: in which document (false = as received, true = after decryption),
     target path, signature path, certificate *)
  Definition dig := (bool * path * path * nat)%type.

  Definition mkdigs (d : bool) (r : list (path * path) * nat) : list dig :=
    map (fun ts => (d, fst ts, snd ts, snd r)) (fst r).

  (* _assertion() after the signature part (64feb908): self.issuer() — which fails on an Issuer element
     without text — must be empty or equal the assertion's issuer *)
  Definition issuer_check (K : knobs) (root a : tree) : bool :=
    negb (k_issuer K)
    || (negb (match single ISSUER root with Some i => is_empty (text i) | None => false end)
        && (is_empty (issuer_text root)
            || (if k_isseq K then String.eqb (issuer_text root) (issuer_text a)
                else is_infix (issuer_text root) (issuer_text a)))).

  (* _assertion() signature part over a list of assertions of document doc (root = the Response as
     received).  Result: None = rejected; Some (all carried a signature, digests) *)
  Fixpoint check_assertions (E : engine) (K : knobs) (c : cfg) (d : bool) (root doc : tree) (fallback : string)
           (as_ : list tree) (sch : list bool) : option (bool * list dig) :=
    match as_ with
    | [] => Some (true, [])
    | a :: r =>
        let s := match sch with b :: _ => b | [] => false end in
        if negb (issuer_check K root a) then None else
        match single SIGNATURE a with
        | None =>
            if want_assert c then None
            else match check_assertions E K c d root doc fallback r (tl sch) with
                 | Some (_, ds) => Some (false, ds)
                 | None => None
                 end
        | Some _ =>
            match check_signature E K c doc a A_NAME fallback s with
            | None => None
            | Some res =>
                match check_assertions E K c d root doc fallback r (tl sch) with
                | Some (all, ds) => Some (all, mkdigs d res ++ ds)
                | None => None
                end
            end
        end
    end.

  Definition has_enc_data (l : list tree) : bool :=
    existsb (fun e => match single ENCDATA e with Some _ => true | None => false end) l.

  (* find_encrypt_data(resp) *)
  Definition find_encrypt_data (root : tree) : bool :=
    has_enc_data (many ENCASSERTION root)
    || existsb (fun a => match single ADVICE a with
                         | Some adv => has_enc_data (many ENCASSERTION adv)
                         | None => false
                         end) (many ASSERTION root).

  (* decrypted assertions: Assertion children of the EncryptedAssertion children *)
  Definition decrypted (ddoc : tree) : list tree :=
    flat_map (fun e => many ASSERTION e) (many ENCASSERTION ddoc).

  (* parse_assertion, the "saml2int limitation" (context AuthnReq; self.assertion is still None there):
       n_assertions != 1 and n_assertions_enc != 1  =>  InvalidAssertion
     i.e. the Response goes on when it has exactly one plain Assertion child OR exactly one EncryptedAssertion
     child (with or without ciphertext) - whatever the number of children of the other kind.  (Implied by
     [content_ok]; restated here because the property depends on it: how many assertions feed one report.) *)
  Definition count_ok (doc : tree) : bool :=
    Nat.eqb (length (many ASSERTION doc)) 1 || Nat.eqb (length (many ENCASSERTION doc)) 1.

  (* parse_assertion after 6a3bb24f: `self.context != "AuthnQuery" and len(self.assertions) > 1 and not
     self.response.signature` => InvalidAssertion.  fed = self.assertions (decrypted assertions, then the plain ones);
     on this path the Response carries a signature exactly when resp_signed (it was then verified) *)
  Definition one_fed (K : knobs) (resp_signed : bool) (fed : list tree) : bool :=
    negb (k_one K) || resp_signed || Nat.leb (length fed) 1.

  (* The acceptance path.  doc = the Response as received; ddoc = the text against which the
     signatures of decrypted assertions are verified (str(response) after decrypt_keys), only
     consulted when find_encrypt_data holds.  Result: None = no identity. *)
  Definition accept (E : engine) (K : knobs) (c : cfg) (o : oracle) (doc : tree) (ddoc : option tree)
    : option (reported * list dig) :=
    if negb (String.eqb (tag doc) RESPONSE) then None
    else if negb (content_ok o) then None
    else if negb (count_ok doc) then None
    else
      match (match single SIGNATURE doc with
             | Some _ => match check_signature E K c doc doc R_NAME "" (schema_root o) with
                         | Some res => Some (true, mkdigs false res)
                         | None => None
                         end
             | None => if want_resp c then None else Some (false, [])
             end) with
      | None => None
      | Some (resp_signed, d0) =>
          let plain := many ASSERTION doc in
          match check_assertions E K c false doc doc "" plain (schema_as o) with
          | None => None
          | Some (all1, d1) =>
              if find_encrypt_data doc then
                match ddoc with
                | None => None
                | Some dd =>
                    let encs := decrypted dd in
                    (* decrypt_assertions: signature checked when present; _assertion(a, True):
                       unsigned + require_signature => SignatureError *)
                    match check_assertions E K c true doc dd "" encs (schema_enc o) with
                    | None => None
                    | Some (all2, d2) =>
                        let plain' := many ASSERTION dd in
                        let signed := all1 && all2 in
                        if want_either c && negb resp_signed && negb signed then None
                        else match plain ++ encs ++ plain' with
                             | [] => None        (* no assertion, no name_id, empty ava: no identity *)
                             | _ => if negb (one_fed K resp_signed (encs ++ plain')) then None
                                    else Some (report c doc (plain ++ encs) (encs ++ plain'), d0 ++ d1 ++ d2)
                             end
                    end
                end
              else
                if want_either c && negb resp_signed && negb all1 then None
                else match plain with
                     | [] => None
                     | _ => if negb (one_fed K resp_signed plain) then None
                            else Some (report c doc plain plain, d0 ++ d1)
                     end
          end
      end.
End Crypto.
